"""llvm2smt.sem -- symbolic semantics of the parsed IR: path enumeration over the (loop-free) CFG and
two value encodings.

* BV  : every iN value is a z3 bit-vector of width N (exact machine semantics).
* INT : every iN value is a mathematical integer, the *signed* reading of the bit pattern, with
        explicit wrap-around; used for functions containing mul / sdiv / srem, where bit-vector
        queries do not terminate.  Bitwise operators are supported in the forms clang emits for these
        functions (masks by constants, or/xor whose only consumers are zero / sign / low-bit tests).

Undefined behaviour (nsw / nuw / exact violations, shift >= width, division by zero, MIN / -1) is
returned as obligations that must be unreachable.
"""
from __future__ import annotations

import re

import z3

from .ir import Unsupported


def width(ty):
    return int(ty[1:])


class Path:
    def __init__(self):
        self.conds = []
        self.events = []  # ("call", name, args) | ("raise", exc_name)
        self.ub = []  # (ok_condition, description)  -- must hold under conds so far
        self.ret = None
        self.blocks = []

    def clone(self):
        p = Path()
        p.conds = list(self.conds)
        p.events = list(self.events)
        p.ub = list(self.ub)
        p.blocks = list(self.blocks)
        return p


# ------------------------------------------------------------------------------------------ BV


class BV:
    name = "bitvector"

    def __init__(self):
        self.fresh = 0

    def param(self, ty, name):
        return z3.BitVec(name, width(ty)) if ty != "i1" else z3.Bool(name)

    def const(self, ty, tok):
        if ty == "i1":
            return z3.BoolVal(tok in ("true", "1", "-1"))
        if tok in ("undef", "poison"):
            self.fresh += 1
            return z3.BitVec(f"undef{self.fresh}", width(ty))
        return z3.BitVecVal(int(tok), width(ty))

    def binop(self, op, flags, ty, a, b):
        ub = []
        w = width(ty)
        if ty == "i1":
            if op == "and":
                return z3.And(a, b), ub
            if op == "or":
                return z3.Or(a, b), ub
            if op == "xor":
                return z3.Xor(a, b), ub
            raise Unsupported(f"{op} on i1")
        if op == "add":
            if "nsw" in flags:
                ub.append((z3.And(z3.BVAddNoOverflow(a, b, True), z3.BVAddNoUnderflow(a, b)), "add nsw overflow"))
            if "nuw" in flags:
                ub.append((z3.BVAddNoOverflow(a, b, False), "add nuw overflow"))
            return a + b, ub
        if op == "sub":
            if "nsw" in flags:
                ub.append((z3.And(z3.BVSubNoOverflow(a, b), z3.BVSubNoUnderflow(a, b, True)), "sub nsw overflow"))
            if "nuw" in flags:
                ub.append((z3.BVSubNoUnderflow(a, b, False), "sub nuw overflow"))
            return a - b, ub
        if op == "mul":
            if "nsw" in flags:
                ub.append((z3.And(z3.BVMulNoOverflow(a, b, True), z3.BVMulNoUnderflow(a, b)), "mul nsw overflow"))
            if "nuw" in flags:
                ub.append((z3.BVMulNoOverflow(a, b, False), "mul nuw overflow"))
            return a * b, ub
        if op in ("sdiv", "srem"):
            ub.append((b != 0, f"{op} by zero"))
            ub.append((z3.Not(z3.And(a == z3.BitVecVal(-(2 ** (w - 1)), w), b == z3.BitVecVal(-1, w))), f"{op} overflow (MIN / -1)"))
            return (a / b if op == "sdiv" else z3.SRem(a, b)), ub
        if op in ("udiv", "urem"):
            ub.append((b != 0, f"{op} by zero"))
            return (z3.UDiv(a, b) if op == "udiv" else z3.URem(a, b)), ub
        if op == "and":
            return a & b, ub
        if op == "or":
            return a | b, ub
        if op == "xor":
            return a ^ b, ub
        if op in ("shl", "lshr", "ashr"):
            ub.append((z3.ULT(b, z3.BitVecVal(w, w)), f"{op} amount >= width"))
            if op == "shl":
                r = a << b
                if "nsw" in flags:
                    ub.append(((r >> b) == a, "shl nsw overflow"))
                if "nuw" in flags:
                    ub.append((z3.LShR(r, b) == a, "shl nuw overflow"))
                return r, ub
            if op == "lshr":
                r = z3.LShR(a, b)
                if "exact" in flags:
                    ub.append(((r << b) == a, "lshr exact"))
                return r, ub
            r = a >> b
            if "exact" in flags:
                ub.append(((r << b) == a, "ashr exact"))
            return r, ub
        raise Unsupported(op)

    def icmp(self, pred, ty, a, b):
        if ty == "i1":
            if pred == "eq":
                return a == b
            if pred == "ne":
                return a != b
            raise Unsupported("icmp on i1")
        return {
            "eq": lambda: a == b, "ne": lambda: a != b,
            "slt": lambda: a < b, "sle": lambda: a <= b, "sgt": lambda: a > b, "sge": lambda: a >= b,
            "ult": lambda: z3.ULT(a, b), "ule": lambda: z3.ULE(a, b), "ugt": lambda: z3.UGT(a, b), "uge": lambda: z3.UGE(a, b),
        }[pred]()

    def cast(self, op, ty, to, a):
        w0, w1 = (1 if ty == "i1" else width(ty)), (1 if to == "i1" else width(to))
        if ty == "i1":
            one = z3.BitVecVal(-1 if op == "sext" else 1, w1)
            return z3.If(a, one, z3.BitVecVal(0, w1))
        if op == "trunc":
            r = z3.Extract(w1 - 1, 0, a)
            return (r == z3.BitVecVal(1, 1)) if to == "i1" else r
        if op == "zext":
            return z3.ZeroExt(w1 - w0, a)
        return z3.SignExt(w1 - w0, a)

    def select(self, c, ty, a, b):
        return z3.If(c, a, b)

    def call_result(self, ty, name, k):
        if ty == "void":
            return None
        if ty == "i1":
            return z3.Bool(f"ret!{name}!{k}")
        return z3.BitVec(f"ret!{name}!{k}", width(ty))

    def overflow_op(self, arith, signed, ty, a, b):
        w = width(ty)
        ext = (lambda x: z3.SignExt(w, x)) if signed else (lambda x: z3.ZeroExt(w, x))
        wide = {"add": ext(a) + ext(b), "sub": ext(a) - ext(b), "mul": ext(a) * ext(b)}[arith]
        res = z3.Extract(w - 1, 0, wide)
        back = ext(res)
        return res, back != wide


# ------------------------------------------------------------------------------------------ INT


class Lazy:
    """or / xor of two integer values whose bit pattern is not computed"""

    def __init__(self, kind, a, b, w):
        self.kind, self.a, self.b, self.w = kind, a, b, w


class INT:
    name = "integer"

    def __init__(self):
        self.fresh = 0
        self.facts = []  # definitional facts (division axioms), always true
        self.divs = []  # (dividend, divisor, truncated quotient, truncated remainder)

    def param(self, ty, name):
        if ty == "i1":
            return z3.Bool(name)
        w = width(ty)
        v = z3.Int(name)
        self.facts.append(z3.And(v >= -(2 ** (w - 1)), v < 2 ** (w - 1)))
        return v

    def const(self, ty, tok):
        if ty == "i1":
            return z3.BoolVal(tok in ("true", "1", "-1"))
        if tok in ("undef", "poison"):
            self.fresh += 1
            return self.param(ty, f"undef{self.fresh}")
        w = width(ty)
        n = int(tok)
        if n >= 2 ** (w - 1):
            n -= 2 ** w
        return z3.IntVal(n)

    def wrap(self, x, w):
        """signed value of the low w bits of x"""
        return x - (2 ** w) * ((x + 2 ** (w - 1)) / (2 ** w))

    def unsigned(self, x, w):
        return z3.If(x < 0, x + 2 ** w, x)

    def need_plain(self, v, what):
        if isinstance(v, Lazy):
            raise Unsupported(f"{v.kind} result used by {what} (integer encoding)")
        return v

    def mask(self, x, c, w):
        """x & c for a constant c: sum over the runs of ones of c"""
        bits = c % (2 ** w)
        if bits == 0:
            return z3.IntVal(0)
        total = z3.IntVal(0)
        i = 0
        while i < w:
            if (bits >> i) & 1:
                j = i
                while j < w and (bits >> j) & 1:
                    j += 1
                lo = x % (2 ** i) if i > 0 else z3.IntVal(0)
                if j >= w:
                    total = total + (x - lo)  # run reaches the sign bit: keeps the (signed) high part
                else:
                    total = total + (x % (2 ** j) - lo)
                i = j
            else:
                i += 1
        return total

    def binop(self, op, flags, ty, a, b):
        ub = []
        if ty == "i1":
            if op == "and":
                return z3.And(a, b), ub
            if op == "or":
                return z3.Or(a, b), ub
            if op == "xor":
                return z3.Xor(a, b), ub
            raise Unsupported(f"{op} on i1")
        w = width(ty)
        lo, hi = -(2 ** (w - 1)), 2 ** (w - 1)
        if op in ("or", "xor"):
            ca = z3.simplify(a) if not isinstance(a, Lazy) else None
            cb = z3.simplify(b) if not isinstance(b, Lazy) else None
            if op == "or" and cb is not None and z3.is_int_value(cb) and cb.as_long() == 0:
                return a, ub
            return Lazy(op, a, b, w), ub
        if op == "and":
            if isinstance(a, Lazy) and a.kind == "or":
                return Lazy("or", self.binop("and", [], ty, a.a, b)[0], self.binop("and", [], ty, a.b, b)[0], w), ub
            a = self.need_plain(a, "and")
            b = self.need_plain(b, "and")
            cb = z3.simplify(b)
            ca = z3.simplify(a)
            if z3.is_int_value(cb):
                return self.mask(a, cb.as_long(), w), ub
            if z3.is_int_value(ca):
                return self.mask(b, ca.as_long(), w), ub
            raise Unsupported("and of two non-constant values (integer encoding)")
        a = self.need_plain(a, op)
        b = self.need_plain(b, op)
        if op in ("add", "sub", "mul"):
            exact = a + b if op == "add" else a - b if op == "sub" else a * b
            if "nsw" in flags:
                ub.append((z3.And(exact >= lo, exact < hi), f"{op} nsw overflow"))
                return exact, ub
            if "nuw" in flags:
                ua, ub_ = self.unsigned(a, w), self.unsigned(b, w)
                ue = ua + ub_ if op == "add" else ua - ub_ if op == "sub" else ua * ub_
                ub.append((z3.And(ue >= 0, ue < 2 ** w), f"{op} nuw overflow"))
            return self.wrap(exact, w), ub
        if op in ("sdiv", "srem"):
            ub.append((b != 0, f"{op} by zero"))
            ub.append((z3.Not(z3.And(a == lo, b == -1)), f"{op} overflow (MIN / -1)"))
            self.fresh += 1
            q, r = z3.Int(f"q{self.fresh}"), z3.Int(f"r{self.fresh}")
            absb = z3.If(b >= 0, b, -b)
            # truncated division: a = q*b + r, |r| < |b|, r has the sign of a (or is 0)
            self.facts.append(z3.Implies(b != 0, z3.And(a == q * b + r, z3.If(a >= 0, z3.And(r >= 0, r < absb), z3.And(r <= 0, -r < absb)))))
            self.divs.append((a, b, q, r))
            return (q if op == "sdiv" else r), ub
        if op in ("shl", "lshr", "ashr"):
            cb = z3.simplify(b)
            if not z3.is_int_value(cb):
                raise Unsupported(f"{op} by a variable amount (integer encoding)")
            k = cb.as_long()
            if not (0 <= k < w):
                ub.append((z3.BoolVal(False), f"{op} amount >= width"))
                return z3.IntVal(0), ub
            if op == "shl":
                exact = a * (2 ** k)
                if "nsw" in flags:
                    ub.append((z3.And(exact >= lo, exact < hi), "shl nsw overflow"))
                    return exact, ub
                return self.wrap(exact, w), ub
            if op == "ashr":
                if "exact" in flags:
                    ub.append((a % (2 ** k) == 0, "ashr exact"))
                return a / (2 ** k), ub
            if "exact" in flags:
                ub.append((a % (2 ** k) == 0, "lshr exact"))
            return self.unsigned(a, w) / (2 ** k), ub
        raise Unsupported(op)

    def icmp(self, pred, ty, a, b):
        if ty == "i1":
            if pred == "eq":
                return a == b
            if pred == "ne":
                return a != b
            raise Unsupported("icmp on i1")
        w = width(ty)
        if isinstance(a, Lazy) or isinstance(b, Lazy):
            lz, other = (a, b) if isinstance(a, Lazy) else (b, a)
            if isinstance(other, Lazy):
                raise Unsupported("comparison of two or/xor results")
            c = z3.simplify(other)
            if not z3.is_int_value(c):
                raise Unsupported("or/xor result compared with a variable")
            k = c.as_long()
            if isinstance(b, Lazy):  # normalise: lazy on the left
                pred = {"slt": "sgt", "sgt": "slt", "sle": "sge", "sge": "sle", "ult": "ugt", "ugt": "ult", "ule": "uge", "uge": "ule"}.get(pred, pred)
            x, y = lz.a, lz.b
            if lz.kind == "or":
                def zero(v):
                    return self.icmp("eq", ty, v, z3.IntVal(0))

                if pred in ("eq", "ne") and k == 0:
                    r = z3.And(zero(x), zero(y))
                    return r if pred == "eq" else z3.Not(r)
                if pred in ("ugt", "ule") and (k + 1) & k == 0 and k >= 0:
                    # (x | y) >u 2^m - 1  <=>  x >u 2^m - 1  or  y >u 2^m - 1
                    r = z3.Or(self.icmp("ugt", ty, x, z3.IntVal(k)), self.icmp("ugt", ty, y, z3.IntVal(k)))
                    return r if pred == "ugt" else z3.Not(r)
                if pred in ("slt", "sge") and k == 0:
                    r = z3.Or(self.icmp("slt", ty, x, z3.IntVal(0)), self.icmp("slt", ty, y, z3.IntVal(0)))
                    return r if pred == "slt" else z3.Not(r)
                raise Unsupported(f"icmp {pred} on an or result with constant {k}")
            # xor: only sign tests
            xn = self.need_plain(x, "xor sign test") < 0
            yn = self.need_plain(y, "xor sign test") < 0
            if pred == "slt" and k == 0:
                return xn != yn
            if pred == "sgt" and k == -1:
                return xn == yn
            if pred == "sge" and k == 0:
                return xn == yn
            if pred == "sle" and k == -1:
                return xn != yn
            if pred in ("eq", "ne") and k == 0:
                r = self.need_plain(x, "xor") == self.need_plain(y, "xor")
                return r if pred == "eq" else z3.Not(r)
            raise Unsupported(f"icmp {pred} on a xor result with constant {k}")
        if pred in ("eq", "ne", "slt", "sle", "sgt", "sge"):
            return {"eq": a == b, "ne": a != b, "slt": a < b, "sle": a <= b, "sgt": a > b, "sge": a >= b}[pred]
        ua, ub_ = self.unsigned(a, w), self.unsigned(b, w)
        return {"ult": ua < ub_, "ule": ua <= ub_, "ugt": ua > ub_, "uge": ua >= ub_}[pred]

    def cast(self, op, ty, to, a):
        if ty == "i1":
            return z3.If(a, z3.IntVal(-1 if op == "sext" else 1), z3.IntVal(0))
        a = self.need_plain(a, op)
        w0 = width(ty)
        if op == "trunc":
            if to == "i1":
                return a % 2 == 1
            return self.wrap(a, width(to))
        if op == "zext":
            return self.unsigned(a, w0)
        return a  # sext keeps the signed value

    def select(self, c, ty, a, b):
        if isinstance(a, Lazy) or isinstance(b, Lazy):
            raise Unsupported("select of or/xor result")
        return z3.If(c, a, b)

    def call_result(self, ty, name, k):
        if ty == "void":
            return None
        return self.param(ty, f"ret!{name}!{k}")

    def overflow_op(self, arith, signed, ty, a, b):
        """values are the SIGNED readings of the bit patterns; the exact result is taken over the
        signed or unsigned readings, the overflow bit says whether it fits, the value wraps"""
        w = width(ty)
        a = self.need_plain(a, "overflow intrinsic")
        b = self.need_plain(b, "overflow intrinsic")
        if signed:
            x, y = a, b
            lo, hi = -(2 ** (w - 1)), 2 ** (w - 1)
        else:
            x, y = self.unsigned(a, w), self.unsigned(b, w)
            lo, hi = 0, 2 ** w
        exact = {"add": x + y, "sub": x - y, "mul": x * y}[arith]
        ovf = z3.Or(exact < lo, exact >= hi)
        return self.wrap(exact, w), ovf


# ------------------------------------------------------------------------------------------ paths


def has_hard_arith(func):
    return any(i.op in ("mul", "sdiv", "srem", "udiv", "urem") or (i.op == "ovf" and i.arith == "mul") for b in func.blocks.values() for i in b)


def run(func, backend, max_paths=256):
    """all paths of the loop-free function; returns (params, [Path])"""
    params = []
    env0 = {}
    for ty, name in func.params:
        if ty.endswith("*"):
            ty = "i64"  # a pointer argument: an opaque 64-bit value (never dereferenced by the functions in scope)
        if not re.fullmatch(r"i\d+", ty):
            raise Unsupported(f"parameter type {ty}")
        v = backend.param(ty, "arg" + name.replace("%", "_"))
        env0[name] = v
        params.append(v)
    done = []
    calls = [0]

    def val(env, ty, tok):
        if tok.startswith("%"):
            if tok not in env:
                raise Unsupported(f"use of undefined value {tok}")
            return env[tok]
        if tok == "null":
            return backend.const(ty if re.fullmatch(r"i\d+", ty) else "i64", "0")
        return backend.const(ty, tok)

    def step(label, prev, env, path, depth):
        if depth > 200:
            raise Unsupported("path too long (loop?)")
        if label in path.blocks:
            raise Unsupported("loop in CFG")
        path.blocks.append(label)
        env = dict(env)
        globals_loaded = {}
        # phis first (parallel)
        new = {}
        for ins in func.blocks[label]:
            if ins.op != "phi":
                break
            got = None
            for v, src in ins.incoming:
                if src == prev:
                    got = val(env, ins.ty, v)
            if got is None:
                raise Unsupported(f"phi without incoming for {prev}")
            new[ins.dest] = got
        env.update(new)
        for ins in func.blocks[label]:
            op = ins.op
            if op == "phi":
                continue
            if op in ("add", "sub", "mul", "sdiv", "udiv", "srem", "urem", "and", "or", "xor", "shl", "lshr", "ashr"):
                a, b = val(env, ins.ty, ins.a), val(env, ins.ty, ins.b)
                r, ub = backend.binop(op, ins.flags, ins.ty, a, b)
                for ok, desc in ub:
                    path.ub.append((list(path.conds), ok, f"{desc} at `{ins.dest} = {op}`"))
                env[ins.dest] = r
            elif op == "icmp":
                env[ins.dest] = backend.icmp(ins.pred, ins.ty, val(env, ins.ty, ins.a), val(env, ins.ty, ins.b))
            elif op in ("trunc", "zext", "sext"):
                env[ins.dest] = backend.cast(op, ins.ty, ins.to, val(env, ins.ty, ins.a))
            elif op == "select":
                env[ins.dest] = backend.select(val(env, "i1", ins.c), ins.ty, val(env, ins.ty, ins.a), val(env, ins.ty, ins.b))
            elif op == "freeze":
                env[ins.dest] = val(env, ins.ty, ins.a)
            elif op == "ovf":
                # llvm.{s,u}{add,sub,mul}.with.overflow: (wrapped result, overflow bit); never UB
                env[ins.dest] = ("agg",) + tuple(backend.overflow_op(ins.arith, ins.signed, ins.ty, val(env, ins.ty, ins.a), val(env, ins.ty, ins.b)))
            elif op == "extractvalue":
                agg = env.get(ins.agg)
                if not (isinstance(agg, tuple) and agg and agg[0] == "agg"):
                    raise Unsupported("extractvalue of a value that is not an overflow-intrinsic result")
                env[ins.dest] = agg[1 + ins.idx]
            elif op == "load_global":
                env[ins.dest] = ("global", ins.name)
            elif op == "nop":
                pass
            elif op == "alloca":
                # a local scalar whose address is taken (out-parameter of a callee); uninitialised
                env[ins.dest] = ("alloca", ins.dest, ins.ty)
            elif op == "alias":
                env[ins.dest] = env[ins.a]
            elif op == "store":
                tgt = env.get(ins.ptr)
                if not (isinstance(tgt, tuple) and tgt[0] == "alloca"):
                    raise Unsupported("store through a pointer that is not a local alloca")
                env[("mem", tgt[1])] = val(env, ins.ty, ins.a)
            elif op == "load":
                tgt = env.get(ins.ptr)
                if not (isinstance(tgt, tuple) and tgt[0] == "alloca"):
                    raise Unsupported("load through a pointer that is not a local alloca")
                if ("mem", tgt[1]) not in env:
                    path.ub.append((list(path.conds), z3.BoolVal(False), f"load of uninitialised local {tgt[1]}"))
                    env[("mem", tgt[1])] = backend.param(ins.ty, f"uninit{tgt[1].replace('%', '_')}")
                env[ins.dest] = env[("mem", tgt[1])]
            elif op == "call":
                calls[0] += 1
                if ins.callee == "PyErr_SetString":
                    g = env.get(ins.args[0][1])
                    path.events.append(("raise", g[1] if isinstance(g, tuple) else "?"))
                else:
                    args = []
                    outs = []
                    for t, tok in ins.args:
                        tgt = env.get(tok) if isinstance(tok, str) else None
                        if isinstance(tgt, tuple) and tgt and tgt[0] == "alloca":
                            # out-parameter: the callee may write the local; its new value is the call's
                            ov = backend.param(tgt[2], f"out!{ins.callee}!{calls[0]}")
                            env[("mem", tgt[1])] = ov
                            outs.append(ov)
                            args.append(("out", ov))
                        elif re.fullmatch(r"i\d+", t):
                            args.append(val(env, t, tok))
                        elif t.endswith("*") and isinstance(tok, str) and tok in env and not isinstance(env[tok], tuple):
                            args.append(env[tok])
                        else:
                            args.append(tok)
                    rty = "i64" if ins.ty.endswith("*") else ins.ty
                    r = backend.call_result(rty, ins.callee, calls[0])
                    path.events.append(("call", ins.callee, args, r))
                    if ins.dest:
                        env[ins.dest] = r
            elif op == "br":
                return step(ins.t, label, env, path, depth + 1)
            elif op == "condbr":
                c = val(env, "i1", ins.c)
                p2 = path.clone()
                path.conds.append(c)
                p2.conds.append(z3.Not(c))
                step(ins.t, label, env, path, depth + 1)
                step(ins.f, label, env, p2, depth + 1)
                return
            elif op == "ret":
                path.ret = val(env, ins.ty, ins.a) if ins.a is not None else None
                done.append(path)
                if len(done) > max_paths:
                    raise Unsupported("too many paths")
                return
            elif op == "unreachable":
                path.ub.append((list(path.conds), z3.BoolVal(False), "unreachable executed"))
                return
            else:
                raise Unsupported(op)
        raise Unsupported(f"block {label} without terminator")

    step(func.order[0], None, env0, Path(), 0)
    return params, done
