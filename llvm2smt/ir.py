"""llvm2smt.ir -- parser for the subset of textual LLVM IR that clang -O1 emits for the loop-free
integer helpers of mypyc's runtime (integer arithmetic, bitwise ops, shifts, icmp, select, br, phi,
casts, call, load of an exception global, ret, freeze).  Anything else marks the function unsupported.
"""
from __future__ import annotations

import re


class Unsupported(Exception):
    pass


class Instr:
    def __init__(self, dest, op, **kw):
        self.dest = dest
        self.op = op
        self.__dict__.update(kw)

    def __repr__(self):
        return f"{self.dest} = {self.op} {self.__dict__}"


class Func:
    def __init__(self, name, ret_ty, params):
        self.name = name
        self.ret_ty = ret_ty
        self.params = params  # [(type, name)]
        self.blocks = {}  # label -> [Instr]
        self.order = []
        self.text = []


INT_TY = r"i\d+"
PTR_TY = r"(?:%?[\w.]+|i\d+)\*+"
ANY_TY = rf"(?:{PTR_TY}|{INT_TY})"
VAL = r"(?:%[\w.]+|-?\d+|true|false|undef|poison|null)"


def split_args(s):
    """split a comma separated operand list at top level"""
    out, depth, cur = [], 0, ""
    for ch in s:
        if ch in "([{":
            depth += 1
        elif ch in ")]}":
            depth -= 1
        if ch == "," and depth == 0:
            out.append(cur.strip())
            cur = ""
        else:
            cur += ch
    if cur.strip():
        out.append(cur.strip())
    return out


def parse_module(text):
    funcs = {}
    lines = text.splitlines()
    i = 0
    while i < len(lines):
        m = re.match(r"define\s+(?:[\w_]+\s+)*?(?:(?:zeroext|signext|noundef)\s+)*(void|i\d+|double|float|%?[\w.*]+\*?)\s+@([\w.]+)\((.*)\)", lines[i])
        if m and lines[i].rstrip().endswith("{"):
            ret_ty, name, params_s = m.group(1), m.group(2), m.group(3)
            params = []
            for p in split_args(params_s):
                toks = p.split()
                if not toks:
                    continue
                params.append((toks[0], toks[-1]))
            f = Func(name, ret_ty, params)
            # the entry block's implicit label is the next unnamed value number
            nums = [int(pn[1:]) for _, pn in params if re.fullmatch(r"%\d+", pn)]
            entry = str(max(nums) + 1) if nums else "0"
            if params and not nums:
                entry = "entry"
            cur = entry
            f.blocks[cur] = []
            f.order.append(cur)
            i += 1
            while i < len(lines) and lines[i].strip() != "}":
                ln = lines[i]
                f.text.append(ln)
                lm = re.match(r"^([\w.]+):", ln)
                if lm:
                    cur = lm.group(1)
                    f.blocks[cur] = []
                    f.order.append(cur)
                elif ln.strip() and not ln.strip().startswith(";"):
                    f.blocks[cur].append(parse_instr(ln.strip()))
                i += 1
            funcs[name] = f
        i += 1
    return funcs


def strip_meta(s):
    s = re.sub(r",\s*![\w.]+\s+![\w.]+", "", s)
    s = re.sub(r"\s+#\d+\s*$", "", s)
    return s.strip()


BINOPS = {"add", "sub", "mul", "sdiv", "udiv", "srem", "urem", "and", "or", "xor", "shl", "lshr", "ashr"}
CASTS = {"trunc", "zext", "sext"}


def parse_instr(s):
    s = strip_meta(s)
    dest = None
    m = re.match(r"(%[\w.]+)\s*=\s*(.*)$", s)
    if m:
        dest, s = m.group(1), m.group(2)
    toks = s.split()
    op = toks[0]
    if op in BINOPS:
        m = re.match(rf"{op}((?:\s+(?:nsw|nuw|exact))*)\s+({INT_TY})\s+({VAL}),\s*({VAL})$", s)
        if not m:
            raise Unsupported(s)
        flags = m.group(1).split()
        return Instr(dest, op, ty=m.group(2), a=m.group(3), b=m.group(4), flags=flags)
    if op == "alloca":
        m = re.match(rf"alloca\s+({INT_TY})(?:,\s*align\s+\d+)?$", s)
        if not m:
            raise Unsupported(s)
        return Instr(dest, "alloca", ty=m.group(1))
    if op == "bitcast":
        m = re.match(rf"bitcast\s+({PTR_TY})\s+({VAL})\s+to\s+({PTR_TY})$", s)
        if not m:
            raise Unsupported(s)
        return Instr(dest, "alias", a=m.group(2))
    if op == "store":
        m = re.match(rf"store\s+({INT_TY})\s+({VAL}),\s*({PTR_TY})\s+({VAL})(?:,\s*align\s+\d+)?$", s)
        if not m:
            raise Unsupported(s)
        return Instr(None, "store", ty=m.group(1), a=m.group(2), ptr=m.group(4))
    if op == "icmp":
        mp = re.match(rf"icmp\s+(eq|ne)\s+({PTR_TY})\s+({VAL}),\s*({VAL})$", s)
        if mp:
            return Instr(dest, "icmp", pred=mp.group(1), ty="i64", a=mp.group(3), b=mp.group(4))
        m = re.match(rf"icmp\s+(\w+)\s+({INT_TY})\s+({VAL}),\s*({VAL})$", s)
        if not m:
            raise Unsupported(s)
        return Instr(dest, "icmp", pred=m.group(1), ty=m.group(2), a=m.group(3), b=m.group(4))
    if op in CASTS:
        m = re.match(rf"{op}\s+({INT_TY})\s+({VAL})\s+to\s+({INT_TY})$", s)
        if not m:
            raise Unsupported(s)
        return Instr(dest, op, ty=m.group(1), a=m.group(2), to=m.group(3))
    if op == "select":
        m = re.match(rf"select\s+i1\s+({VAL}),\s*({INT_TY})\s+({VAL}),\s*({INT_TY})\s+({VAL})$", s)
        if not m:
            raise Unsupported(s)
        return Instr(dest, "select", c=m.group(1), ty=m.group(2), a=m.group(3), b=m.group(5))
    if op == "freeze":
        m = re.match(rf"freeze\s+({INT_TY})\s+({VAL})$", s)
        if not m:
            raise Unsupported(s)
        return Instr(dest, "freeze", ty=m.group(1), a=m.group(2))
    if op == "phi":
        m = re.match(rf"phi\s+({INT_TY})\s+(.*)$", s)
        if not m:
            raise Unsupported(s)
        inc = re.findall(rf"\[\s*({VAL}),\s*%([\w.]+)\s*\]", m.group(2))
        return Instr(dest, "phi", ty=m.group(1), incoming=inc)
    if op == "br":
        m = re.match(rf"br\s+i1\s+({VAL}),\s*label\s+%([\w.]+),\s*label\s+%([\w.]+)$", s)
        if m:
            return Instr(None, "condbr", c=m.group(1), t=m.group(2), f=m.group(3))
        m = re.match(r"br\s+label\s+%([\w.]+)$", s)
        if m:
            return Instr(None, "br", t=m.group(1))
        raise Unsupported(s)
    if op == "ret":
        m = re.match(rf"ret\s+({INT_TY})\s+({VAL})$", s)
        if m:
            return Instr(None, "ret", ty=m.group(1), a=m.group(2))
        if s == "ret void":
            return Instr(None, "ret", ty="void", a=None)
        raise Unsupported(s)
    if op == "extractvalue":
        m = re.match(rf"extractvalue\s+\{{\s*({INT_TY}),\s*i1\s*\}}\s+({VAL}),\s*([01])$", s)
        if not m:
            raise Unsupported(s)
        return Instr(dest, "extractvalue", ty=m.group(1) if m.group(3) == "0" else "i1", agg=m.group(2), idx=int(m.group(3)))
    if op in ("call", "tail", "notail", "musttail") and re.search(r"@llvm\.[su](add|sub|mul)\.with\.overflow\.", s):
        m = re.match(rf"(?:tail\s+|notail\s+|musttail\s+)?call\s+\{{\s*({INT_TY}),\s*i1\s*\}}\s+@llvm\.([su])(add|sub|mul)\.with\.overflow\.i\d+\(({INT_TY})\s+({VAL}),\s*({INT_TY})\s+({VAL})\)$", s)
        if not m:
            raise Unsupported(s)
        return Instr(dest, "ovf", ty=m.group(1), signed=m.group(2) == "s", arith=m.group(3), a=m.group(5), b=m.group(7))
    if op in ("call", "tail", "notail", "musttail") and "@llvm.lifetime." in s:
        return Instr(None, "nop")
    if op in ("call", "tail", "notail", "musttail"):
        m = re.match(rf"(?:tail\s+|notail\s+|musttail\s+)?call\s+(?:[\w]+\s+)*?(void|i\d+|double|{PTR_TY})\s+@([\w.]+)\((.*)\)$", s)
        if not m:
            raise Unsupported(s)
        args = []
        for a in split_args(m.group(3)):
            t = a.split()
            args.append((t[0], t[-1] if not a.rstrip().endswith(")") else a))
        return Instr(dest, "call", ty=m.group(1), callee=m.group(2), args=args)
    if op == "load":
        m = re.match(r"load\s+.*,\s*.*\*\s+@([\w.]+)(?:,\s*align\s+\d+)?$", s)
        if m:
            return Instr(dest, "load_global", name=m.group(1))
        m = re.match(rf"load\s+({INT_TY}),\s*({PTR_TY})\s+(%[\w.]+)(?:,\s*align\s+\d+)?$", s)
        if m:
            return Instr(dest, "load", ty=m.group(1), ptr=m.group(3))
        raise Unsupported(s)
    if op == "unreachable":
        return Instr(None, "unreachable")
    raise Unsupported(s)
