"""Generate the wrapper translation unit whose clang -O1 IR is verified (C15, engine E3)."""

TAGGED_BIN = ["Add", "Subtract", "Multiply", "FloorDivide", "Remainder", "And", "Or", "Xor", "Rshift", "Lshift"]
TAGGED_UN = ["Negate", "Invert"]
TAGGED_CMP = ["IsEq", "IsNe", "IsLt", "IsLe", "IsGt", "IsGe"]
PREDS = [("CheckShort", "int", ["CPyTagged"]), ("CheckLong", "int", ["CPyTagged"]), ("TooBig", "bool", ["Py_ssize_t"]), ("TooBigInt64", "bool", ["int64_t"]),
         ("IsAddOverflow", "bool", ["CPyTagged", "CPyTagged", "CPyTagged"]), ("IsSubtractOverflow", "bool", ["CPyTagged", "CPyTagged", "CPyTagged"]),
         ("IsMultiplyOverflow", "bool", ["CPyTagged", "CPyTagged"]), ("ShortAsSsize_t", "Py_ssize_t", ["CPyTagged"])]
FIXED = [("CPyInt64_Divide", "int64_t"), ("CPyInt64_Remainder", "int64_t"), ("CPyInt32_Divide", "int32_t"), ("CPyInt32_Remainder", "int32_t"),
         ("CPyInt16_Divide", "int16_t"), ("CPyInt16_Remainder", "int16_t")]


def source():
    out = ["#include <Python.h>", '#include "CPy.h"', ""]
    for n in TAGGED_BIN:
        out.append(f"CPyTagged w_{n}(CPyTagged l, CPyTagged r) {{ return CPyTagged_{n}(l, r); }}")
    for n in TAGGED_UN:
        out.append(f"CPyTagged w_{n}(CPyTagged x) {{ return CPyTagged_{n}(x); }}")
    for n in TAGGED_CMP:
        out.append(f"bool w_{n}(CPyTagged l, CPyTagged r) {{ return CPyTagged_{n}(l, r); }}")
    for n, ret, args in PREDS:
        ps = ", ".join(f"{t} a{i}" for i, t in enumerate(args))
        cs = ", ".join(f"a{i}" for i in range(len(args)))
        out.append(f"{ret} w_{n}({ps}) {{ return CPyTagged_{n}({cs}); }}")
    # the fixed-width helpers are ordinary functions in int_ops.c: compiled from the real file
    out.append('#include "int_ops.c"')
    return "\n".join(out) + "\n"
