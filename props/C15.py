from contracts import tagged, cflags, errkind

def build(tier):
    return dict(targets=tagged.targets(tier) + cflags.targets(tier) + errkind.targets(tier),
                assumptions=["what is verified is clang 14's -O1 LLVM IR of the real CPy.h / int_ops.c, not the C text and not the gcc -O3 binary mypyc ships",
                             "slow paths (CPyTagged_*_ , CPython PyLong arithmetic) are trusted",
                             "a long (tagged pointer) operand denotes an int outside the short range (representation invariant of CPyTagged)"],
                trusted_base=["clang 14 front end and -O1 mid-end", "z3"])
