from contracts import watch

def build(tier):
    return dict(targets=watch.targets(tier), assumptions=[], trusted_base=[])
