from contracts import watch, depsgen, indirect

def build(tier):
    return dict(targets=watch.targets(tier) + depsgen.targets(tier) + depsgen.targets_update(tier) + depsgen.targets_triggers(tier) + indirect.targets_trigger_cover(tier), assumptions=["deps.py: only visit_call_expr's __call__ dependency is under contract; completeness of the dependency map as a whole is not decided"], trusted_base=[])
