from contracts import optframe

def build(tier):
    return dict(targets=optframe.targets(tier), assumptions=[f"exempt {k}: {v}" for k, v in sorted(optframe.EXEMPT.items())], trusted_base=[])
