from contracts import optframe, fresh

def build(tier):
    # the frame (reads of Options within the key) plus the gate: find_cache_meta really rejects a record
    # whose options snapshot differs, validate_meta's ignore_all rule (silenced site packages)
    return dict(targets=optframe.targets(tier) + fresh.targets(tier), assumptions=[f"exempt {k}: {v}" for k, v in sorted(optframe.EXEMPT.items())], trusted_base=[])
