from contracts import store, fresh

def build(tier):
    return dict(targets=store.targets(tier) + fresh.find_targets(), assumptions=[], trusted_base=[])
