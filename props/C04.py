from contracts import store, fresh, stem

def build(tier):
    return dict(targets=store.targets(tier) + fresh.find_targets() + stem.targets(tier), assumptions=[
        "sqlite3: a connection in the default isolation mode keeps INSERT/DELETE pending until commit() (contract of sqlite3.connect)",
        "os.replace is atomic; a kill cannot tear a single os.replace or a single sqlite statement",
        "the i64 annotations of util.hash_path_stem are ignored: the interpreted (unbounded int) semantics is what /venv runs and what is verified"],
        trusted_base=[])
