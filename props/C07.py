from contracts import views_build

def build(tier):
    return dict(targets=views_build.targets(tier), assumptions=[], trusted_base=[])
