from contracts import views_build, coord

def build(tier):
    return dict(targets=views_build.targets(tier) + coord.targets(tier), assumptions=[], trusted_base=[])
