from contracts import ipc_c, serve_c

def build(tier):
    return dict(targets=ipc_c.targets(tier) + serve_c.targets(tier), assumptions=[], trusted_base=[])
