from contracts import ipc_c

def build(tier):
    return dict(targets=ipc_c.targets(tier), assumptions=[], trusted_base=[])
