from contracts import fresh, views_cache, store

def build(tier):
    ts = fresh.targets(tier) + [t for t in views_cache.targets(tier) if "CacheMeta" in t.id]
    # what a record says about its source is what write_cache put there (the stat snapshot taken when the
    # source was read and hashed, the hash of the bytes written): same target as in C04
    ts += store.protocol_targets()
    return dict(targets=ts, assumptions=[], trusted_base=[])
