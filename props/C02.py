from contracts import fresh, views_cache, store, indirect, views_json

def build(tier):
    ts = fresh.targets(tier) + [t for t in views_cache.targets(tier) if "CacheMeta" in t.id]
    # what a record says about its source is what write_cache put there (the stat snapshot taken when the
    # source was read and hashed, the hash of the bytes written): same target as in C04
    ts += store.protocol_targets()
    ts += indirect.targets(tier)  # which modules a type's meaning depends on (indirect dependencies)
    ts += views_json.cache_targets(tier)  # the JSON form of the same validity records
    return dict(targets=ts, assumptions=["indirection.py: only visit_instance (non-protocol part) and the per-class coverage of component types are under contract; the exemptions of the coverage frame are listed in contracts/indirect.py (one of them, Parameters.variables, is an assumption that is not established); the recursion through _visit / seen_types and the callers (build.State.patch_indirect_dependencies) are not under contract"], trusted_base=[])
