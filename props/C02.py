from contracts import fresh, views_cache, views_build

def build(tier):
    ts = fresh.targets(tier) + [t for t in views_cache.targets(tier) if "CacheMeta" in t.id]
    return dict(targets=ts, assumptions=[], trusted_base=[])
