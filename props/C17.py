from contracts import permodule, cfgsources, flagnames

def build(tier):
    return dict(targets=permodule.targets(tier) + cfgsources.targets(tier) + flagnames.targets(tier), assumptions=[
        "build_per_module_cache: only the ORDER in which sections are handed on is decided (source-level order frame); that each section is resolved on top of clone_for_module(key) is read off the code, not proved",
        "the section table (per_module_options) is in file order: configparser / tomllib and config_parser.parse_config_file are not under contract",
        "re.Pattern.match and compile_glob are an uninterpreted matching relation"], trusted_base=[])
