from contracts import permodule

def build(tier):
    return dict(targets=permodule.targets(tier), assumptions=[
        "build_per_module_cache resolves sections in the order wildcards (sorted) then concrete sections, each on top of clone_for_module(key): not under contract",
        "re.Pattern.match and compile_glob are an uninterpreted matching relation"], trusted_base=[])
