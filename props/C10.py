from contracts import globals_c, views_cache, views_types, views_nodes, views_build, detopts, indirect


def build(tier):
    ts = list(globals_c.targets(tier)) + list(detopts.targets(tier)) + indirect.targets_reset(tier)
    # hash-seed clause for cache records: the C11 writers, with the codec engine's order obligation on
    # (a writer that iterates a set in container order fails `codec/deterministic-bytes/set-order`)
    for t in views_cache.targets(tier) + views_types.targets(tier) + views_nodes.targets(tier) + views_build.targets(tier):
        if hasattr(t, "deterministic"):
            t.deterministic = True
            ts.append(t)
    return dict(targets=ts, assumptions=globals_c.assumptions() + [
        "dict iteration order inside writers is taken to be a function of the value (insertion order); that insertion order itself does not depend on the hash seed is not decided"],
        trusted_base=[])
