from contracts import fold

def build(tier):
    return dict(targets=fold.targets(tier), assumptions=[], trusted_base=[])
