from contracts import fold, reach, arity, mro_bounded

def build(tier):
    return dict(targets=fold.targets(tier) + reach.targets(tier) + arity.targets(tier) + mro_bounded.targets(tier), assumptions=["MRO: bounded stand-in only (exhaustive native comparison with CPython for all hierarchies of 6 classes with at most 3 bases each); generic classes, metaclasses and the dummy object base added by linearize_hierarchy are outside it"], trusted_base=[])
