from contracts import fold, reach

def build(tier):
    return dict(targets=fold.targets(tier) + reach.targets(tier), assumptions=[], trusted_base=[])
