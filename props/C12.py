from contracts import fold, reach, arity

def build(tier):
    return dict(targets=fold.targets(tier) + reach.targets(tier) + arity.targets(tier), assumptions=[], trusted_base=[])
