from contracts import errs, exitcode, unused_ign, dedup

def build(tier):
    return dict(targets=errs.targets_c13(tier) + exitcode.targets(tier) + unused_ign.targets(tier) + dedup.targets(tier), assumptions=[], trusted_base=[])
