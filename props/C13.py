from contracts import errs, exitcode

def build(tier):
    return dict(targets=errs.targets_c13(tier) + exitcode.targets(tier), assumptions=[], trusted_base=[])
