from contracts import errs, exitcode, unused_ign

def build(tier):
    return dict(targets=errs.targets_c13(tier) + exitcode.targets(tier) + unused_ign.targets(tier), assumptions=[], trusted_base=[])
