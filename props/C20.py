from contracts import fold, reach, errs, robust


def build(tier):
    # The kernels already under functional contracts carry `raises=()` (and the size bounds of constant
    # folding): their exceptional postconditions are this property's obligations.  The functional
    # postconditions of the reachability targets belong to C12 and are not repeated here.
    rs = reach.targets(tier)
    for t in rs:
        t.ensures = [("terminates-normally", lambda I, env, r: __import__("z3").BoolVal(True))]
    ts = robust.targets(tier) + fold.targets(tier) + rs + errs.targets_c14(tier) + errs.predicate_targets()
    for t in ts:
        t.id = "c20." + t.id
    ts = ts + robust.targets_escapes(tier) + robust.targets_daemon(tier) + robust.targets_blocked(tier) + robust.targets_progress(tier) + robust.targets_deferral(tier) + robust.targets_property(tier)
    return dict(targets=ts, assumptions=["escape frame: call sites are resolved by simple name; only TypeTranslationError is tracked"], trusted_base=[])
