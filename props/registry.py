"""What is claimed, at which level, and what is not (source of MANIFEST.json)."""

ENGINES = [
    {"name": "codec", "path": "pyvc/codec.py", "serves_properties": ["C07", "C11"],
     "kind_free_text": "relational mode of pyvc for writer/reader pairs: abstract token buffers, lock-step rule for collections of unknown length, modular nested objects"},
    {"name": "llvm2smt", "path": "llvm2smt/", "serves_properties": ["C15"],
     "kind_free_text": "clang -O1 -emit-llvm of the real lib-rt sources, parsed and translated path by path to SMT (bit-vector or integer encoding) with UB obligations"},
    {"name": "frames", "path": "frames/", "serves_properties": ["C08", "C09", "C10"],
     "kind_free_text": "reads / effects frame conditions decided by a syntactic scan of the real ASTs (over-approximation of reads)"},
    {"name": "pyvc", "path": "pyvc/", "serves_properties": ["C02", "C03", "C04", "C12", "C13", "C14", "C16", "C18", "C20"],
     "kind_free_text": "verification-condition generator: symbolic execution of the real function ASTs (re-read from /repo each run) against sidecar contracts; obligations discharged by z3 (cvc5 for z3's unknowns)"},
]

NOTES = ("Contract-based deductive verification; see DESIGN.md. Exit codes of ./check: 0 held, 1 violation, "
         "2 undecided (unsupported construct / solver unknown), 3 checker broken (vacuity).")

CLAIMED = {
    "C12": dict(
        engine="pyvc", category="proof", design_ref="DESIGN.md section 5 C12",
        text="Postconditions on the real constant-folding functions (mypy and mypyc) proved for all operands: a folded value equals Python's operator on the operands, None is returned exactly when the operation is undefined/oversize, and no exception escapes.",
        level_note="Trusted: z3/cvc5; the engine's encoding of Python operators (cross-checked against CPython by selftest); float arithmetic, bit operations, pow and shifts are uninterpreted (only the op-string->operator mapping, guards and exceptional behaviour are decided). Not decided: arity mapping, MRO, version checks are separate targets listed in the evidence when present.",
        technique="contract-based deductive verification: VC generation from the real AST, SMT discharge (z3, cvc5)"),
}

CLAIMED["C13"] = dict(
    engine="pyvc", category="proof", design_ref="DESIGN.md section 5 C13",
    text="Contracts on the real suppression kernel of mypy/errors.py proved for all inputs: is_error_code_enabled (documented precedence), is_ignored_error (blockers never; matches iff line ignored and code or parent code listed), add_error_info (shown iff not filtered/suppressed/ignored-file/only-once duplicate; used-ignore bookkeeping only for the first matching line and only for enabled codes; ignore tables untouched; tail only attaches notes), and the exit-status statements of main.main (0 iff every message is a note, 2 iff blockers).",
    level_note="Trusted: z3/cvc5, engine encoding of Python. Callee contracts assumed inside add_error_info: _filter_error (arbitrary bool), has_many_errors, note_for_info/_add_error_info (recorded). count_stats is proved only for lists of <= 2 messages (bounded stand-in, reported separately). Not decided: routing of every checker diagnostic through report with the right span/code; generate_unused_ignore_errors; the link between the ': note:' marker and the severity of a rendered message (see known findings).",
    technique="contract-based deductive verification: VC generation from the real AST with loop invariants and cut points, SMT discharge (z3, cvc5)")
CLAIMED["C14"] = dict(
    engine="pyvc", category="proof", design_ref="DESIGN.md section 5 C14",
    text="Data-structure invariant 'a reported end position is not before the start' proved at every construction site of ErrorInfo in mypy/errors.py (Errors.report for all integer/None arguments, report_simple_error, note_for_info preserves it).",
    level_note="One clause of the property only. Not decided: parser equivalence (native vs default), line exists / column within line (needs the source text). ErrorInfo.read (cache replay) relies on the writer. Trusted: z3, engine encoding.",
    technique="contract-based deductive verification: VC generation from the real AST, SMT discharge (z3)")

CLAIMED["C16"] = dict(
    engine="pyvc", category="proof", design_ref="DESIGN.md section 5 C16",
    text="Framing: IPCBase.frame_from_buffer / read_bytes (loop invariant; recv is an arbitrary chunking of an arbitrary stream) / write_bytes proved against the length-prefix specification for all byte strings and all segmentations, plus the executable lemma decode(encode(m) ++ rest) = (m, rest). Serve loop: exceptional postcondition of Server.serve (an exception leaves it only as SystemExit, idle timeout or a daemon bug inside a command; client faults on receive/send never do) and 'status file removed on every exit path'; dmypy_util.receive raises only OSError; unknown commands get an error response.",
    level_note="Trusted: z3/cvc5, engine encoding, struct.pack/unpack('!L') as big-endian base-256, socket recv/sendall, json.loads, os.unlink (modelled by contracts with ghost origins). Assumed callee contracts inside serve: run_command (returns / daemon bug / SystemExit; cmd_stop removes the status file), IPCServer.__enter__ (accept or idle timeout). Posix branches only (sys.platform of the check host); Windows named pipes, ready_to_read and real socket behaviour are not decided. One arbitrary iteration of the serve loop (invariant: status file present, last command not 'stop').",
    technique="contract-based deductive verification: VC generation from the real AST with loop invariants, exceptional postconditions and ghost origins; SMT discharge (z3, cvc5)")

CLAIMED["C09"] = dict(
    engine="frames", category="proof", design_ref="DESIGN.md section 5 C09",
    text="Frame condition decided on the real source: every Options attribute read through an options-like receiver anywhere in the analysis phase of package mypy is in OPTIONS_AFFECTING_CACHE or in a pinned exemption list (each exemption with its reason, reported as an assumption); every per-module option is in the key; no computed getattr(options, ...) in the analysis phase.",
    level_note="Syntactic over-approximation of reads (receivers recognised by name: options, *.options, opts, ...); a read through another alias would be missed. The phase map (which functions are print-time / cli / daemon shell) and the exemption reasons are assumptions. Not decided here: that find_cache_meta really rejects a record whose snapshot differs (planned with C02), config-file/inline sources of options.",
    technique="contract-based verification: reads-frame (effects) condition checked by computation over the real ASTs")
CLAIMED["C02"] = dict(
    engine="pyvc", category="proof", design_ref="DESIGN.md section 5 C02",
    text="Postconditions on the real freshness kernel of mypy/build.py, proved for every file system (getmtime / stat / hash_digest are uninterpreted functions of the path), every stored record and every options value: find_cache_meta returns a record only if the format and layout version bytes match, the mypy version matches (or skip_version_check), the dependency lists are aligned, the recorded options snapshot equals the current one key by key (platform waived exactly under skip_version_check, obsolete debug_cache ignored), plugin snapshots / plugin data agree and the implementation part (meta_ex) was loaded; validate_meta accepts a record only if the data file's mtime equals the recorded one and the source's size, mtime or content hash still match (bazel / skip_cache_mtime_checks / fine-grained modes exactly as coded), and re-stamps a record only after an equal content hash; no exception other than the stated caller obligations escapes. The CacheMeta / CacheMetaEx records themselves round-trip (codec targets).",
    level_note="Kernel only: State.is_fresh / is_interface_fresh, find_stale_sccs and the transitive dependency comparison in process_stale_scc are not under contract in this round, so 'a dependency's interface hash changed' is not decided here. The file system enters as uninterpreted functions; file loading, CacheMeta.read and options_snapshot enter find_cache_meta through contracts (the first two are themselves verified targets: codec.CacheMeta*). sorted()/set() order facts are forgotten inside find_cache_meta's diagnostic loop (over-approximation).",
    technique="contract-based deductive verification: VC generation from the real AST against postconditions with uninterpreted file-system functions and ghost events; SMT discharge (z3, cvc5)")
CLAIMED["C04"] = dict(
    engine="pyvc", category="proof", design_ref="DESIGN.md section 5 C04",
    text="Protocol clause, proved on the real store and write-path functions with every operating-system primitive and every store write free to fail, and stated over prefixes of the ghost event log so that it holds at every crash point: FilesystemMetadataStore.write never leaves a torn record (the record name is only touched by os.replace from a completely written, closed temporary holding exactly `data`; True means replaced and stamped); build.write_cache hands a meta record to its caller only if the data record it describes is in the store (interface unchanged, or the single data write succeeded), with data_mtime read from the store after that write and the interface hash taken over the bytes written, and writes no meta itself; find_cache_meta ignores an entry whose meta_ex record is missing or unreadable.",
    level_note="Per-process sequences only; the coordinator/worker interleaving of a parallel build is not modelled. os.replace atomicity and sqlite transaction atomicity are trusted.",
    technique="contract-based deductive verification: VC generation from the real AST against postconditions over a ghost event log (crash points = log prefixes), failing primitives by nondeterministic contracts; SMT discharge (z3, cvc5)")
CLAIMED["C03"] = dict(
    engine="pyvc", category="proof", design_ref="DESIGN.md section 5 C03",
    text="Two mechanisms that are functions of local state, proved on the real code for every file system and every stored state: (1) change detection -- one generic iteration of FileSystemWatcher._find_changed reports a path exactly when it appeared, disappeared, or (size or whole-second mtime differ) and (size or content hash differ), refreshes the remembered (mtime, size, hash) whenever the stat differed, and touches no other path; add/remove_watched_paths keep every watched path in the data map; (2) removal of stale diagnostics -- one generic iteration plus the tail of Errors.clear_errors_in_targets keep an error exactly when its target is not being re-checked (order preserved), keep the file blocked only if a kept error is a blocker, release dropped only-once messages, and touch no other file.",
    level_note="The property itself (daemon answers == full check for every edit history) is NOT decided: completeness of server/deps.py, astdiff, astmerge and aststrip is a relation between two whole analyses and is outside any per-function contract. Loops are verified by one generic iteration plus the statements after the loop (the iteration postconditions include the frame); their composition over all elements is the standard loop rule and is argued in DESIGN.md, not machine-checked.",
    technique="contract-based deductive verification: VC generation from the real AST (per-iteration contracts with frames, region contracts); SMT discharge (z3, cvc5)")
CLAIMED["C18"] = dict(
    engine="pyvc", category="proof", design_ref="DESIGN.md section 5 C18",
    text="The path -> module half only, proved on the real mypy/find_sources.py for every file system (isfile / package roots / os.path.split / abspath are arbitrary functions): SourceFinder._crawl_up_helper, crawl_up_dir and crawl_up return (module, base) such that the file's directory is DERIVABLY package P below base -- derivable in the inductive relation 'each step up strips one path component whose name (minus a -stubs suffix) is an identifier and which has an __init__ file or namespace packages are on' -- and module = P for an __init__ file, P.stem otherwise; module_join and strip_py meet their string specifications. Recursive calls enter through the contract being proved (induction).",
    level_note="The module -> path half (modulefinder.FindModuleCache, ~300 lines of search-path probing) is not under contract, so the inverse law itself and the 'directory vs file list vs -p' corollary are NOT decided. Maximality of the base directory (crawling does not stop early) is not part of the proved relation. functools.lru_cache on _crawl_up_helper is treated as transparent.",
    technique="contract-based deductive verification: VC generation from the real AST; the package relation is an uninterpreted predicate constrained only by instances of its two defining rules; recursive calls by contract; SMT discharge (z3, cvc5)")
CLAIMED["C08"] = dict(
    engine="frames", category="proof", design_ref="DESIGN.md section 5 C08",
    text="One clause only ('answers do not depend on what the subtype caches contain') as a frame condition on mypy/subtypes.py: every SubtypeContext flag, proper_subtype and every state.<global> read by SubtypeVisitor is a component of build_subtype_kind's key, and the type_state cache entry points are only called with a kind built by build_subtype_kind.",
    level_note="The lattice laws themselves (reflexivity, transitivity, join/meet bounds, union simplification) are NOT decided: they need the semantics of ~6 kLoC of mutually recursive visitors. subtype_context.options is read but not part of the key (listed assumption).",
    technique="contract-based verification: frame condition checked by computation over the real AST")

CLAIMED["C15"] = dict(
    engine="llvm2smt", category="proof", design_ref="DESIGN.md section 5 C15",
    text="For the C fast paths of every tagged-int operation in CPy.h (Add, Subtract, Multiply, FloorDivide, Remainder, And, Or, Xor, Rshift, Lshift, Negate, Invert, six comparisons, the short/long and overflow predicates) and the fixed-width CPyInt{64,32,16}_Divide/Remainder of int_ops.c: on a fast-path return both operands are short, the result is short and its value equals Python's operator over the mathematical integers (never a wrapped value); otherwise the original operands are delegated to the slow path; fixed-width helpers return Python floor division / modulo and raise ZeroDivisionError / OverflowError exactly when specified; no instruction with undefined behaviour is reachable. Loop-free code over the full 64-bit domains: a complete proof for all 2^128 operand pairs.",
    level_note="What is verified is clang 14's -O1 LLVM IR of the real sources (recompiled on every run), not the C text and not the gcc -O3 binary mypyc ships. Trusted: clang front end / -O1 mid-end, z3, slow paths (CPyTagged_*_ and CPython PyLong). mul/sdiv/srem functions use an integer encoding with explicit wrap-around and truncated-division axioms. Not decided: IR that mypyc generates for ints (lower/int_ops.py, ll_builder fixed_width_int_op, coerce range checks), floats (float_ops.c, libm), u8 wrap-around in generated C, CPyTagged_From*/As* conversions with loops.",
    technique="contract-based deductive verification of C: VC generation from clang's LLVM IR of the real sources, SMT discharge (z3 bit-vectors / integers)")

CLAIMED["C20"] = dict(
    engine="pyvc", category="proof", design_ref="DESIGN.md section 5 C20",
    text="Exceptional postcondition `raises = ()` (no exception escapes, for any input) proved for input-reachable kernels: constant folding in mypy and mypyc (incl. the size bounds that stand for 'no hang'), the reachability / version / platform evaluators, Errors.report / report_simple_error / note_for_info / is_ignored_error / is_error_code_enabled, fastparse.parse_type_string (against the exception contract of the Python parser) and config_parser.split_directive (index safety of both scanning loops).",
    level_note="'For every text file' over the whole pipeline is not decidable with function contracts: only the listed kernels are covered; the checker, semantic analyzer, daemon update path and termination of deferral loops are NOT decided. AssertionError is allowed for Errors.report (caller obligations on parent_error). Resource exhaustion is modelled as an exit when a folded result would exceed 10**7 bits/elements. Trusted: z3/cvc5, engine encoding of Python, the exception contract of ast.parse.",
    technique="contract-based deductive verification: exceptional postconditions generated from the real AST, SMT discharge (z3, cvc5)")

CLAIMED["C11"] = dict(
    engine="codec", category="proof", design_ref="DESIGN.md section 5 C11",
    text="For every class under contract the real read() applied to the token sequence the real write() produces returns an object that agrees with the written one on the pinned view (every slot is in the view or in a pinned transient list), consumes exactly the writer's tokens and accepts them without a failing assert -- for all field values and all collection lengths (lock-step rule, inductive). Classes: CacheMeta, CacheMetaEx, ErrorInfo, 21 Type classes of types.py (all with a write/read pair except TypeType), 10 node classes of nodes.py, write_flags/read_flags for every flag count in use; plus, computed on the source: tag constants pairwise distinct, read_type / read_symbol / read_function_like / read_overload_part send tag(C) to C.read, and the binary and JSON formats mention the same fields per class.",
    level_note="Trusted: the prefix-code law of the librt.internal primitives (C code not verified), z3. Nested serializable objects are modular (object tokens), so cross-reference FIXUP (fixup.py, lookup) is NOT decided. NOT under contract (listed as unverified in the evidence): TypeInfo, MypyFile, SymbolTable, SymbolTableNode, FileRawData, TypeType (re-normalizes on read). The JSON serialize/deserialize pairs are only compared syntactically with the binary pairs (same fields), not executed. Transient slots of nodes.py classes are derived mechanically (mentioned by neither format) and not individually justified; those of types.py are pinned with a reason each. Class invariants used as preconditions are listed per class in contracts/views_*.py.",
    technique="contract-based deductive verification: relational symbolic execution of the real write/read pairs with the lock-step (inductive) rule for collections; SMT discharge (z3)")
CLAIMED["C07"] = dict(
    engine="codec", category="proof", design_ref="DESIGN.md section 5 C07",
    text="What each process does with the messages it exchanges, for all message contents: reader . writer = identity on everything transferred for ErrorInfo, AckMessage, SccRequestMessage, SccResponseMessage, ModuleResult, SourcesDataMessage, SccsDataMessage and for State.write/State.read (every field write() mentions arrives unchanged; erased fields are listed).",
    level_note="Only the message codecs are decided. NOT decided: equality of diagnostics across schedules (concurrency), the scheduler's ready/not-ready invariant, commit-before-reply in the worker, GraphMessage (not attempted). Framing of the messages on the socket is C16. Trusted: librt.internal primitives, z3.",
    technique="contract-based deductive verification: relational symbolic execution of the real write/read pairs (lock-step rule); SMT discharge (z3)")

NOT_APPLICABLE = {
    "C01": "soundness of the whole checker against CPython's dynamic semantics: no per-function contract expresses it (DESIGN.md 5 C01)",
    "C05": "compiler correctness of mypyc end to end: a simulation proof, not a function contract (DESIGN.md 5 C05); the numeric leaf is C15",
    "C17": "behaviour of argparse/configparser/tomllib over the whole flag table plus reflection; only enumeration (another family) applies (DESIGN.md 5 C17)",
    "C19": "validity of emitted stub text is a statement about running mypy/stubtest on the output (DESIGN.md 5 C19)",
    "C06": "not yet built in this round (bounded stand-in planned)",
    "C10": "not yet built in this round",
}
