"""What is claimed, at which level, and what is not (source of MANIFEST.json)."""

ENGINES = [
    {"name": "pyvc", "path": "pyvc/", "serves_properties": ["C12", "C13", "C14", "C16", "C20"],
     "kind_free_text": "verification-condition generator: symbolic execution of the real function ASTs (re-read from /repo each run) against sidecar contracts; obligations discharged by z3 (cvc5 for z3's unknowns)"},
]

NOTES = ("Contract-based deductive verification; see DESIGN.md. Exit codes of ./check: 0 held, 1 violation, "
         "2 undecided (unsupported construct / solver unknown), 3 checker broken (vacuity).")

CLAIMED = {
    "C12": dict(
        engine="pyvc", category="proof", design_ref="DESIGN.md section 5 C12",
        text="Postconditions on the real constant-folding functions (mypy and mypyc) proved for all operands: a folded value equals Python's operator on the operands, None is returned exactly when the operation is undefined/oversize, and no exception escapes.",
        level_note="Trusted: z3/cvc5; the engine's encoding of Python operators (cross-checked against CPython by selftest); float arithmetic, bit operations, pow and shifts are uninterpreted (only the op-string->operator mapping, guards and exceptional behaviour are decided). Not decided: arity mapping, MRO, version checks are separate targets listed in the evidence when present.",
        technique="contract-based deductive verification: VC generation from the real AST, SMT discharge (z3, cvc5)"),
}

NOT_APPLICABLE = {
    "C01": "soundness of the whole checker against CPython's dynamic semantics: no per-function contract expresses it (DESIGN.md 5 C01)",
    "C05": "compiler correctness of mypyc end to end: a simulation proof, not a function contract (DESIGN.md 5 C05); the numeric leaf is C15",
    "C17": "behaviour of argparse/configparser/tomllib over the whole flag table plus reflection; only enumeration (another family) applies (DESIGN.md 5 C17)",
    "C19": "validity of emitted stub text is a statement about running mypy/stubtest on the output (DESIGN.md 5 C19)",
    "C02": "not yet built in this round (planned: freshness-decision kernel + CacheMeta codec)",
    "C03": "not yet built in this round",
    "C04": "not yet built in this round",
    "C06": "not yet built in this round (bounded stand-in planned)",
    "C07": "not yet built in this round",
    "C08": "not yet built in this round",
    "C09": "not yet built in this round",
    "C10": "not yet built in this round",
    "C11": "not yet built in this round",
    "C13": "not yet built in this round",
    "C14": "not yet built in this round",
    "C15": "not yet built in this round",
    "C16": "not yet built in this round",
    "C18": "not yet built in this round",
    "C20": "not yet built in this round",
}
