from contracts import views_cache, views_types

def build(tier):
    return dict(targets=views_cache.targets(tier) + views_types.targets(tier), assumptions=[], trusted_base=[])
