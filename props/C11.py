from contracts import views_cache, views_types, views_nodes, views_static, views_build, detopts, symtab, fixuplinks

def build(tier):
    ts = views_cache.targets(tier) + views_types.targets(tier) + views_nodes.targets(tier) + views_static.targets(tier)
    ts += [t for t in views_build.targets(tier) if t.id == "codec.ErrorInfo"]
    ts += symtab.targets(tier) + symtab.targets_order(tier)
    ts += fixuplinks.targets(tier)  # the transient CallableType.definition is re-linked on every loading path
    ts += detopts.set_order_targets()  # equal values give equal bytes, also for the writers not under a codec contract
    return dict(targets=ts, assumptions=["fixup: the nested accept() calls (TypeFixer, nested nodes) do not assign CallableType.definition of the types handled by visit_func_def / visit_decorator / visit_overloaded_func_def (assumed frame)"], trusted_base=[])
