from contracts import views_cache, views_types, views_nodes, views_static, views_build, detopts, symtab

def build(tier):
    ts = views_cache.targets(tier) + views_types.targets(tier) + views_nodes.targets(tier) + views_static.targets(tier)
    ts += [t for t in views_build.targets(tier) if t.id == "codec.ErrorInfo"]
    ts += symtab.targets(tier)
    ts += detopts.set_order_targets()  # equal values give equal bytes, also for the writers not under a codec contract
    return dict(targets=ts, assumptions=[], trusted_base=[])
