from contracts import views_cache, views_types, views_nodes, views_static, views_build, detopts, symtab, fixuplinks, views_json

def build(tier):
    ts = views_cache.targets(tier) + views_types.targets(tier) + views_nodes.targets(tier) + views_static.targets(tier)
    ts += [t for t in views_build.targets(tier) if t.id == "codec.ErrorInfo"]
    ts += symtab.targets(tier) + symtab.targets_order(tier) + symtab.targets_json(tier)
    ts += views_json.targets(tier)  # the JSON half: serialize / deserialize
    ts += fixuplinks.targets(tier)  # the transient CallableType.definition is re-linked on every loading path
    ts += detopts.set_order_targets()  # equal values give equal bytes, also for the writers not under a codec contract
    return dict(targets=ts, assumptions=["JSON targets: json.dumps / json.loads (orjson) are the identity on JSON values up to tuple -> list; Var: a serialized Var without a type is an inferred one (assumed class invariant, relied on by Var.deserialize through Var.__init__); nodes.get_flags / set_flags are a contract pair (the names whose attribute is true are set to True on the target; the others keep the value the constructor gave them)", "fixup: the nested accept() calls (TypeFixer, nested nodes) do not assign CallableType.definition of the types handled by visit_func_def / visit_decorator / visit_overloaded_func_def (assumed frame)"], trusted_base=[])
