from contracts import views_cache, views_types, views_nodes

def build(tier):
    return dict(targets=views_cache.targets(tier) + views_types.targets(tier) + views_nodes.targets(tier), assumptions=[], trusted_base=[])
