from contracts import errs, parsers_agree, pass1cover, linenos

def build(tier):
    return dict(targets=errs.targets_c14(tier) + parsers_agree.targets(tier) + pass1cover.targets(tier) + linenos.targets(tier), assumptions=[], trusted_base=[])
