from contracts import errs

def build(tier):
    return dict(targets=errs.targets_c14(tier), assumptions=[], trusted_base=[])
