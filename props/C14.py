from contracts import errs, parsers_agree

def build(tier):
    return dict(targets=errs.targets_c14(tier) + parsers_agree.targets(tier), assumptions=[], trusted_base=[])
