from contracts import paths

def build(tier):
    return dict(targets=paths.targets(tier), assumptions=[], trusted_base=[])
