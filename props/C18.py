from contracts import paths, foundtwice

def build(tier):
    return dict(targets=paths.targets(tier) + foundtwice.targets(tier) + foundtwice.targets_find_module(tier), assumptions=[], trusted_base=[])
