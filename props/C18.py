from contracts import paths, foundtwice

def build(tier):
    return dict(targets=paths.targets(tier) + foundtwice.targets(tier), assumptions=[], trusted_base=[])
