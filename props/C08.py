from contracts import subkind

def build(tier):
    return dict(targets=subkind.targets(tier),
                assumptions=["subtype_context.options (extra_checks, strict_concatenate) is read under protocol/callable comparison but is not part of the cache key: assumed equal for all subtype queries of one build (per-module differences are not examined)",
                             "entries are recorded only outside active assumption frames: not decided"],
                trusted_base=[])
