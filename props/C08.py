from contracts import subkind, unionsimp, tdjoin

def build(tier):
    return dict(targets=subkind.targets(tier) + unionsimp.targets(tier) + unionsimp.targets_contract(tier) + unionsimp.targets_lemma(tier) + tdjoin.targets(tier) + tdjoin.targets_split(tier) + tdjoin.targets_overlap(tier) + tdjoin.targets_meet(tier) + tdjoin.targets_mid(tier),
                assumptions=["subtype_context.options (extra_checks, strict_concatenate) is read under protocol/callable comparison but is not part of the cache key: assumed equal for all subtype queries of one build (per-module differences are not examined)",
                             "entries are recorded only outside active assumption frames: not decided",
                             "is_proper_subtype, true_or_false and type equality (__eq__/__hash__ of Instance and LiteralType) are under assumed contracts in the union-simplification target: arbitrary booleans / an equivalent type with wider truthiness; the lattice relation itself (subtypes.py, join.py, meet.py visitors) is not under contract",
                             "union items are taken as already proper (get_proper_type is the identity on them)",
                             "tuple / TypedDict targets: is_equivalent is an uninterpreted reflexive symmetric relation, join_types and _is_subtype arbitrary results; only the index arithmetic and the mutability rule are decided"],
                trusted_base=[])
