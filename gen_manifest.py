#!/usr/bin/env python3
"""Regenerate MANIFEST.json from props/*.py metadata (run by hand after adding a property)."""
import json, importlib, os, sys
sys.path.insert(0, os.path.dirname(os.path.abspath(__file__)))
from props import registry

man = {
    "version": 1,
    "setup_cmd": "./setup.sh",
    "hooks": {
        "guard": "PYTHON_MYPY_VERIF",
        "enable": "no source hooks are needed: contracts are sidecar files under /verif/contracts and the verified text is re-read from /repo on every run; the checks export PYTHON_MYPY_VERIF=1 anyway",
        "baseline_off_cmd": "cd /repo && /venv/bin/python -m pytest -ra -q -p no:cacheprovider --timeout=900 --continue-on-collection-errors",
        "source_commits": [],
        "add_only": True,
    },
    "engines": registry.ENGINES,
    "checks": [],
    "not_applicable": [],
    "notes": registry.NOTES,
}
for pid in sorted(registry.CLAIMED):
    c = registry.CLAIMED[pid]
    man["checks"].append({
        "property_id": pid,
        "quick_cmd": f"./check {pid} --tier quick",
        "thorough_cmd": f"./check {pid} --tier thorough",
        "evidence_file": f"evidence/{pid}.json",
        "replay_cmd_template": f"./check {pid} --replay {{path}}",
        "engine": c["engine"],
        "level_claimed": {"category": c["category"], "text": c["text"], "design_ref": c["design_ref"]},
        "level_note": c["level_note"],
        "technique": c["technique"],
    })
for pid in sorted(registry.NOT_APPLICABLE):
    man["not_applicable"].append({"property_id": pid, "reason": registry.NOT_APPLICABLE[pid]})
json.dump(man, open(os.path.join(os.path.dirname(os.path.abspath(__file__)), "MANIFEST.json"), "w"), indent=1)
print("claimed:", sorted(registry.CLAIMED), "n/a:", sorted(registry.NOT_APPLICABLE))
