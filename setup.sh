#!/bin/bash
# Build the overlay venv (python 3.12 + z3-solver + cvc5 + jsonschema, with /venv's site-packages visible).
# Offline: wheels come from /opt/veriftools/wheels only.  Idempotent.
set -e
cd "$(dirname "$0")"
V=.venv
if [ -x $V/bin/python ] && $V/bin/python -c 'import z3, jsonschema, mypy' 2>/dev/null; then
  exit 0
fi
rm -rf $V
/venv/bin/python -m venv $V
PIP_NO_INDEX=1 $V/bin/pip install -q --no-index --find-links /opt/veriftools/wheels z3-solver cvc5 jsonschema >/dev/null
echo "import site; site.addsitedir('/venv/lib/python3.12/site-packages')" > $V/lib/python3.12/site-packages/_venv.pth
$V/bin/python -c 'import z3, jsonschema, mypy; print("overlay venv ok", z3.get_version_string())'
