"""pyvc.runner -- run the targets and static checks of one property, classify results against the
known-findings file, replay refutations natively, write evidence, print verdict lines.

exit codes: 0 held (known findings printed) / 1 violation / 2 undecided / 3 checker broken
"""
from __future__ import annotations

import concurrent.futures as cf
import hashlib
import importlib
import json
import multiprocessing
import os
import re
import subprocess
import sys
import time
import traceback

VERIF = os.path.dirname(os.path.dirname(os.path.abspath(__file__)))
REPO = os.environ.get("VERIF_REPO", "/repo")
OUT = os.environ.get("VERIF_OUT", VERIF)  # evidence/ and replays/ go here (selftest redirects it)


# ----------------------------------------------------------------------------
# known findings


def load_known(prop):
    path = os.path.join(VERIF, "known_findings.txt")
    out = {}
    if not os.path.exists(path):
        return out
    for line in open(path):
        line = line.strip()
        if not line.startswith("finding:"):
            continue
        m = re.match(r"finding:\s+property=(\S+)\s+key=(.+?)\s+::\s*(.*)$", line)
        if m and m.group(1) == prop:
            out[m.group(2).strip()] = m.group(3)
    return out


def source_line(path, where):
    m = re.search(r"line (\d+)", where or "")
    if not m or not path:
        return ""
    try:
        lines = open(path).read().splitlines()
        return " ".join(lines[int(m.group(1)) - 1].split())
    except Exception:
        return ""


# ----------------------------------------------------------------------------


class StaticCheck:
    """a check decided by computation on the real source (frames, reads, slot coverage...).
    fn() -> list of obligation dicts {name, status, where, detail, key?}"""

    def __init__(self, id, fn, note=""):
        self.id = id
        self.fn = fn
        self.note = note

    def run(self):
        t0 = time.time()
        res = {"target": self.id, "function": "(static)", "status": "undecided", "obligations": [], "unsupported": [], "note": self.note,
               "bounded": getattr(self, "bounded", None)}
        try:
            obs = self.fn()
            for o in obs:
                o.setdefault("kind", "frame")
                o.setdefault("solver", "computation")
                o.setdefault("secs", 0.0)
                o.setdefault("model", None)
                o.setdefault("where", "")
                o.setdefault("path", [])
            res["obligations"] = obs
            if any(o["status"] == "refuted" for o in obs):
                res["status"] = "refuted"
            elif any(o["status"] == "unknown" for o in obs):
                res["status"] = "undecided"
            elif not obs:
                res["status"] = "vacuous"
            else:
                res["status"] = "proved"
        except Exception as e:
            res["unsupported"].append(f"static check crashed: {e!r}")
            res["engine_error"] = traceback.format_exc()
        res["wall_s"] = round(time.time() - t0, 3)
        return res


_TARGETS = None


def _run_one(i):
    t = _TARGETS[i]
    try:
        return t.run()
    except BaseException as e:  # pragma: no cover
        return {"target": t.id, "function": getattr(t, "func", ""), "status": "undecided", "obligations": [],
                "unsupported": [f"crash {e!r}"], "engine_error": traceback.format_exc()}


def _child(i, conn):
    try:
        conn.send(_run_one(i))
    except BaseException as e:  # pragma: no cover
        try:
            conn.send({"target": _TARGETS[i].id, "function": getattr(_TARGETS[i], "func", ""), "status": "undecided",
                       "obligations": [], "unsupported": [f"worker crash {e!r}"]})
        except Exception:
            pass
    finally:
        conn.close()


def run_targets(targets, jobs=None):
    """one forked process per target (killed at its deadline: a solver call that ignores its own
    timeout cannot hang the check), at most `jobs` at a time"""
    global _TARGETS
    _TARGETS = targets
    jobs = jobs or min(16, os.cpu_count() or 4)
    if os.environ.get("PYVC_SERIAL"):
        return [_run_one(i) for i in range(len(targets))]
    ctx = multiprocessing.get_context("fork")
    results = [None] * len(targets)
    pending = list(range(len(targets)))
    running = {}
    while pending or running:
        while pending and len(running) < jobs:
            i = pending.pop(0)
            parent, child = ctx.Pipe(duplex=False)
            p = ctx.Process(target=_child, args=(i, child))
            p.start()
            child.close()
            deadline = time.time() + getattr(targets[i], "timeout", 600) + 60
            running[i] = (p, parent, deadline)
        for i, (p, conn, deadline) in list(running.items()):
            if conn.poll(0.02):
                try:
                    results[i] = conn.recv()
                except EOFError:
                    results[i] = None
                p.join(5)
                if p.is_alive():
                    p.kill()
                del running[i]
            elif not p.is_alive():
                p.join()
                del running[i]
            elif time.time() > deadline:
                p.kill()
                p.join()
                del running[i]
                results[i] = {"target": targets[i].id, "function": getattr(targets[i], "func", ""), "status": "undecided",
                              "obligations": [], "unsupported": [f"killed at hard deadline ({getattr(targets[i], 'timeout', 600) + 60}s)"]}
        time.sleep(0.01)
    for i, r in enumerate(results):
        if r is None:
            results[i] = {"target": targets[i].id, "function": getattr(targets[i], "func", ""), "status": "undecided",
                          "obligations": [], "unsupported": ["worker died without a result"]}
    # a target whose worker crashed (solver-internal exception, killed process) is run once more, alone:
    # such failures are not verdicts about the code and must not make a run undecided by accident
    for i, r in enumerate(results):
        why = " ".join(str(u) for u in r.get("unsupported", []))
        if r.get("status") == "undecided" and (r.get("engine_error") or "worker died" in why or "crash" in why or "engine error" in why):
            r2 = _run_one(i)
            if r2.get("status") != "undecided" or not (r2.get("engine_error")):
                r2.setdefault("notes", []).append("second attempt after a worker crash: " + why[:200])
                results[i] = r2
    return results


def safe(s):
    return re.sub(r"[^A-Za-z0-9_.-]+", "_", s)[:120]


def check_property(prop, targets, *, tier="quick", assumptions=(), trusted_base=(), level="proof", explanation="",
                   not_decided=(), replayers=None, bounded_standins=None, extra_coverage=None, only=None):
    """run everything, write evidence/<prop>.json, print verdict lines, return exit code"""
    t0 = time.time()
    seed = int(os.environ.get("VERIF_SEED", "0") or 0)
    if only:
        targets = [t for t in targets if re.search(only, t.id)]
    results = run_targets(targets)
    known = load_known(prop)
    by_id = {t.id: t for t in targets}
    replay_dir = os.path.join(OUT, "replays", prop)
    os.makedirs(replay_dir, exist_ok=True)
    if not only:
        for fn in os.listdir(replay_dir):
            os.unlink(os.path.join(replay_dir, fn))

    n_obl = n_dis = 0
    n_bounded_obl = n_bounded_dis = 0
    known_hits = []
    violations = []
    undecided = []
    broken = []
    functions = []
    samples = []
    solver_secs = 0.0
    by_solver = {}
    for r in results:
        tgt = by_id[r["target"]]
        solver_secs += r.get("solver_secs", 0.0)
        is_bounded = bool(r.get("bounded")) or bool(r.get("bounded_notes"))
        frec = {
            "target": r["target"],
            "function": r.get("function"),
            "status": r["status"],
            "source_sha256": r.get("source_sha256"),
            "function_ast_sha256": r.get("function_ast_sha256"),
            "paths": r.get("paths"),
            "exits": r.get("exits"),
            "obligations": len(r["obligations"]),
            "loop_mode": ("bounded: " + "; ".join(r.get("bounded_notes") or [r.get("bounded") or ""])) if is_bounded else "unbounded",
            "functions_executed": sorted((r.get("functions_executed") or {}).keys()),
            "solver_secs": r.get("solver_secs"),
            "wall_s": r.get("wall_s"),
            "note": r.get("note", ""),
        }
        functions.append(frec)
        if r["status"] == "vacuous":
            broken.append(f"{r['target']}: vacuous (no reachable exit or no obligation)")
        if r.get("engine_error"):
            frec["engine_error"] = r["engine_error"][-800:]
        for u in r.get("unsupported", []):
            undecided.append(f"{r['target']}: {u}")
        for o in r["obligations"]:
            st = o["status"]
            by_solver[o.get("solver") or "?"] = by_solver.get(o.get("solver") or "?", 0) + 1
            if st == "discharged":
                if is_bounded:
                    n_bounded_obl += 1
                    n_bounded_dis += 1
                else:
                    n_obl += 1
                    n_dis += 1
                if len(samples) < 6 and o.get("solver") not in ("simplifier",):
                    samples.append({"target": r["target"], "obligation": o["name"], "where": o.get("where"), "verdict": "discharged", "solver": o.get("solver")})
                continue
            if st == "unknown":
                undecided.append(f"{r['target']}: obligation {o['name']} undecided by solvers ({o.get('where')})")
                if is_bounded:
                    n_bounded_obl += 1
                else:
                    n_obl += 1
                continue
            # refuted
            sig = o.get("key")
            if sig is None:
                if getattr(tgt, "classify", None):
                    try:
                        sig = tgt.classify(o)
                    except Exception as e:
                        sig = f"classify-error:{e!r}"
                else:
                    sig = source_line(r.get("source_file"), o.get("where")) or (o.get("where") or "")
            key = f"{r['target']}|{o['name']}|{sig}"
            if key in known:
                # a recorded known finding: NOT part of what is claimed proved (reported separately
                # in coverage.known_finding_obligations), so obligations == discharged stays true
                known_hits.append((key, known[key]))
                continue
            if is_bounded:
                n_bounded_obl += 1
            else:
                n_obl += 1
            violations.append((r, o, key))

    # replay refutations natively
    vio_lines = []
    seen_keys = set()
    for r, o, key in violations:
        if key in seen_keys:
            continue
        seen_keys.add(key)
        tgt = by_id[r["target"]]
        rp = {"property": prop, "target": r["target"], "function": r.get("function"), "obligation": o["name"], "key": key,
              "where": o.get("where"), "model": o.get("model"), "solver": o.get("solver"), "detail": o.get("detail"),
              "source_sha256": r.get("source_sha256")}
        confirmed = False
        replay_fn = getattr(tgt, "replay", None)
        if o.get("native_replay") is not None:
            rp["native_replay"] = o["native_replay"]
            confirmed = bool(o["native_replay"].get("confirmed"))
        elif replay_fn is not None and o.get("model") is not None:
            try:
                out = replay_fn(o)
                rp["native_replay"] = out
                confirmed = bool(out.get("confirmed"))
            except Exception as e:
                rp["native_replay"] = {"confirmed": False, "error": repr(e), "trace": traceback.format_exc()[-600:]}
        elif o.get("solver") == "exhaustive-native":
            # bounded native enumeration: the failing inputs are in `detail`, observed on the real code
            confirmed = True
            rp["native_replay"] = {"confirmed": True, "note": "found by running the real function; failing inputs in detail"}
        elif o.get("solver") == "computation":
            # static checks are decided on the real source itself: the witness site is the input
            confirmed = bool(o.get("confirmed", True))
            rp["native_replay"] = {"confirmed": confirmed, "note": "decided by computation on the real source; witness sites in detail"}
        path = os.path.join(replay_dir, safe(key) + ".json")
        if o.get("smt2"):
            # the verifier's query (path condition and negated goal), as given to the solvers
            qpath = os.path.join(replay_dir, safe(key) + ".smt2")
            with open(qpath, "w") as qf:
                qf.write(o["smt2"])
            rp["query"] = qpath
        rp["rerun"] = f"cd /verif && ./check {prop} --replay {path}"
        with open(path, "w") as f:
            json.dump(rp, f, indent=1, default=str)
        line = f"VIOLATION property={prop} replay={path}"
        if not confirmed:
            line += " no-failing-input-found"
        vio_lines.append(line)

    for key, desc in sorted(set(known_hits)):
        print(f"KNOWN-FINDING: property={prop} {key} :: {desc}")
    for u in sorted(set(undecided)):
        print(f"UNDECIDED: property={prop} {u}")
    for b in broken:
        print(f"BROKEN: property={prop} {b}")
    for l in vio_lines:
        print(l)

    wall = time.time() - t0
    cov = {
        "obligations": n_obl,
        "discharged": n_dis,
        "checker_cmd": f"./check {prop} --tier {tier}",
        "trusted_base": list(trusted_base),
        "samples": samples or [{"note": "no solver-discharged obligation in this run"}],
        "functions_under_contract": functions,
        "obligations_by_backend": by_solver,
        "solver_secs": round(solver_secs, 2),
        "known_findings_matched": sorted({k for k, _ in known_hits}),
        "known_finding_obligations": len(known_hits),  # refuted, covered by a recorded known finding: not counted in obligations / discharged
        "bounded_standin_obligations": n_bounded_obl,
        "bounded_standin_discharged": n_bounded_dis,
        "bounded_standins": bounded_standins or [],
        "undecided": sorted(set(undecided)),
        "not_decided_clauses": list(not_decided),
        "explanation": explanation,
        "evaluations": n_obl + n_bounded_obl,
        "distinct_nontrivial": len({(f["target"]) for f in functions if f["obligations"]}) + n_dis,
        "rule": "one evaluation = one proof obligation generated from the current source; distinct = per (target, path, obligation)",
    }
    if extra_coverage:
        cov.update(extra_coverage)
    ev = {
        "property_id": prop,
        "tier": tier,
        "seed": seed,
        "level": level,
        "coverage": cov,
        "assumptions": list(assumptions),
        "wall_s": round(wall, 2),
        "violations": len(vio_lines),
    }
    os.makedirs(os.path.join(OUT, "evidence"), exist_ok=True)
    with open(os.path.join(OUT, "evidence", f"{prop}.json"), "w") as f:
        json.dump(ev, f, indent=1, default=str)
    print(f"SUMMARY property={prop} tier={tier} targets={len(targets)} obligations={n_obl} discharged={n_dis} "
          f"bounded={n_bounded_dis}/{n_bounded_obl} known_findings={len(set(known_hits))} violations={len(vio_lines)} "
          f"undecided={len(set(undecided))} wall={wall:.1f}s")
    if vio_lines:
        return 1
    if broken:
        return 3
    if undecided:
        return 2
    if n_obl == 0 and n_bounded_obl == 0:
        print(f"BROKEN: property={prop} zero obligations generated")
        return 3
    return 0
