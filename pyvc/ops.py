"""pyvc.ops -- operators, comparisons, subscripts, comprehensions."""
from __future__ import annotations

import ast

import z3

from .ctx import Infeasible, Unsupported
from .sym import *  # noqa: F401,F403
from .types import *  # noqa: F401,F403
from .interp import (
    RES_LIMIT,
    ResourceExhausted,
    SIterable,
    SSlice,
    as_int,
    is_zero_const,
    SGen,
)


def to_float(I, v, node):
    """int -> float conversion with its OverflowError exit"""
    if isinstance(v, SFloat):
        return v.t
    i = as_int(v)
    I.check_or_raise(z3.And(i < I2F_LIMIT, i > -I2F_LIMIT), OverflowError, "int too large to convert to float", node)
    f = UF_I2F(i)
    I.ctx.assume(UF_FSIGN(f) == z3.If(i > 0, 1, z3.If(i < 0, -1, 0)))
    return f


def binop(I, op, a, b, node=None):
    c = I.ctx
    a, b = I.unopt(a), I.unopt(b)
    ints = isinstance(a, (SInt, SBool)) and isinstance(b, (SInt, SBool))
    if ints and isinstance(op, (ast.BitOr, ast.BitAnd)) and (isinstance(a, SBitInt) or isinstance(b, SBitInt)):
        ba, bb = as_bits(a), as_bits(b)
        if ba is not None and bb is not None:
            if isinstance(op, ast.BitOr):
                return SBitInt({k: simp(z3.Or(ba.get(k, z3.BoolVal(False)), bb.get(k, z3.BoolVal(False)))) for k in set(ba) | set(bb)})
            return SBitInt({k: simp(z3.And(ba[k], bb[k])) for k in set(ba) & set(bb)})
    if ints and isinstance(op, ast.BitOr):
        # `packed |= 1 << i` starting from a constant: keep the bit view
        ba, bb = as_bits(a), as_bits(b)
        if ba is not None and bb is not None and not (concrete_int(as_int(a)) is not None and concrete_int(as_int(b)) is not None):
            return SBitInt({k: simp(z3.Or(ba.get(k, z3.BoolVal(False)), bb.get(k, z3.BoolVal(False)))) for k in set(ba) | set(bb)})
    if ints:
        x, y = as_int(a), as_int(b)
        if isinstance(op, ast.Add):
            return SInt(x + y)
        if isinstance(op, ast.Sub):
            return SInt(x - y)
        if isinstance(op, ast.Mult):
            return SInt(x * y)
        if isinstance(op, ast.FloorDiv):
            I.check_or_raise(y != 0, ZeroDivisionError, "integer division or modulo by zero", node)
            return SInt(py_floordiv(x, y))
        if isinstance(op, ast.Mod):
            I.check_or_raise(y != 0, ZeroDivisionError, "integer modulo by zero", node)
            return SInt(py_mod(x, y))
        if isinstance(op, ast.Div):
            I.check_or_raise(y != 0, ZeroDivisionError, "division by zero", node)
            absx = z3.If(x >= 0, x, -x)
            absy = z3.If(y >= 0, y, -y)
            I.check_or_raise(absx < I2F_LIMIT * absy, OverflowError, "integer division result too large for a float", node)
            return SFloat(UF_INT_TRUEDIV(x, y))
        if isinstance(op, ast.BitAnd):
            if isinstance(a, SBool) and isinstance(b, SBool):
                return SBool(z3.And(a.t, b.t))
            m = const_mask(x, y)
            if m is not None:
                v, cst = m
                # exact: v & c = sum of 2^k * bit_k(v) over the set bits of c (c >= 0)
                return SInt(z3.Sum([(2 ** k) * ((v / (2 ** k)) % 2) for k in range(cst.bit_length()) if (cst >> k) & 1] + [z3.IntVal(0)]))
            return SInt(UF_BITAND(x, y))
        if isinstance(op, ast.BitOr):
            if isinstance(a, SBool) and isinstance(b, SBool):
                return SBool(z3.Or(a.t, b.t))
            m = const_mask(x, y)
            if m is not None:
                v, cst = m
                # exact: v | c = v + sum of 2^k * (1 - bit_k(v)) over the set bits of c (c >= 0)
                return SInt(v + z3.Sum([(2 ** k) * (1 - ((v / (2 ** k)) % 2)) for k in range(cst.bit_length()) if (cst >> k) & 1] + [z3.IntVal(0)]))
            return SInt(UF_BITOR(x, y))
        if isinstance(op, ast.BitXor):
            if isinstance(a, SBool) and isinstance(b, SBool):
                return SBool(z3.Xor(a.t, b.t))
            return SInt(UF_BITXOR(x, y))
        if isinstance(op, ast.LShift):
            I.check_or_raise(y >= 0, ValueError, "negative shift count", node)
            from .builtins_model import bitlen_term

            bl = bitlen_term(I, x)
            I.check_or_raise(z3.Or(x == 0, bl + y <= RES_LIMIT), ResourceExhausted, "shift result exceeds resource bound", node)
            cx, cy = concrete_int(x), concrete_int(y)
            if cx is not None and cy is not None:
                return SInt(cx << cy)
            return SInt(UF_LSHIFT(x, y))
        if isinstance(op, ast.RShift):
            I.check_or_raise(y >= 0, ValueError, "negative shift count", node)
            cx, cy = concrete_int(x), concrete_int(y)
            if cx is not None and cy is not None:
                return SInt(cx >> cy)
            return SInt(UF_RSHIFT(x, y))
        if isinstance(op, ast.Pow):
            if c.branch(y >= 0):
                from .builtins_model import bitlen_term

                bl = bitlen_term(I, x)
                I.check_or_raise(z3.Or(z3.And(x <= 1, x >= -1), z3.And(y <= RES_LIMIT, bl * y <= RES_LIMIT)), ResourceExhausted, "power result exceeds resource bound", node)
                cx, cy = concrete_int(x), concrete_int(y)
                if cx is not None and cy is not None and cy < 4096:
                    return SInt(cx ** cy)
                return SInt(UF_POW(x, y))
            I.check_or_raise(x != 0, ZeroDivisionError, "0 to a negative power", node)
            return SFloat(c.fresh("ipow_neg", FloatS))
        raise Unsupported(f"int operator {type(op).__name__}")
    fl = isinstance(a, (SInt, SBool, SFloat)) and isinstance(b, (SInt, SBool, SFloat))
    if fl:
        x = to_float(I, a, node)
        y = to_float(I, b, node)
        if isinstance(op, ast.Add):
            return SFloat(UF_FADD(x, y))
        if isinstance(op, ast.Sub):
            return SFloat(UF_FSUB(x, y))
        if isinstance(op, ast.Mult):
            return SFloat(UF_FMUL(x, y))
        if isinstance(op, ast.Div):
            I.check_or_raise(z3.Not(f_is_zero(b, y)), ZeroDivisionError, "float division by zero", node)
            return SFloat(UF_FDIV(x, y))
        if isinstance(op, ast.FloorDiv):
            I.check_or_raise(z3.Not(f_is_zero(b, y)), ZeroDivisionError, "float floor division by zero", node)
            return SFloat(UF_FFLOORDIV(x, y))
        if isinstance(op, ast.Mod):
            I.check_or_raise(z3.Not(f_is_zero(b, y)), ZeroDivisionError, "float modulo", node)
            return SFloat(UF_FMOD(x, y))
        if isinstance(op, ast.Pow):
            # 0.0 ** negative -> ZeroDivisionError; negative ** non-integral -> complex;
            # overflow -> OverflowError
            I.check_or_raise(z3.Not(z3.And(f_is_zero(a, x), f_lt0(b, y))), ZeroDivisionError, "0.0 to a negative power", node)
            if isinstance(b, SFloat) and c.branch(z3.And(f_lt0(a, x), c_fresh_bool(c, "nonintegral_exponent"))):
                return SComplex("fpow")
            I.check_or_raise(z3.Not(UF_FPOW_OVERFLOWS(x, y)), OverflowError, "float power overflow", node)
            return SFloat(UF_FPOW(x, y))
        raise Unsupported(f"float operator {type(op).__name__}")
    if isinstance(a, SComplex) or isinstance(b, SComplex):
        if isinstance(op, (ast.Add, ast.Sub)) and isinstance(a, (SInt, SBool, SFloat, SComplex)) and isinstance(b, (SInt, SBool, SFloat, SComplex)):
            for v in (a, b):
                if isinstance(v, (SInt, SBool)):
                    to_float(I, v, node)
            return SComplex("cplx")
        raise Unsupported("complex arithmetic")
    if isinstance(a, SStr) and isinstance(op, ast.Mod):
        # printf-style formatting: the text is not modelled (log / diagnostic strings)
        return SStr(c.fresh("percent_formatted", StrS))
    if isinstance(a, SStr) and isinstance(b, SStr) and isinstance(op, ast.Add):
        return SStr(z3.Concat(a.t, b.t))
    if isinstance(op, ast.Mult) and (isinstance(a, SStr) and isinstance(b, (SInt, SBool)) or isinstance(b, SStr) and isinstance(a, (SInt, SBool))):
        s, n = (a, b) if isinstance(a, SStr) else (b, a)
        nt = as_int(n)
        I.check_or_raise(z3.Or(nt <= 0, z3.Length(s.t) * nt <= RES_LIMIT), ResourceExhausted, "string repetition exceeds resource bound", node)
        cs, cn = concrete_str(s.t), concrete_int(nt)
        if cs is not None and cn is not None and cn < 4096:
            return SStr(cs * cn)
        return SStr(UF_STRMUL(s.t, nt))
    if isinstance(a, SBytes) and isinstance(b, SBytes) and isinstance(op, ast.Add):
        return SBytes(z3.Concat(a.t, b.t), a.mutable)
    if isinstance(op, ast.Mult) and (isinstance(a, SBytes) and isinstance(b, (SInt, SBool)) or isinstance(b, SBytes) and isinstance(a, (SInt, SBool))):
        s, n = (a, b) if isinstance(a, SBytes) else (b, a)
        nt = as_int(n)
        I.check_or_raise(z3.Or(nt <= 0, z3.Length(s.t) * nt <= RES_LIMIT), ResourceExhausted, "bytes repetition exceeds resource bound", node)
        return SBytes(UF_BYTESMUL(s.t, nt))
    if isinstance(a, STuple) and isinstance(b, STuple) and isinstance(op, ast.Add):
        return STuple(a.items + b.items)
    if isinstance(a, SList) and isinstance(b, SList) and isinstance(op, ast.Add):
        return SList(a.items + b.items)
    if isinstance(op, ast.Add) and isinstance(a, (ZVal, SList)) and isinstance(b, (ZVal, SList)):
        za = a if isinstance(a, ZVal) else b
        if isinstance(za.ty, TSeq):
            return ZVal(za.ty, Cell(z3.Concat(unwrap(za.ty, a), unwrap(za.ty, b))))
    if isinstance(op, ast.BitOr) and isinstance(a, SSet) and isinstance(b, SSet):
        return SSet(a.items + b.items)
    if isinstance(op, ast.BitAnd) and isinstance(a, (SSet, ZVal)) and isinstance(b, (SSet, ZVal)):
        return set_binop(I, "and", a, b)
    if isinstance(op, ast.Sub) and isinstance(a, ZVal) and isinstance(a.ty, TSet) and isinstance(b, SIterable) and b.what == "keys" \
            and isinstance(b.payload, ZVal) and isinstance(b.payload.ty, TMap):
        # set - d.keys(): the elements that are not keys of d
        dom = b.payload.ty.parts()[2][0](b.payload.t)
        x = z3.Const("sub_x", a.ty.elem.sort())
        return ZVal(a.ty, Cell(z3.Lambda([x], z3.And(z3.Select(a.t, x), z3.Not(z3.Select(dom, x))))))
    if isinstance(op, ast.Sub) and isinstance(a, (SSet, ZVal)) and isinstance(b, (SSet, ZVal)):
        return set_binop(I, "sub", a, b)
    if isinstance(op, ast.BitOr) and isinstance(a, (SSet, ZVal)) and isinstance(b, (SSet, ZVal)):
        return set_binop(I, "or", a, b)
    if isinstance(op, ast.Mod) and isinstance(a, SStr):
        raise Unsupported("% string formatting")
    if isinstance(a, SNoneT) or isinstance(b, SNoneT):
        I.raise_exc(TypeError, f"unsupported operand None for {type(op).__name__}", node)
    raise Unsupported(f"operator {type(op).__name__} on {a!r}, {b!r}")


def const_mask(x, y):
    """(variable term, non-negative constant) when one operand of a bitwise op is a small constant"""
    cx, cy = concrete_int(x), concrete_int(y)
    if cy is not None and 0 <= cy < 2 ** 64:
        return x, cy
    if cx is not None and 0 <= cx < 2 ** 64:
        return y, cx
    return None


def set_ty_of(a, b):
    for v in (a, b):
        if isinstance(v, ZVal) and isinstance(v.ty, TSet):
            return v.ty
    raise Unsupported("set operation on two concrete-shape sets")


def set_binop(I, which, a, b):
    if isinstance(a, SSet) and isinstance(b, SSet):
        raise Unsupported("set algebra on concrete-shape sets")
    ty = set_ty_of(a, b)
    x, y = unwrap(ty, a), unwrap(ty, b)
    k = z3.Const("setop_k", ty.elem.sort())
    if which == "and":
        t = z3.Lambda([k], z3.And(z3.Select(x, k), z3.Select(y, k)))
    elif which == "or":
        t = z3.Lambda([k], z3.Or(z3.Select(x, k), z3.Select(y, k)))
    else:
        t = z3.Lambda([k], z3.And(z3.Select(x, k), z3.Not(z3.Select(y, k))))
    return ZVal(ty, Cell(t))


def c_fresh_bool(c, name):
    return c.fresh(name, BoolS)


def f_is_zero(v, t):
    if isinstance(v, SFloat) and v.py is not None:
        return z3.BoolVal(v.py == 0.0)
    if isinstance(v, (SInt, SBool)):
        return as_int(v) == 0
    return UF_FISZERO(t)


def f_lt0(v, t):
    if isinstance(v, SFloat) and v.py is not None:
        return z3.BoolVal(v.py < 0.0)
    if isinstance(v, (SInt, SBool)):
        return as_int(v) < 0
    return UF_FLT0(t)


def f_gt0(v, t):
    if isinstance(v, SFloat) and v.py is not None:
        return z3.BoolVal(v.py > 0.0)
    if isinstance(v, (SInt, SBool)):
        return as_int(v) > 0
    return UF_FGT0(t)


# ----------------------------------------------------------------------------


def compare(I, op, a, b, node=None):
    """z3 Bool"""
    if isinstance(op, ast.Eq):
        return I.eq(a, b)
    if isinstance(op, ast.NotEq):
        return z3.Not(I.eq(a, b))
    if isinstance(op, ast.Is) or isinstance(op, ast.IsNot):
        r = identity(I, a, b)
        return r if isinstance(op, ast.Is) else z3.Not(r)
    if isinstance(op, ast.In):
        return I.contains(b, a)
    if isinstance(op, ast.NotIn):
        return z3.Not(I.contains(b, a))
    return order(I, op, a, b, node)


def identity(I, a, b):
    if isinstance(a, SOpt) and isinstance(b, SNoneT):
        return a.isnone
    if isinstance(b, SOpt) and isinstance(a, SNoneT):
        return b.isnone
    a, b = I.unopt(a), I.unopt(b)
    if isinstance(a, SNoneT) or isinstance(b, SNoneT):
        if isinstance(a, SOpaque) or isinstance(b, SOpaque):
            o = a if isinstance(a, SOpaque) else b
            key = ("isnone", o.name)
            if key not in I.ctx.ghost:
                I.ctx.ghost[key] = I.ctx.fresh(f"isnone({o.name})", BoolS)
            return I.ctx.ghost[key]
        return z3.BoolVal(isinstance(a, SNoneT) and isinstance(b, SNoneT))
    if isinstance(a, SObj) and isinstance(b, SObj):
        if a is b:
            return z3.BoolVal(True)
        return a.addr == b.addr
    if isinstance(a, SBool) and isinstance(b, SBool):
        return a.t == b.t
    if isinstance(a, SFunc) and isinstance(b, SFunc):
        return z3.BoolVal(a.live is b.live)
    if type(a) is not type(b):
        return z3.BoolVal(False)
    if isinstance(a, (SList, SSet, SDict, LList, LDict)):
        return z3.BoolVal(a is b)
    if isinstance(a, ZVal):
        if a.cell is b.cell:
            return z3.BoolVal(True)
    raise Unsupported(f"identity comparison {a!r} is {b!r}")


def order(I, op, a, b, node):
    a, b = I.unopt(a), I.unopt(b)
    def rel(x, y):
        if isinstance(op, ast.Lt):
            return x < y
        if isinstance(op, ast.LtE):
            return x <= y
        if isinstance(op, ast.Gt):
            return x > y
        return x >= y

    if isinstance(a, (SInt, SBool)) and isinstance(b, (SInt, SBool)):
        return rel(as_int(a), as_int(b))
    if isinstance(a, SStr) and isinstance(b, SStr):
        if isinstance(op, ast.Lt):
            return a.t < b.t
        if isinstance(op, ast.LtE):
            return a.t <= b.t
        if isinstance(op, ast.Gt):
            return b.t < a.t
        return b.t <= a.t
    if isinstance(a, SFloat) and is_zero_const(b):
        lt, gt, z = UF_FLT0(a.t), UF_FGT0(a.t), UF_FISZERO(a.t)
        if a.py is not None:
            return z3.BoolVal({ast.Lt: a.py < 0, ast.LtE: a.py <= 0, ast.Gt: a.py > 0, ast.GtE: a.py >= 0}[type(op)])
        return {ast.Lt: lt, ast.LtE: z3.Or(lt, z), ast.Gt: gt, ast.GtE: z3.Or(gt, z)}[type(op)]
    if isinstance(b, SFloat) and is_zero_const(a):
        flip = {ast.Lt: ast.Gt(), ast.LtE: ast.GtE(), ast.Gt: ast.Lt(), ast.GtE: ast.LtE()}[type(op)]
        return order(I, flip, b, a, node)
    if isinstance(a, (STuple, SList)) and isinstance(b, (STuple, SList)) and type(a) is type(b):
        return lex(I, op, a.items, b.items, node)
    if isinstance(a, (STuple, ZVal)) and isinstance(b, (STuple, ZVal)):
        # fixed tuple vs symbolic int sequence: concretise the length
        aa = seq_items(I, a)
        bb = seq_items(I, b)
        return lex(I, op, aa, bb, node)
    if isinstance(op, (ast.LtE, ast.GtE, ast.Lt, ast.Gt)) and isinstance(a, (SSet, ZVal)) and isinstance(b, (SSet, ZVal)):
        x, y = (a, b) if isinstance(op, (ast.LtE, ast.Lt)) else (b, a)
        if isinstance(op, (ast.Lt, ast.Gt)):
            raise Unsupported("strict subset")
        if isinstance(x, SSet):
            return I.subset(x, y)
        if isinstance(x, ZVal) and isinstance(x.ty, TSet):
            k = z3.Const("subset_k", x.ty.elem.sort())
            return z3.ForAll([k], z3.Implies(z3.Select(x.t, k), I.contains(y, wrap(x.ty.elem, k))))
    if isinstance(a, SNoneT) or isinstance(b, SNoneT):
        I.raise_exc(TypeError, "ordering comparison with None", node)
    if isinstance(a, SFloat) and isinstance(b, SFloat) and a.py is not None and b.py is not None:
        return z3.BoolVal({ast.Lt: a.py < b.py, ast.LtE: a.py <= b.py, ast.Gt: a.py > b.py, ast.GtE: a.py >= b.py}[type(op)])
    raise Unsupported(f"ordering {type(op).__name__} on {a!r}, {b!r}")


def seq_items(I, v):
    if isinstance(v, (STuple, SList)):
        return v.items
    if isinstance(v, ZVal) and isinstance(v.ty, TSeq):
        n = I.ctx.concretize(z3.Length(v.t), what="sequence length")
        return [wrap(v.ty.elem, v.t[i]) for i in range(n)]
    raise Unsupported("sequence items")


def lex(I, op, xs, ys, node):
    """lexicographic comparison of two fixed-shape sequences"""
    strict = isinstance(op, (ast.Lt, ast.Gt))
    less = isinstance(op, (ast.Lt, ast.LtE))
    n = min(len(xs), len(ys))
    # result if all compared elements are equal: compare lengths
    if less:
        tail = len(xs) < len(ys) if strict else len(xs) <= len(ys)
    else:
        tail = len(xs) > len(ys) if strict else len(xs) >= len(ys)
    res = z3.BoolVal(tail)
    sop = (ast.Lt() if less else ast.Gt())
    for i in reversed(range(n)):
        e = I.eq(xs[i], ys[i])
        res = z3.If(e, res, order(I, sop, xs[i], ys[i], node))
    return res


# ----------------------------------------------------------------------------


def norm_index(I, idx, length, node):
    """python index normalisation with IndexError exit; returns z3 Int in [0, length)"""
    i = as_int(idx)
    I.check_or_raise(z3.And(i < length, i >= -length), IndexError, "index out of range", node)
    return simp(z3.If(i < 0, i + length, i))


def slice_bounds(I, sl, length):
    """(start, stop) terms clipped as python does, step must be None/1"""
    if not isinstance(sl.step, SNoneT):
        if concrete_int(as_int(sl.step)) != 1:
            raise Unsupported("slice step")

    def clip(v, default):
        # decided with the path condition (forking when undetermined) rather than encoded with
        # nested If terms: keeps sequence terms small enough for the seq solvers
        if isinstance(v, SNoneT):
            return default
        t = as_int(v)
        c = I.ctx
        if c.branch(t < 0):
            t = t + length
            if c.branch(t < 0):
                return z3.IntVal(0)
            return t
        if c.branch(t > length):
            return length
        return t

    lo = clip(sl.lo, z3.IntVal(0))
    hi = clip(sl.hi, length)
    return simp(lo), simp(hi)


def subscript(I, base, k, node=None):
    c = I.ctx
    base, k = I.unopt(base), I.unopt(k)
    if isinstance(k, SSlice):
        k = SSlice(I.unopt(k.lo), I.unopt(k.hi), I.unopt(k.step))
    if isinstance(base, (STuple, SList)):
        n = len(base.items)
        if isinstance(k, SSlice):
            lo, hi = slice_bounds(I, k, z3.IntVal(n))
            lo_c = c.concretize(lo, what="slice bound")
            hi_c = c.concretize(hi, what="slice bound")
            items = base.items[lo_c:hi_c]
            return STuple(items) if isinstance(base, STuple) else SList(items)
        i = norm_index(I, k, z3.IntVal(n), node)
        ci = concrete_int(i)
        if ci is None:
            ci = c.concretize(i, what="index")
        return base.items[ci]
    if isinstance(base, SDict):
        for kk, vv in base.entries:
            e = I.eq(kk, k)
            if is_true(e):
                return vv
        for kk, vv in base.entries:
            if c.branch(I.eq(kk, k)):
                return vv
        if base.default is not None:
            nv = make_default(I, base.default)
            base.entries.append((k, nv))
            return nv
        I.raise_exc(KeyError, "key", node)
    if isinstance(base, SStr):
        n = z3.Length(base.t)
        if isinstance(k, SSlice):
            lo, hi = slice_bounds(I, k, n)
            return SStr(z3.SubString(base.t, lo, z3.If(hi > lo, hi - lo, z3.IntVal(0))))
        i = norm_index(I, k, n, node)
        return SStr(z3.SubString(base.t, i, 1))
    if isinstance(base, SBytes):
        n = z3.Length(base.t)
        if isinstance(k, SSlice):
            lo, hi = slice_bounds(I, k, n)
            return SBytes(z3.Extract(base.t, lo, z3.If(hi > lo, hi - lo, z3.IntVal(0))), base.mutable)
        i = norm_index(I, k, n, node)
        return SInt(base.t[i])
    if isinstance(base, ZVal):
        ty = base.ty
        if isinstance(ty, TSeq):
            n = z3.Length(base.t)
            if isinstance(k, SSlice):
                lo, hi = slice_bounds(I, k, n)
                return ZVal(ty, Cell(z3.Extract(base.t, lo, z3.If(hi > lo, hi - lo, z3.IntVal(0)))))
            i = norm_index(I, k, n, node)
            return wrap_nested(ty.elem, base, lambda t: t[i], None)
        if isinstance(ty, TMap):
            s, mk, accs = ty.parts()
            kt = unwrap(ty.k, k)
            if ty.default:
                # defaultdict: a missing key is inserted with the empty value
                t = base.t
                present = z3.Select(accs[0](t), kt)
                newt = z3.If(present, t, mk(z3.Store(accs[0](t), kt, z3.BoolVal(True)), z3.Store(accs[1](t), kt, default_term(ty.v))))
                base.cell.set(simp(newt))
            else:
                I.check_or_raise(z3.Select(accs[0](base.t), kt), KeyError, "key", node)
            return map_value(ty, base, kt)
        raise Unsupported(f"subscript of {ty}")
    if isinstance(base, LList):
        n = I.llist_len(base)
        if isinstance(k, SSlice):
            raise Unsupported("slice of lazy list")
        i = norm_index(I, k, n, node)
        return I.llist_get_sym(base, i)
    if isinstance(base, LDict):
        ent = I.ldict_entry(base, k)
        if base.default_factory is not None:
            if not c.branch(ent[1]):
                ent[1] = z3.BoolVal(True)
                ent[2] = make_default(I, base.default_factory)
            return I.ldict_value(base, ent)
        I.check_or_raise(ent[1], KeyError, "key", node)
        return I.ldict_value(base, ent)
    if isinstance(base, SObj) and any(hasattr(kk, "__getitem__") for kk in base.cands):
        return I.call_method(base, "__getitem__", [k])
    if isinstance(base, SFunc):
        return base  # generic alias subscription: list[int]
    raise Unsupported(f"subscript of {base!r}")


def map_value(ty, base, kt):
    s, mk, accs = ty.parts()

    def getter(t):
        return z3.Select(accs[1](t), kt)

    def setter(t, nv):
        return mk(accs[0](t), z3.Store(accs[1](t), kt, nv))

    return wrap_nested(ty.v, base, getter, setter)


def wrap_nested(ety, base, getter, setter):
    """wrap an element of a container; nested containers get a lens cell so that mutation
    through the element is visible in the parent"""
    if isinstance(ety, (TSeq, TSet, TMap)) and setter is not None:
        return ZVal(ety, LensCell(base.cell, getter, setter))
    return wrap(ety, getter(base.t))


def make_default(I, factory):
    if factory is list:
        return SList([])
    if factory is set:
        return SSet([])
    if factory is dict:
        return SDict([])
    if factory is int:
        return SInt(0)
    if isinstance(factory, Ty):
        return wrap(factory, default_term(factory)) if factory.pure else I.make(factory, "default")
    if callable(factory):
        try:
            probe = factory()
        except Exception:
            raise Unsupported("defaultdict factory")
        return I.reflect_fresh(probe) if hasattr(I, "reflect_fresh") else I.reflect(probe)
    raise Unsupported("defaultdict factory")


def store_subscript(I, base, k, v, node=None):
    c = I.ctx
    k = I.unopt(k)
    if isinstance(base, ZVal):
        v = I.unopt(v)
    if isinstance(base, SList):
        i = norm_index(I, k, z3.IntVal(len(base.items)), node)
        base.items[c.concretize(i, what="index")] = v
        return
    if isinstance(base, SDict):
        for j, (kk, vv) in enumerate(base.entries):
            e = I.eq(kk, k)
            if is_true(e):
                base.entries[j] = (kk, v)
                return
        for j, (kk, vv) in enumerate(base.entries):
            if c.branch(I.eq(kk, k)):
                base.entries[j] = (kk, v)
                return
        base.entries.append((k, v))
        return
    if isinstance(base, ZVal):
        ty = base.ty
        if isinstance(ty, TMap):
            s, mk, accs = ty.parts()
            kt = unwrap(ty.k, k)
            t = base.t
            base.cell.set(mk(z3.Store(accs[0](t), kt, z3.BoolVal(True)), z3.Store(accs[1](t), kt, unwrap(ty.v, v))))
            return
        if isinstance(ty, TSeq):
            n = z3.Length(base.t)
            i = norm_index(I, k, n, node)
            t = base.t
            base.cell.set(z3.Concat(z3.Extract(t, z3.IntVal(0), i), z3.Unit(unwrap(ty.elem, v)), z3.Extract(t, i + 1, n - i - 1)))
            return
    if isinstance(base, LDict):
        ent = I.ldict_entry(base, k)
        ent[1] = z3.BoolVal(True)
        ent[2] = v
        return
    if isinstance(base, LList):
        i = norm_index(I, k, I.llist_len(base), node)
        from .sym import concrete_int as _ci

        if _ci(simp(i)) is None:
            base.sym_writes.append((simp(i), v))
            return
        if base.sym_writes:
            raise Unsupported("store into a lazy list after a store at a symbolic index")
        ci = c.concretize(i, what="index")
        base.cells[ci] = v
        return
    if isinstance(base, SBytes) and base.mutable:
        raise Unsupported("bytearray item assignment")
    raise Unsupported(f"item assignment on {base!r}")


# ----------------------------------------------------------------------------


def comprehension(I, e, frame, kind):
    from .interp import Frame

    gens = e.generators
    if any(g.is_async for g in gens):
        raise Unsupported("async comprehension")
    sub = Frame(frame.module, frame.name, frame)
    out = []

    def rec(gi):
        if gi == len(gens):
            if kind == "dict":
                out.append((I.eval(e.key, sub), I.eval(e.value, sub)))
            else:
                out.append(I.eval(e.elt, sub))
            return
        g = gens[gi]
        it = I.eval(g.iter, sub if gi else frame)
        items = I.try_iter_concrete(it)
        if items is None:
            return "symbolic", it
        for x in items:
            I.assign(g.target, x, sub)
            ok = True
            for cond in g.ifs:
                if not I.is_truthy(I.eval(cond, sub)):
                    ok = False
                    break
            if ok:
                r = rec(gi + 1)
                if r is not None:
                    return r
        return None

    r = rec(0)
    if r is not None:
        if len(gens) == 1:
            return symbolic_comprehension(I, e, frame, sub, kind, r[1])
        raise Unsupported("nested comprehension over symbolic collection")
    if kind == "list":
        return SList(out)
    if kind == "set":
        return SSet(out)
    if kind == "dict":
        return SDict(out)
    return SIterable("list", out)


def symbolic_comprehension(I, e, frame, sub, kind, it):
    """comprehension over a symbolic collection.

    * unroll mode: unrolled like a loop.
    * otherwise, for pure z3 sequences: the result is a fresh sequence constrained by the
      defining quantified facts (filter: membership; map: pointwise)."""
    c = I.ctx
    g = e.generators[0]
    if I.codec is not None:
        return codec_comprehension(I, e, frame, sub, kind, it)
    if kind == "set" and getattr(I, "accumulate_rules", False):
        from . import accum

        return accum.set_comprehension(I, e, frame, sub)
    if kind in ("list", "gen") and getattr(I, "accumulate_rules", False) and isinstance(it, ZVal) and isinstance(it.ty, (TSet, TMap)):
        # a list built from a SET: the filtered / mapped set in an arbitrary enumeration order
        from . import accum
        from .builtins_model import set_to_seq

        return set_to_seq(I, accum.set_comprehension(I, e, frame, sub), "list")
    if I.unroll is not None and kind in ("list", "gen") and isinstance(it, ZVal) and isinstance(it.ty, TSeq) and isinstance(g.target, ast.Name) \
            and isinstance(e.elt, ast.Name) and e.elt.id == g.target.id and g.ifs:
        # filter over a pure sequence, unrolled WITHOUT forking on the conditions: the result is
        # the concatenation of If(cond_i, [x_i], [])
        length, elem = I.iter_symbolic(it)
        ety = it.ty.elem
        parts = []
        n_iter = 0
        ok = True
        for i in range(I.unroll + 1):
            if not c.branch(length > i):
                break
            if i == I.unroll:
                from .ctx import PathEnd

                c.ex.bounded_notes.add(f"{frame.name}: comprehension at line {e.lineno} unrolled {I.unroll}x")
                raise PathEnd()
            x = elem(z3.IntVal(i))
            I.assign(g.target, x, sub)

            def conds():
                return z3.And([pure_truth(I, cond, sub) for cond in g.ifs])

            good, ct = I.try_nofork(conds)
            if not good:
                ok = False
                break
            parts.append(z3.If(ct, z3.Unit(unwrap(ety, x)), z3.Empty(it.ty.sort())))
        if ok:
            t = z3.Empty(it.ty.sort()) if not parts else parts[0] if len(parts) == 1 else z3.Concat(*parts)
            return ZVal(TSeq(ety), Cell(t))
    if I.unroll is not None:
        length, elem = I.iter_symbolic(it)
        out = []
        for i in range(I.unroll + 1):
            if not c.branch(length > i):
                break
            if i == I.unroll:
                from .ctx import PathEnd

                c.ex.bounded_notes.add(f"{frame.name}: comprehension at line {e.lineno} unrolled {I.unroll}x")
                raise PathEnd()
            I.assign(g.target, elem(z3.IntVal(i)), sub)
            ok = True
            for cond in g.ifs:
                if not I.is_truthy(I.eval(cond, sub)):
                    ok = False
                    break
            if ok:
                if kind == "dict":
                    out.append((I.eval(e.key, sub), I.eval(e.value, sub)))
                else:
                    out.append(I.eval(e.elt, sub))
        if kind == "list":
            return SList(out)
        if kind == "set":
            return SSet(out)
        if kind == "dict":
            return SDict(out)
        return SIterable("list", out)
    if kind in ("list", "gen") and isinstance(it, ZVal) and isinstance(it.ty, TSeq) and isinstance(g.target, ast.Name):
        src = it.t
        ety = it.ty.elem
        is_filter = isinstance(e.elt, ast.Name) and e.elt.id == g.target.id
        if is_filter and getattr(I, "forget_order_facts", False):
            # over-approximation requested by the target: some subsequence-sized sequence
            jw = c.fresh(f"comp_w_{e.lineno}", IntS)
            I.assign(g.target, wrap(ety, src[jw]), sub)
            for cond in g.ifs:
                pure_truth(I, cond, sub)  # the conditions must still be evaluable (pure)
            res = c.fresh(f"comp_{e.lineno}", it.ty.sort())
            c.assume(z3.Length(res) <= z3.Length(src))
            return ZVal(TSeq(ety), Cell(res))
        if is_filter:
            x = z3.Const(f"comp_x_{e.lineno}", ety.sort())
            I.assign(g.target, wrap(ety, x), sub)
            conds = []
            for cond in g.ifs:
                conds.append(pure_truth(I, cond, sub))
            res = c.fresh(f"comp_{e.lineno}", it.ty.sort())
            mem = z3.Contains(res, z3.Unit(x)) == z3.And(z3.Contains(src, z3.Unit(x)), *conds)
            c.assume(z3.ForAll([x], mem))
            c.assume(z3.Length(res) <= z3.Length(src))
            # counting facts of a filter: everything kept <=> all satisfy; nothing kept <=> none does
            jj = z3.Int(f"comp_j_{e.lineno}")
            I.assign(g.target, wrap(ety, src[jj]), sub)
            cj = z3.And([pure_truth(I, cond, sub) for cond in g.ifs] + [z3.BoolVal(True)])
            rng = z3.And(jj >= 0, jj < z3.Length(src))
            c.assume((z3.Length(res) == z3.Length(src)) == z3.ForAll([jj], z3.Implies(rng, cj)))
            c.assume((z3.Length(res) == 0) == z3.ForAll([jj], z3.Implies(rng, z3.Not(cj))))
            return ZVal(TSeq(ety), Cell(res))
        if not g.ifs:
            j = z3.Int(f"comp_j_{e.lineno}")
            I.assign(g.target, wrap(ety, src[j]), sub)
            # the element expression is evaluated for a generic VALID index (j in range)
            okv, val = I.try_nofork(lambda: I.eval(e.elt, sub), guard=z3.And(j >= 0, j < z3.Length(src)))
            if not okv:
                # the element expression can fork or raise: either the source is empty, or it is evaluated
                # (forks and exceptions explored) for an arbitrary valid index
                if c.choose(2, "comprehension-empty?") == 0:
                    c.assume(z3.Length(src) == 0)
                    if not c.is_sat():
                        raise Infeasible()
                    return SList([])
                # non-empty source: j is an arbitrary VALID index; forks / exceptions of the element
                # expression are explored for it (the normal continuation keeps `the element at j was fine`,
                # an over-approximation of `every element was fine`)
                c.assume(z3.And(j >= 0, j < z3.Length(src)))
                if not c.is_sat():
                    raise Infeasible()
                val = I.eval(e.elt, sub)
            rty = ty_of_value(val)
            if not rty.pure:
                raise Unsupported("comprehension element type")
            res = c.fresh(f"comp_{e.lineno}", z3.SeqSort(rty.sort()))
            c.assume(z3.Length(res) == z3.Length(src))
            c.assume(z3.ForAll([j], z3.Implies(z3.And(j >= 0, j < z3.Length(src)), res[j] == unwrap(rty, val))))
            return ZVal(TSeq(rty), Cell(res))
    if kind in ("list", "gen") and isinstance(it, ZVal) and isinstance(it.ty, TSeq) and isinstance(g.target, ast.Name):
        return witness_comprehension(I, e, frame, sub, it)
    raise Unsupported(f"comprehension over symbolic collection at line {e.lineno}")


def witness_comprehension(I, e, frame, sub, it):
    """[f(x) for x in seq if p(x)] with an element expression that reads the heap: the element
    expression is executed once for an ARBITRARY element that passes the filter (so every exception it
    can raise for some element is explored), and the result is an arbitrary sequence of the element
    type whose length is bounded by the source's -- an over-approximation that keeps no pointwise
    facts.  The expression must be effect-free (names, attributes, subscripts, calls of .get)."""
    c = I.ctx
    g = e.generators[0]
    for n in ast.walk(e.elt):
        if isinstance(n, ast.Call) and not (isinstance(n.func, ast.Attribute) and n.func.attr == "get"):
            raise Unsupported(f"comprehension over symbolic collection at line {e.lineno}: element expression calls a function")
        if isinstance(n, (ast.NamedExpr, ast.Await, ast.Yield, ast.YieldFrom)):
            raise Unsupported(f"comprehension at line {e.lineno}: element expression has effects")
    src = it.t
    ety = it.ty.elem
    j = c.fresh(f"comp_w_{e.lineno}", IntS)
    I.assign(g.target, wrap(ety, src[j]), sub)
    cj = z3.And([pure_truth(I, cond, sub) for cond in g.ifs] + [z3.BoolVal(True)])
    rng = z3.And(j >= 0, j < z3.Length(src))
    if c.choose(2, "comprehension-witness") == 0:
        # no element passes the filter (the fact itself is not kept: over-approximation)
        if not g.ifs:
            c.assume(z3.Length(src) == 0)
            if not c.is_sat():
                raise Infeasible()
        return SList([])
    c.assume(z3.And(rng, cj))
    if not c.is_sat():
        raise Infeasible()
    val = I.eval(e.elt, sub)
    rty = ty_of_value(val)
    if not rty.pure:
        raise Unsupported(f"comprehension at line {e.lineno}: impure element type")
    res = c.fresh(f"comp_{e.lineno}", z3.SeqSort(rty.sort()))
    c.assume(z3.And(z3.Length(res) >= 1, z3.Length(res) <= z3.Length(src)))
    if not g.ifs:
        c.assume(z3.Length(res) == z3.Length(src))
    return ZVal(TSeq(rty), Cell(res))


def codec_comprehension(I, e, frame, sub, kind, it):
    """lock-step rule for comprehensions (reader over range(n) at a block; maps over collections)"""
    from .codec import DictItems, SMapped, same_value

    cd = I.codec
    g = e.generators[0]
    if g.ifs:
        raise Unsupported("filtering comprehension in a codec")

    def elt():
        if kind == "dict":
            return STuple([I.eval(e.key, sub), I.eval(e.value, sub)])
        return I.eval(e.elt, sub)

    if isinstance(it, SIterable) and it.what == "range":
        start, stop, step = it.payload

        def body():
            I.assign(g.target, SInt(I.ctx.fresh("comp_ix", IntS)), sub)
            return elt()

        coll, elem, val = cd.reader_block(sub, stop.t - start.t, body, e)
        res = cd.lift(coll, elem, val)
    else:
        coll = cd.as_collection(it, sub)
        k, elem, n = cd.generic_of(coll)
        I.assign(g.target, elem, sub)
        val = elt()
        res = cd.lift(coll, elem, val)
    if kind == "dict":
        if isinstance(res, DictItems) and res.what == "items":
            return res.d
        if isinstance(res, SMapped) and isinstance(res.src, DictItems) and isinstance(res.value, STuple):
            # {k: f(v) for k, v in d.items()} with the same keys: a mapped dict
            return SMappedDict(res.src.d, res.value)
        raise Unsupported("dict comprehension in a codec does not rebuild the source dict")
    if kind == "set":
        from .codec import SetItems

        if isinstance(res, SetItems):
            return res.s
        if isinstance(res, ZVal) and isinstance(res.ty, TSeq):
            x = z3.Const("setc_x", res.ty.elem.sort())
            return ZVal(TSet(res.ty.elem), Cell(z3.Lambda([x], z3.Contains(res.t, z3.Unit(x)))))
        raise Unsupported("set comprehension in a codec does not rebuild the source set")
    return res


class SMappedDict(V):
    kind = "mappeddict"

    def __init__(self, d, kv):
        self.d = d
        self.kv = kv


def pure_truth(I, cond, frame):
    """evaluate a condition that must not fork (used under a quantifier)"""
    before = len(I.ctx.trace)
    saved = I.pure_mode
    I.pure_mode = True
    try:
        v = I.eval(cond, frame)
        t = I.truth(v)
    finally:
        I.pure_mode = saved
    if len(I.ctx.trace) != before:
        raise Unsupported("forking condition under a quantifier")
    return t
