"""pyvc.target -- a verification target: real function + sidecar contract -> obligations."""
from __future__ import annotations

import ast
import hashlib
import importlib
import inspect
import os
import signal
import time
import traceback
import types as pytypes

import z3

from .ctx import Ctx, Explorer, Infeasible, Obligation, PathEnd, Unsupported
from .interp import CutReached, Interp, PyExc, func_node, mod_index, ResourceExhausted, NONE
from .sym import *  # noqa: F401,F403
from .types import *  # noqa: F401,F403


def resolve(spec):
    """'pkg.mod:Qual.name' -> live function"""
    modname, qual = spec.split(":")
    obj = importlib.import_module(modname)
    parent = None
    for part in qual.split("."):
        parent = obj
        obj = inspect.getattr_static(obj, part) if isinstance(obj, type) else getattr(obj, part)
    if isinstance(obj, (staticmethod, classmethod)):
        obj = obj.__func__
    if isinstance(obj, property):
        obj = obj.fget
    if type(obj).__name__ == "_lru_cache_wrapper":
        obj = obj.__wrapped__  # memoisation is transparent for the contract of the wrapped function
    return obj


class Target:
    """
    id        unique name (also the obligation prefix)
    func      'module:qualname' of the real function
    setup     setup(I) -> dict env with at least 'args' (list) and optionally 'kwargs';
              builds symbolic inputs (I.make / I.ctx.assume are the `requires`)
    ensures   list of (name, fn(I, env, result) -> z3 Bool)   [normal return]
    raises    tuple of exception classes allowed to escape
    exc_ensures list of (name, fn(I, env, exc: PyExc) -> z3 Bool)  [exceptional exit]
    """

    def __init__(self, id, func, setup, ensures=(), raises=(), exc_ensures=(), overrides=None, field_types=None,
                 loops=None, unroll=None, classify=None, replay=None, timeout=600, prop=None, note="",
                 max_paths=20000, bounded=None, oblig_timeout_ms=10000, exit_hook=None, cut_at=None, start_at=None, field_invs=None, feas_timeout_ms=3000, forget_order_facts=False, loop_body=None, accumulate_rules=False):
        self.id = id
        self.func = func
        self.setup = setup
        self.ensures = list(ensures)
        self.raises = tuple(raises)
        self.exc_ensures = list(exc_ensures)
        self.overrides = overrides or {}
        self.field_types = field_types or {}
        self.loops = loops or {}
        self.unroll = unroll
        self.classify = classify
        self.replay = replay
        self.timeout = timeout
        self.prop = prop
        self.note = note
        self.max_paths = max_paths
        self.bounded = bounded  # text describing the bound when the target is a bounded stand-in
        self.oblig_timeout_ms = oblig_timeout_ms
        self.exit_hook = exit_hook
        self.cut_at = cut_at
        self.start_at = start_at
        self.field_invs = field_invs or {}
        self.feas_timeout_ms = feas_timeout_ms
        self.forget_order_facts = forget_order_facts
        self.loop_body = loop_body  # (header, contained statement): verify one generic iteration
        self.accumulate_rules = accumulate_rules

    def replay_refuted(self, I, env, obs, outcome):
        """native replay of the first refuted obligation of this path that has a model"""
        if self.replay is not None or os.environ.get("PYVC_NO_NATIVE"):
            return
        done = None
        for ob in obs:
            if ob.status != "refuted":
                continue
            if done is not None:
                ob.native = done
                continue
            if ob.z3model is None:
                continue
            try:
                from .native import replay_path

                done = replay_path(self, I, env, ob.z3model, outcome)
            except Exception as e:
                done = {"confirmed": False, "note": f"replay crashed: {e!r}", "trace": traceback.format_exc()[-500:]}
            ob.native = done

    # ------------------------------------------------------------------
    def run(self):
        t0 = time.time()
        res = {
            "target": self.id,
            "function": self.func,
            "status": "undecided",
            "obligations": [],
            "unsupported": [],
            "bounded": self.bounded,
            "note": self.note,
        }
        try:
            live = resolve(self.func)
            fnode, mod = func_node(live)
            if fnode is None:
                res["unsupported"].append(f"cannot locate source of {self.func}")
                return res
            idx = mod_index(mod)
            res["source_file"] = idx.path
            res["source_sha256"] = idx.sha
            res["function_ast_sha256"] = hashlib.sha256(ast.dump(fnode).encode()).hexdigest()
            res["function_lines"] = [fnode.lineno, fnode.end_lineno]
        except Exception as e:
            res["unsupported"].append(f"resolve failed: {e!r}")
            return res

        exits = {"normal": 0, "exceptional": 0}
        entered = {}
        used_loops = set()

        def run_path(ctx):
            I = Interp(ctx, overrides=self.overrides, field_types=self.field_types, loops=self.loops, unroll=self.unroll, field_invs=self.field_invs)
            I.forget_order_facts = self.forget_order_facts
            I.accumulate_rules = self.accumulate_rules
            I.cut_at = self.cut_at if self.start_at is None else None
            try:
                env = self.setup(I)
                I.list_init = {id(v): list(v.items) for v in (env.get("locals") or {}).values() if isinstance(v, SList)}
                ctx.path_info = {"kinds": {k: v.kind for k, v in env.items() if isinstance(v, V)}}
                if not ctx.is_sat():
                    raise Infeasible()
                args = env.get("args", [])
                kwargs = env.get("kwargs", {})
                try:
                    try:
                        if self.loop_body is not None:
                            result, fr = I.run_loop_body(live, self.loop_body[0], self.loop_body[1], env["locals"])
                            env["__locals"] = fr.locals
                        elif self.start_at is not None:
                            result = I.run_function_from(live, self.start_at, env["locals"], stop_at=self.cut_at)
                        else:
                            result = I.call_function(live, args, kwargs)
                    except CutReached as cr:
                        result = NONE
                        env["__cut"] = True
                        env["__locals"] = cr.frame.locals
                except PyExc as e:
                    if not ctx.is_sat():
                        raise Infeasible()
                    exits["exceptional"] += 1
                    allowed = any(issubclass(e.cls, k) for k in self.raises)
                    name = f"raises/{e.cls.__name__}"
                    n0 = len(ex.obligations)
                    if not allowed:
                        ob_ok = ctx.oblige(name, z3.BoolVal(False), kind="raises", where=f"{e.where}: {e.msg}")
                    for (n, fn) in self.exc_ensures:
                        ctx.oblige(f"exc/{n}", fn(I, env, e), kind="exc-ensures", where=e.where)
                    if self.exit_hook:
                        self.exit_hook(I, env, None, e)
                    self.replay_refuted(I, env, ex.obligations[n0:], ("raise", e))
                    return
                if not ctx.is_sat():
                    raise Infeasible()
                exits["normal"] += 1
                n0 = len(ex.obligations)
                for (n, fn) in self.ensures:
                    goal = fn(I, env, result)
                    if goal is None:
                        continue
                    ctx.oblige(f"ensures/{n}", goal, kind="ensures", where=self.func, bounded=self.bounded)
                if self.exit_hook:
                    self.exit_hook(I, env, result, None)
                self.replay_refuted(I, env, ex.obligations[n0:], ("return", result))
            finally:
                for k, v in I.functions_entered.items():
                    entered[k] = entered.get(k, 0) + v
                used_loops.update(I.used_loops)

        ex = Explorer(run_path, max_paths=self.max_paths, oblig_timeout_ms=self.oblig_timeout_ms, feas_timeout_ms=self.feas_timeout_ms)

        def on_alarm(signum, frame):
            raise TimeoutError()

        old = signal.signal(signal.SIGALRM, on_alarm)
        signal.alarm(int(self.timeout))
        try:
            ex.explore()
        except TimeoutError:
            ex.unsupported.append(f"target timeout {self.timeout}s")
        except Unsupported as e:
            ex.unsupported.append(str(e))
        except Exception as e:
            ex.unsupported.append("engine error: " + "".join(traceback.format_exception_only(type(e), e)).strip() + " @ " + traceback.format_exc().splitlines()[-3].strip())
            res["engine_error"] = traceback.format_exc()
        finally:
            signal.alarm(0)
            signal.signal(signal.SIGALRM, old)

        missing_loops = [k for k in self.loops if k not in used_loops]
        if missing_loops and not ex.unsupported:
            ex.unsupported.append(f"loop invariant keys not matched (loop header changed?): {missing_loops}")

        obs = ex.obligations
        res["obligations"] = [o.to_json() for o in obs]
        res["paths"] = ex.paths
        res["paths_completed"] = ex.paths_completed
        res["infeasible_paths"] = ex.infeasible
        res["exits"] = exits
        res["unsupported"] = sorted(set(ex.unsupported))
        res["bounded_notes"] = sorted(ex.bounded_notes)
        res["functions_executed"] = entered
        res["solver_secs"] = round(ex.solver_secs, 3)
        res["wall_s"] = round(time.time() - t0, 3)
        n_ref = sum(1 for o in obs if o.status == "refuted")
        n_unk = sum(1 for o in obs if o.status == "unknown")
        if n_ref:
            res["status"] = "refuted"
        elif res["unsupported"] or n_unk:
            res["status"] = "undecided"
        elif exits["normal"] + exits["exceptional"] == 0 or not obs:
            res["status"] = "vacuous"
        else:
            res["status"] = "proved"
        return res
