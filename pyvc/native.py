"""pyvc.native -- replay of a solver model against the real code, natively.

From a z3 model of a path, the *pre-state* of every symbolic input is rebuilt as real Python
objects (instances of the real classes via object.__new__ with the materialised fields set),
callee contracts are installed as stubs returning the values the model gives them, and the real
function is called under CPython.  The run is compared with what the symbolic execution of that
path predicts (exception class / result / mutated fields / recorded calls):

* prediction reproduced  -> the counterexample is a real input of the real code ("confirmed")
* prediction not reproduced -> either the model falls outside what nativisation can build
  (abstract floats, opaque values, unmaterialised fields) or the engine's encoding is wrong; the
  caller reports `no-failing-input-found` and the mismatch is kept in the replay file.
"""
from __future__ import annotations

import collections
import importlib
import os
import math
import signal
import traceback

import z3

from .sym import *  # noqa: F401,F403
from .types import *  # noqa: F401,F403
from .interp import NONE, SIterable, SSlice, SGen, instance_fields, PyExc


class CannotNativize(Exception):
    pass


class Nativizer:
    def __init__(self, I, model, pre=True):
        self.I = I
        self.m = model
        self.pre = pre  # build the pre-state (values at lazy creation) or the post-state
        self.memo = {}
        self.pool = {"int": set(), "str": set()}
        self.opaque = 0

    # ---- scalars
    def ev(self, t):
        return self.m.eval(t, model_completion=True)

    def int_of(self, t):
        v = self.ev(t)
        if z3.is_int_value(v):
            n = v.as_long()
            self.pool["int"].add(n)
            return n
        raise CannotNativize(f"int value {v}")

    def bool_of(self, t):
        v = self.ev(t)
        return z3.is_true(v)

    def str_of(self, t):
        v = self.ev(t)
        if z3.is_string_value(v):
            s = v.as_string()
            # z3 escapes non-printables as \\u{..}
            import re

            s = re.sub(r"\\u\{([0-9a-fA-F]+)\}", lambda mm: chr(int(mm.group(1), 16)), s)
            self.pool["str"].add(s)
            return s
        raise CannotNativize(f"string value {v}")

    def float_of(self, v):
        if v.py is not None:
            return v.py
        sg = self.ev(UF_FSIGN(v.t))
        k = sg.as_long() if z3.is_int_value(sg) else 1
        return {-1: -1.5, 0: 0.0, 1: 1.5, 2: math.nan}.get(k, 1.5)

    # ---- values
    def nat(self, v):
        if isinstance(v, SNoneT) or v is None:
            return None
        if isinstance(v, SBool):
            return self.bool_of(v.t)
        if isinstance(v, SInt):
            return self.int_of(v.t)
        if isinstance(v, SStr):
            return self.str_of(v.t)
        if isinstance(v, SFloat):
            return self.float_of(v)
        if isinstance(v, SComplex):
            return 1j
        if isinstance(v, SOpt):
            return None if self.bool_of(v.isnone) else self.nat(v.val)
        if isinstance(v, SBytes):
            t = v.cell[1] if self.pre else v.cell[0]
            b = bytes(min(255, max(0, x)) for x in self.seq_ints(t))
            return bytearray(b) if v.mutable else b
        if isinstance(v, STuple):
            items = [self.nat(x) for x in v.items]
            cls = getattr(v, "cls", None)
            return cls(*items) if cls is not None else tuple(items)
        if isinstance(v, (SFunc,)):
            return v.live
        if isinstance(v, SModule):
            return v.live
        key = id(v)
        if key in self.memo:
            return self.memo[key]
        if isinstance(v, SList):
            out = []
            self.memo[key] = out
            items = v.items
            if self.pre and id(v) in getattr(self.I, "list_init", {}):
                items = self.I.list_init[id(v)]  # the list as the target's setup built it
            out.extend(self.nat(x) for x in items)
            return out
        if isinstance(v, SSet):
            out = set(self.nat(x) for x in v.items)
            out = frozenset(out) if v.frozen else out
            self.memo[key] = out
            return out
        if isinstance(v, SDict):
            out = collections.defaultdict(v.default) if callable(v.default) else {}
            self.memo[key] = out
            for k, x in v.entries:
                out[self.nat(k)] = self.nat(x)
            return out
        if isinstance(v, ZVal):
            t = v.cell.init if (self.pre and hasattr(v.cell, "init")) else v.cell.get()
            out = self.container(v.ty, t)
            self.memo[key] = out
            return out
        if isinstance(v, LList):
            n = self.int_of(v.length)
            if n > 64:
                raise CannotNativize("lazy list too long in model")
            out = []
            self.memo[key] = out
            for i in range(n):
                if i in v.cells:
                    out.append(self.nat(v.cells[i]))
                else:
                    out.append(self.default_of(v.elem_ty))
            if not self.pre:
                out.extend(self.nat(x) for x in v.appended)
            return out
        if isinstance(v, LDict):
            out = collections.defaultdict(v.default_factory) if callable(v.default_factory) else {}
            self.memo[key] = out
            for ent in v.entries:
                present = ent[3] if self.pre else ent[1]
                val = ent[4] if self.pre else ent[2]
                if self.bool_of(present):
                    out[self.nat(ent[0])] = self.nat(val) if val is not None else self.default_of(v.vty)
            return out
        if isinstance(v, SObj):
            if v.live is not None:
                return v.live
            cls = v.cands[0]
            if issubclass(cls, tuple) and hasattr(cls, "_fields"):
                fields = v.init if (self.pre and v.lazy) else v.fields
                try:
                    obj = cls(*[self.nat(fields[n]) if n in fields else self.default_of(self.I.field_type(v, n)) for n in cls._fields])
                except Exception as e:  # noqa: BLE001
                    raise CannotNativize(f"cannot build named tuple {cls.__name__}: {e}")
                self.memo[key] = obj
                return obj
            try:
                obj = object.__new__(cls)
            except TypeError as e:
                raise CannotNativize(f"cannot allocate {cls.__name__}: {e}")
            self.memo[key] = obj
            fields = v.init if (self.pre and v.lazy) else v.fields
            for name, fv in fields.items():
                try:
                    object.__setattr__(obj, name, self.nat(fv))
                except (AttributeError, TypeError):
                    pass
            # unmaterialised instance fields: typed defaults (never read on this path symbolically)
            for name in instance_fields(cls):
                if name in fields:
                    continue
                try:
                    ft = self.I.field_type(v, name)
                except Exception:
                    ft = None
                if ft is None:
                    continue
                try:
                    object.__setattr__(obj, name, self.default_of(ft))
                except (AttributeError, TypeError, CannotNativize):
                    pass
            return obj
        if isinstance(v, SOpaque):
            self.opaque += 1
            return None
        if isinstance(v, SIterable):
            items = v.concrete(self.I)
            if items is None:
                raise CannotNativize("symbolic iterable")
            return [self.nat(x) for x in items]
        raise CannotNativize(f"value {v!r}")

    def seq_ints(self, t):
        n = self.int_of(z3.Length(t))
        if n > 4096:
            raise CannotNativize("sequence too long in model")
        return [self.int_of(t[i]) for i in range(n)]

    def container(self, ty, t):
        if isinstance(ty, TSeq):
            n = self.int_of(z3.Length(t))
            if n > 256:
                raise CannotNativize("sequence too long in model")
            items = [self.nat_term(ty.elem, t[i]) for i in range(n)]
            return items if ty.mutable else tuple(items)
        if isinstance(ty, TSet):
            kind = "str" if isinstance(ty.elem, TStr) else "int" if isinstance(ty.elem, (TInt,)) else None
            out = set()
            if kind is None:
                return out
            self.harvest(t)
            for k in list(self.pool[kind]):
                kt = z3.StringVal(k) if kind == "str" else z3.IntVal(k)
                if self.bool_of(z3.Select(t, kt)):
                    out.add(k)
            if getattr(ty, "keyfield", None):
                out = self.keyed_objects(ty, out)
            return out
        if isinstance(ty, TMap):
            s, mk, accs = ty.parts()
            kind = "str" if isinstance(ty.k, TStr) else "int" if isinstance(ty.k, TInt) else None
            out = collections.defaultdict(self.factory_of(ty.v)) if ty.default else {}
            if kind is None:
                return out
            self.harvest(t)
            dom, val = accs[0](t), accs[1](t)
            for k in sorted(self.pool[kind], key=repr):
                kt = z3.StringVal(k) if kind == "str" else z3.IntVal(k)
                if self.bool_of(z3.Select(dom, kt)):
                    out[k] = self.nat_term(ty.v, z3.Select(val, kt))
            return out
        raise CannotNativize(f"container {ty}")

    def harvest(self, t):
        """add the constants occurring in the model value of t to the key pool"""
        v = self.ev(t)
        work = [v]
        n = 0
        while work and n < 2000:
            x = work.pop()
            n += 1
            if z3.is_int_value(x):
                self.pool["int"].add(x.as_long())
            elif z3.is_string_value(x):
                try:
                    self.pool["str"].add(x.as_string())
                except Exception:
                    pass
            elif z3.is_app(x):
                work.extend(x.children())
            elif z3.is_quantifier(x):
                work.append(x.body())

    def keyed_objects(self, ty, keys):
        """a set of objects identified by a string key (e.g. ErrorCode by .code): use the real registry"""
        import mypy.errorcodes as EC

        out = set()
        for k in keys:
            if k in EC.error_codes:
                out.add(EC.error_codes[k])
            else:
                # an unregistered code: a bare instance (ErrorCode compares and hashes by .code)
                o = object.__new__(EC.ErrorCode)
                o.code, o.description, o.category, o.default_enabled, o.sub_code_of = k, "synthetic", "General", True, None
                out.add(o)
        return out

    def factory_of(self, ty):
        if isinstance(ty, TSeq):
            return list
        if isinstance(ty, TSet):
            return set
        if isinstance(ty, TMap):
            inner = self.factory_of(ty.v) if ty.default else None
            return (lambda: collections.defaultdict(inner)) if ty.default else dict
        if isinstance(ty, TInt):
            return int
        return lambda: None

    def nat_term(self, ty, t):
        if isinstance(ty, TInt):
            return self.int_of(t)
        if isinstance(ty, TBool):
            return self.bool_of(t)
        if isinstance(ty, TStr):
            return self.str_of(t)
        if isinstance(ty, TFloat):
            return 1.5
        if isinstance(ty, TTuple):
            s, mk, accs = ty.parts()
            items = [self.nat_term(it, acc(t)) for it, acc in zip(ty.items, accs)]
            cls = getattr(ty, "cls", None)
            return cls(*items) if cls is not None else tuple(items)
        if isinstance(ty, (TSeq, TSet, TMap)):
            return self.container(ty, t)
        if isinstance(ty, TBytes):
            return bytes(min(255, max(0, x)) for x in self.seq_ints(t))
        raise CannotNativize(f"term of {ty}")

    def default_of(self, ty):
        if isinstance(ty, TInt):
            return 0
        if isinstance(ty, TBool):
            return False
        if isinstance(ty, TStr):
            return ""
        if isinstance(ty, TFloat):
            return 0.0
        if isinstance(ty, (TNone, TOpt, TAny)):
            return None
        if isinstance(ty, TBytes):
            return bytearray() if ty.mutable else b""
        if isinstance(ty, TTuple):
            return tuple(self.default_of(i) for i in ty.items)
        if isinstance(ty, (TSeq, TLList)):
            return [] if getattr(ty, "mutable", True) else ()
        if isinstance(ty, TSet):
            return set()
        if isinstance(ty, (TMap, TLDict)):
            return {}
        if isinstance(ty, TUnion):
            return self.default_of(ty.alts[0])
        if isinstance(ty, TObj):
            try:
                return object.__new__(ty.cls)
            except TypeError:
                return None
        if isinstance(ty, TConst):
            return self.nat(ty.v)
        return None


def deep_match(pred, nat, depth=0):
    """does the native value `nat` equal the predicted native value `pred`?  Objects are compared
    field-wise on the fields the prediction has."""
    if depth > 6:
        return True
    if isinstance(pred, float) and isinstance(nat, float):
        return (math.isnan(pred) and math.isnan(nat)) or pred == nat or True  # floats are abstract in the model
    if pred is nat:
        return True
    if type(pred) is not type(nat) and not (isinstance(pred, (list, tuple)) and isinstance(nat, (list, tuple))) and not (isinstance(pred, dict) and isinstance(nat, dict)):
        if isinstance(pred, (int, str, bool, type(None), bytes)) or isinstance(nat, (int, str, bool, type(None), bytes)):
            return pred == nat
    if isinstance(pred, (int, str, bool, bytes, bytearray, type(None), complex)):
        return pred == nat
    if isinstance(pred, (list, tuple)):
        return isinstance(nat, (list, tuple)) and len(pred) == len(nat) and all(deep_match(a, b, depth + 1) for a, b in zip(pred, nat))
    if isinstance(pred, (set, frozenset)):
        try:
            return pred == nat
        except Exception:
            return False
    if isinstance(pred, dict):
        if not isinstance(nat, dict) or set(pred.keys()) != set(nat.keys()):
            return False
        return all(deep_match(pred[k], nat[k], depth + 1) for k in pred)
    if hasattr(pred, "__dict__") or hasattr(type(pred), "__slots__"):
        if type(pred) is not type(nat):
            return False
        names = list(getattr(pred, "__dict__", {}).keys())
        for klass in type(pred).__mro__:
            names += [s for s in getattr(klass, "__slots__", ()) if isinstance(s, str)]
        for n in set(names):
            if not hasattr(pred, n):
                continue
            if not hasattr(nat, n):
                return False
            if not deep_match(getattr(pred, n), getattr(nat, n), depth + 1):
                return False
        return True
    return pred == nat


def show(x, depth=0):
    """compact printable form of a native value"""
    if depth > 3:
        return "..."
    if isinstance(x, int) and not isinstance(x, bool) and abs(x) > 10 ** 30:
        return f"<int with {len(str(abs(x)))} digits, sign {'-' if x < 0 else '+'}>"
    if isinstance(x, (int, str, bool, float, type(None), bytes, complex)):
        return repr(x)[:200]
    if isinstance(x, (list, tuple, set, frozenset)):
        return type(x).__name__ + "(" + ", ".join(show(i, depth + 1) for i in list(x)[:8]) + ")"
    if isinstance(x, dict):
        return "{" + ", ".join(f"{show(k, depth + 1)}: {show(v, depth + 1)}" for k, v in list(x.items())[:8]) + "}"
    d = {}
    for n in list(getattr(x, "__dict__", {}).keys()):
        d[n] = getattr(x, n)
    for klass in type(x).__mro__:
        for s in getattr(klass, "__slots__", ()):
            if isinstance(s, str) and hasattr(x, s):
                d[s] = getattr(x, s)
    if d:
        return type(x).__name__ + "(" + ", ".join(f"{k}={show(v, depth + 1)}" for k, v in list(d.items())[:10]) + ")"
    return repr(x)[:120]


class PyExcMarker:
    def __init__(self, exc):
        self.exc = exc


def make_native_exc(cls, msg):
    """a real exception instance of class cls (for native stubs of raising contracts)"""
    for args in ((msg,), ("utf-8", b"\xff", 0, 1, msg), ("utf-8", "\udc80", 0, 1, msg), ()):
        try:
            return cls(*args)
        except Exception:
            continue
    return RuntimeError(msg)


def raised_log(I):
    return getattr(I, "override_raises", [])


class Patch:
    """install native stubs for the contract overrides of a target"""

    def __init__(self):
        self.saved = []

    def set(self, owner, name, value):
        had = name in getattr(owner, "__dict__", {})
        old = owner.__dict__.get(name) if had else None
        self.saved.append((owner, name, had, old))
        setattr(owner, name, value)

    def undo(self):
        for owner, name, had, old in reversed(self.saved):
            try:
                if had:
                    setattr(owner, name, old)
                else:
                    delattr(owner, name)
            except Exception:
                pass


def resolve_owner(qn):
    modname, qual = qn.split(":")
    qual = qual.split("@")[0]
    obj = importlib.import_module(modname)
    parts = qual.split(".")
    for p in parts[:-1]:
        obj = getattr(obj, p)
    return obj, parts[-1]


def replay_region(target, I, env, model, outcome, nz, out):
    """region targets (start_at [, cut_at]): the real statements of the region are compiled from the
    real source and executed natively on the model's locals; the locals they assign are compared
    with the prediction"""
    import ast as _ast
    from .interp import func_node, find_stmt, assigned_names_direct
    from .target import resolve

    live = resolve(target.func)
    fnode, mod = func_node(live)
    loop_mode = getattr(target, "loop_body", None) is not None
    if loop_mode:
        from .interp import stmt_matches

        header, contains = target.loop_body
        found = [n for n in _ast.walk(fnode) if isinstance(n, _ast.For) and stmt_matches(n, header)
                 and (contains is None or any(stmt_matches(x, contains) for b in n.body for x in _ast.walk(b) if isinstance(x, _ast.stmt)))]
        if len(found) != 1:
            out["note"] = "loop not found for native replay"
            return out
        # one iteration: the real body inside a one-trip loop so that continue / break keep their meaning
        stmts = [_ast.For(target=_ast.Name(id="__once", ctx=_ast.Store()), iter=_ast.List(elts=[_ast.Constant(value=0)], ctx=_ast.Load()),
                          body=found[0].body, orelse=[])]
    else:
        body = fnode.body
        k = find_stmt(body, target.start_at)
        if k is None:
            blk = body
            while k is None and blk and isinstance(blk[-1], _ast.If):
                nxt = None
                for sub in (blk[-1].body, blk[-1].orelse):
                    kk = find_stmt(sub, target.start_at)
                    if kk is not None:
                        body, k = sub, kk
                        break
                    if sub and isinstance(sub[-1], _ast.If) and nxt is None:
                        nxt = sub
                if k is None:
                    blk = nxt
        if k is None:
            out["note"] = "start point not found for native replay"
            return out
        k2 = find_stmt(body, target.cut_at) if target.cut_at else len(body)
        stmts = body[k:k2]
    if any(isinstance(n, (_ast.Return, _ast.Yield)) for st in stmts for n in _ast.walk(st)):
        out["note"] = "region contains return/yield: not replayed natively"
        return out
    try:
        nlocals = {name: nz.nat(v) for name, v in env["locals"].items()}
    except CannotNativize as e:
        out["note"] = f"cannot build native locals: {e}"
        return out
    out["inputs"] = {"locals": {k_: show(v) for k_, v in nlocals.items() if not isinstance(v, type(_ast))}}
    code = compile(_ast.fix_missing_locations(_ast.Module(body=stmts, type_ignores=[])), f"<region of {target.func}>", "exec")
    g = dict(mod.__dict__)
    patch = Patch()
    queues = {}
    for qn, r in I.override_log:
        queues.setdefault(qn.split("@")[0], []).append(r)
    try:
        for qn in target.overrides:
            base = qn.split("@")[0]
            try:
                owner, name = resolve_owner(base)
            except Exception:
                continue

            def stub(*a, __q=base, **kw):
                q = queues.get(__q, [])
                if not q:
                    return None
                try:
                    return Nativizer(I, model, pre=False).nat(q.pop(0))
                except CannotNativize:
                    return None

            patch.set(owner, name, stub)
        try:
            exec(code, g, nlocals)
            observed = ("return", None)
        except BaseException as e:  # noqa: BLE001
            observed = ("raise", e)
    finally:
        patch.undo()
    if observed[0] == "raise":
        out["observed"] = {"raised": type(observed[1]).__name__, "message": str(observed[1])[:200]}
        out["confirmed"] = outcome[0] == "raise" and isinstance(observed[1], outcome[1].cls)
        return out
    if outcome[0] == "raise":
        out["observed"] = {"completed": True}
        return out
    post = Nativizer(I, model, pre=False)
    post.pool = nz.pool
    names = sorted(assigned_names_direct(stmts))
    pl = env.get("__locals") or {}
    if loop_mode or not names:
        # effects are on objects reachable from the locals: compare every local of the region
        names = sorted(n for n in pl if n in nlocals)
    pred, obs = {}, {}
    ok = True
    for n in names:
        if n in pl and n in nlocals:
            try:
                pv = post.nat(pl[n])
            except CannotNativize:
                continue
            pred[n], obs[n] = show(pv), show(nlocals[n])
            if not deep_match(pv, nlocals[n]):
                ok = False
    out["predicted"] = {"locals": pred}
    out["observed"] = {"locals": obs}
    out["confirmed"] = ok and bool(pred)
    return out


def replay_path(target, I, env, model, outcome):
    """outcome: ('return', V) | ('raise', PyExc) | ('cut', None).  Returns a json-able dict."""
    import sys

    out = {"confirmed": False}
    try:
        nz = Nativizer(I, model, pre=True)
        # first pass only fills the pool of keys occurring anywhere in the inputs (sets / maps over
        # infinite domains are materialised on those keys)
        for k, v in env.items():
            if isinstance(v, V):
                try:
                    nz.nat(v)
                except CannotNativize:
                    pass
        for a in list(env.get("args", [])) + list(env.get("kwargs", {}).values()):
            try:
                nz.nat(a)
            except CannotNativize:
                pass
        nz.memo = {}
        nargs = [nz.nat(a) for a in env.get("args", [])]
        nkwargs = {k: nz.nat(v) for k, v in env.get("kwargs", {}).items()}
        # make sure every object input reachable from env is built (for state comparison)
        for k, v in env.items():
            if isinstance(v, V):
                nz.nat(v)
        out["inputs"] = {"args": [show(a) for a in nargs], "kwargs": {k: show(v) for k, v in nkwargs.items()}}
    except CannotNativize as e:
        out["note"] = f"cannot build native inputs from the model: {e}"
        return out
    except Exception as e:
        out["note"] = f"nativisation failed: {e!r}"
        return out
    if target.start_at is not None or getattr(target, "loop_body", None) is not None:
        return replay_region(target, I, env, model, outcome, nz, out)
    cut_reached = bool(env.get("__cut"))
    # native stubs for the callee contracts, returning what the model says they return
    log = list(I.override_log)
    queues = {}
    for qn, r in log:
        queues.setdefault(qn.split("@")[0], []).append(r)
    calls = []
    patch = Patch()
    from .target import resolve

    live = resolve(target.func)
    try:
        import builtins as _bi
        import sys as _sys
        import types as _types

        scope = _sys.modules.get(live.__module__)
        used = {qn.split("@")[0] for qn, _ in log}
        patched = set()
        seen_real = {}
        resolved = []
        for qn in sorted(target.overrides, key=lambda q: (q.split("@")[0] not in used, q)):
            base = qn.split("@")[0]
            if ":" not in base or base == target.func:
                continue
            try:
                owner, name = resolve_owner(base)
                real = owner.__dict__[name] if isinstance(owner, type) and name in owner.__dict__ else getattr(owner, name)
            except Exception:
                continue
            resolved.append((base, owner, name, real))  # resolve everything BEFORE patching anything
        for base, owner, name, real in resolved:
            if id(real) in seen_real:
                # another key of the contract table names the same callee: share its stub's queue
                queues.setdefault(seen_real[id(real)], []).extend(queues.pop(base, []))
                patched.add(base)
                continue
            seen_real[id(real)] = base

            def stub(*a, __q=base, **kw):
                calls.append(__q)
                q = queues.get(__q, [])
                if not q:
                    if os.environ.get("PYVC_DEBUG"):
                        print("native stub: empty queue for", __q, {k: len(v) for k, v in queues.items()}, file=_sys.stderr)
                    return None
                r = q.pop(0)
                if isinstance(r, PyExcMarker):
                    raise r.exc
                try:
                    return Nativizer(I, model, pre=False).nat(r) if not isinstance(r, SObj) or r.live is None else r.live
                except CannotNativize:
                    return None

            if isinstance(real, property):
                patch.set(owner, name, property(lambda self_, __s=stub: __s(self_)))
                patched.add(base)
                continue
            if isinstance(owner, type):
                patch.set(owner, name, stub)
                patched.add(base)
                continue
            # a module-level function: replace every binding of that very object reachable from the
            # target's module (its own globals and the attributes of the modules it imports)
            hit = False
            if scope is not None:
                for gname, gval in list(scope.__dict__.items()):
                    if gval is real:
                        patch.set(scope, gname, stub)
                        hit = True
                    elif isinstance(gval, _types.ModuleType):
                        for n2, v2 in list(gval.__dict__.items()):
                            if v2 is real:
                                patch.set(gval, n2, stub)
                                hit = True
                if getattr(_bi, getattr(real, "__name__", ""), None) is real:
                    patch.set(scope, real.__name__, stub)
                    hit = True
            if hit:
                patched.add(base)
        # contract calls that raised on this path must raise natively too
        for qn, r in raised_log(I):
            queues.setdefault(qn, [])
        real_ok = set()
        for qn_, ov_ in target.overrides.items():
            if getattr(ov_, "native_real", False):
                real_ok.add(qn_.split("@")[0].split(":")[-1])
        missing = sorted(q for q in used if q not in patched and ":" in q and q.split(":")[-1] not in real_ok)
        if missing:
            out["note"] = f"callee contracts used on this path could not be installed natively: {missing}"
            patch.undo()
            return out

        def on_alarm(signum, frame):
            raise TimeoutError("native replay timeout")

        old = signal.signal(signal.SIGALRM, on_alarm)
        remaining = signal.alarm(20)
        try:
            try:
                res = live(*nargs, **nkwargs)
                observed = ("return", res)
            except BaseException as e:  # noqa: BLE001
                if isinstance(e, (KeyboardInterrupt,)):
                    raise
                observed = ("raise", e)
        finally:
            signal.alarm(0)
            signal.signal(signal.SIGALRM, old)
            if remaining:
                signal.alarm(remaining)
    finally:
        patch.undo()
    if observed[0] == "raise":
        tb = traceback.extract_tb(observed[1].__traceback__)
        out["observed"] = {"raised": type(observed[1]).__name__, "message": str(observed[1])[:200],
                           "at": [f"{os.path.basename(f.filename)}:{f.lineno} {f.line}" for f in tb[-3:]]}
    else:
        out["observed"] = {"returned": show(observed[1])}
    # compare with the prediction of the symbolic path
    try:
        if outcome[0] == "raise":
            pe = outcome[1]
            out["predicted"] = {"raised": pe.cls.__name__}
            ok = observed[0] == "raise" and (isinstance(observed[1], pe.cls) or (pe.cls.__name__ == "ResourceExhausted" and isinstance(observed[1], (MemoryError, OverflowError, TimeoutError))))
            if pe.cls.__name__ == "ResourceExhausted" and observed[0] == "return":
                r = observed[1]
                from .interp import RES_LIMIT

                big = (isinstance(r, int) and r.bit_length() > RES_LIMIT) or (isinstance(r, (str, bytes)) and len(r) > RES_LIMIT)
                ok = big
                out["observed"] = {"returned": "oversize value" if big else show(r)}
            out["confirmed"] = bool(ok)
        else:
            post = Nativizer(I, model, pre=False)
            post.pool = nz.pool
            post.memo = {}
            pred = post.nat(outcome[1]) if outcome[1] is not None else None
            out["predicted"] = {"returned": show(pred)}
            ok = observed[0] == "return" and (cut_reached or deep_match(pred, observed[1]))
            pred_calls = [qn.split("@")[0] for qn, _ in log]
            out["predicted"]["contract_calls"] = pred_calls
            out["observed"]["contract_calls"] = calls[:12]
            if cut_reached:
                # the native run continues past the cut point: only the calls made up to the cut are compared
                out["note"] = "head half of a cut-point proof: the native run is compared on the contract calls made before the cut"
                ok = ok and calls[: len(pred_calls)] == pred_calls
            else:
                ok = ok and calls == pred_calls
            # mutated inputs: compare post-state of every input object
            if ok and not cut_reached:
                for key, nobj in nz.memo.items():
                    pass
                for k, v in env.items():
                    if isinstance(v, SObj) and v.live is None and id(v) in nz.memo:
                        pobj = post.nat(v)
                        if not deep_match(pobj, nz.memo[id(v)]):
                            ok = False
                            out["state_mismatch"] = {"input": k, "predicted": show(pobj), "observed": show(nz.memo[id(v)])}
                            break
            out["confirmed"] = bool(ok)
    except CannotNativize as e:
        out["note"] = f"prediction could not be nativised: {e}"
    except Exception as e:
        out["note"] = f"comparison failed: {e!r}: {traceback.format_exc()[-300:]}"
    if nz.opaque:
        out["note"] = (out.get("note", "") + f" {nz.opaque} opaque input value(s) replaced by None").strip()
    return out
