"""pyvc.codec_target -- a round-trip target for one class: real write() then real read()."""
from __future__ import annotations

import inspect
import types as pytypes

import z3

from .codec import Codec, LayoutMismatch, SBuf, SMapped, DictItems, class_tag, prim_overrides, same_value
from .ctx import Unsupported
from .interp import NONE, PyExc, instance_fields
from .ops import SMappedDict
from .sym import *  # noqa: F401,F403
from .target import Target
from .types import *  # noqa: F401,F403


def all_slots(cls):
    out = []
    for k in cls.__mro__:
        for s in getattr(k, "__slots__", ()) or ():
            if isinstance(s, str) and s not in out:
                out.append(s)
    return out


def view_eq(I, a, b, depth=0):
    """z3 Bool: the reloaded value a presents the same content as the written value b"""
    a, b = I.unopt(a) if isinstance(a, SOpt) and is_concrete_bool(a.isnone) else a, b
    if a is b:
        return z3.BoolVal(True)
    if (isinstance(a, SBool) and isinstance(b, SInt)) or (isinstance(a, SInt) and isinstance(b, SBool)):
        # True and 1 compare equal in Python but are told apart everywhere a value is shown or its type
        # is looked at (Literal[True] vs Literal[1]): a reloaded value must keep its type
        return z3.BoolVal(False)
    if isinstance(a, SMapped) and a.src is b and I.codec is not None:
        # a list rebuilt element by element from the source list: equal iff the rebuilt generic
        # element equals the source's generic element on what the writer transferred
        return view_eq(I, a.value, I.codec.generic_of(b)[1], depth + 1)
    if isinstance(a, SMapped) and isinstance(b, SMapped) and a.src is b.src:
        # two element-wise images of the same source list: equal iff the images of the generic element are
        return view_eq(I, a.value, b.value, depth + 1)
    if isinstance(a, SMapped) or isinstance(b, SMapped):
        return z3.BoolVal(False)
    if isinstance(a, (SList, STuple)) and isinstance(b, LList):
        a, b = b, a
    if isinstance(a, LList) and isinstance(b, (SList, STuple)):
        n = I.llist_len(a)
        if concrete_int(n) is not None and concrete_int(n) == len(b.items):
            return z3.And([view_eq(I, I.llist_get(a, i), x, depth + 1) for i, x in enumerate(b.items)] + [z3.BoolVal(True)])
        if not b.items:
            return n == 0
        return z3.BoolVal(False)
    if isinstance(a, (SList, STuple)) and isinstance(b, (SList, STuple)):
        if len(a.items) != len(b.items):
            return z3.BoolVal(False)
        return z3.And([view_eq(I, x, y, depth + 1) for x, y in zip(a.items, b.items)] + [z3.BoolVal(True)])
    if isinstance(a, (SList, STuple)) and isinstance(b, ZVal) and isinstance(b.ty, TSeq):
        try:
            return b.t == unwrap(b.ty, a)
        except Unsupported:
            return z3.BoolVal(False)
    if isinstance(b, (SList, STuple)) and isinstance(a, ZVal) and isinstance(a.ty, TSeq):
        return view_eq(I, b, a, depth)
    if isinstance(a, SDict) and isinstance(b, SDict) and not a.entries and not b.entries:
        return z3.BoolVal(True)
    if isinstance(a, SDict) and not a.entries and (isinstance(b, LDict) or (isinstance(b, ZVal) and isinstance(b.ty, TMap))):
        return I.codec.generic_of(I.codec.dict_items(b, "items"))[2] == 0
    if isinstance(a, SSet) and isinstance(b, SSet) and not a.items and not b.items:
        return z3.BoolVal(True)
    if isinstance(a, SObj) and isinstance(b, SObj):
        if a.live is not None or b.live is not None:
            return z3.BoolVal(a.live is b.live and a.live is not None)
        from .interp import has_repo_dunder

        if len(a.cands) == 1 and len(b.cands) == 1 and a.cands[0] is b.cands[0] and depth < 3:
            if has_repo_dunder(a.cands[0], "__eq__") and not hasattr(a.cands[0], "write"):
                try:
                    return I.eq(a, b)
                except Unsupported:
                    pass
            if not hasattr(a.cands[0], "write"):
                # a plain record class: structural comparison on the fields the written object
                # exposes (for a lazily initialised source element: exactly what the writer read)
                names = sorted(set(b.fields)) if b.lazy else sorted(set(a.fields) | set(b.fields))
                parts = []
                for n in names:
                    try:
                        parts.append(view_eq(I, I.getattr(a, n), I.getattr(b, n), depth + 1))
                    except PyExc:
                        parts.append(z3.BoolVal(False))
                return z3.And(parts + [z3.BoolVal(True)])
        return z3.BoolVal(False)
    try:
        return I.eq(a, b)
    except Unsupported as e:
        return z3.BoolVal(False)


def is_concrete_bool(t):
    s = simp(t)
    return z3.is_true(s) or z3.is_false(s)


def through_json(I, v, problems, depth=0):
    """the value json.loads(json.dumps(v)) gives back, on the engine's values"""
    from .codec import SJsonTok

    if isinstance(v, STuple):
        return SList([through_json(I, x, problems, depth + 1) for x in v.items])
    if isinstance(v, SList):
        return SList([through_json(I, x, problems, depth + 1) for x in v.items])
    if isinstance(v, SDict):
        out = []
        for k, x in v.entries:
            if not isinstance(k, SStr):
                problems.append(f"JSON object key of kind {k.kind}")
            out.append((k, through_json(I, x, problems, depth + 1)))
        d = SDict(out)
        return d
    if isinstance(v, SSet) or (isinstance(v, ZVal) and isinstance(v.ty, TSet)):
        problems.append("a set is not JSON-encodable")
        return v
    if isinstance(v, SObj):
        problems.append(f"an object ({v.name}) is not JSON-encodable")
        return v
    return v


class CodecTarget(Target):
    """round trip of cls.write / cls.read on the pinned view

    view        {reader attribute: fn(I, self) -> written value}; default: same attribute of self
    transient   {slot: reason} slots deliberately not serialized
    read_skips_tag   read() does not consume the class tag (the repo's convention)
    """

    def __init__(self, id, cls, *, view=None, transient=None, read_skips_tag=True, field_types=None, nested_readers=(), extra_overrides=None,
                 read_args=None, requires=None, note="", deterministic=False, field_invs=None, writer="write", reader="read", timeout=600,
                 construct=False, after_construct=None, init_types=None, write_args=None, ordered_dicts=None, json=False):
        self.cls = cls
        self.view = view or {}
        self.transient = transient or {}
        self.read_skips_tag = read_skips_tag
        self.nested_readers = nested_readers
        self.read_args = read_args
        self.requires = requires
        self.deterministic = deterministic
        self.writer_name, self.reader_name = writer, reader
        self.construct = construct
        self.after_construct = after_construct
        self.init_types = init_types or {}
        self.write_args = write_args  # fn(I, env) -> extra positional arguments of the writer
        self.ordered_dicts = ordered_dicts or {}  # field -> why the insertion order of that dict is observable
        self.json = json  # serialize() / deserialize() round trip through a JSON value instead of a byte buffer
        ov = prim_overrides()
        if json:
            from .codec import json_flag_overrides

            ov.update(json_flag_overrides())
        ov.update(extra_overrides or {})
        super().__init__(id, f"{cls.__module__}:{cls.__qualname__}.{writer}", self.setup_rt, ensures=[("dummy", lambda I, env, r: None)], raises=(),
                         overrides=ov, field_types=field_types, note=note, field_invs=field_invs, timeout=timeout)
        self.exit_hook = None

    def setup_rt(self, I):
        raise NotImplementedError

    # the standard Target.run drives `setup -> call -> ensures`; a round trip needs two calls, so the
    # path function is replaced
    def run(self):
        from . import target as T

        cls = self.cls
        outer = self

        def setup(I):
            I.codec = Codec(I, nested_readers=outer.nested_readers)
            if outer.construct:
                self_obj = outer.build_by_constructor(I)
            else:
                self_obj = I.make(TObj(cls), "self")
                self_obj.cands = [cls]
            I.codec.root = self_obj
            I.codec.json = outer.json
            buf = SBuf()
            env = {"args": [self_obj] if outer.json else [self_obj, buf], "self": self_obj, "buf": buf}
            if outer.write_args:
                env["args"] = env["args"] + list(outer.write_args(I, env))
            if outer.requires:
                outer.requires(I, env)
            return env

        def ens_roundtrip(I, env, res):
            return None

        self.setup = setup
        self.ensures = []
        self.exit_hook = self.after_write
        self.raises = ()
        return Target.run(self)

    def replay_refuted(self, I, env, obs, outcome):
        """native replay: the model's object is written with the real WriteBuffer, read back with the
        real ReadBuffer, and the slot named by the refuted obligation is compared natively"""
        done = None
        for ob in obs:
            if ob.status != "refuted":
                continue
            if done is None:
                done = self.native_roundtrip(I, env, ob)
            ob.native = done if ob.name in (done.get("for") or [ob.name]) else self.native_roundtrip(I, env, ob)

    def native_roundtrip(self, I, env, ob):
        from .native import CannotNativize, Nativizer, show

        out = {"confirmed": False, "for": [ob.name]}
        if ob.z3model is None:
            out["note"] = "no solver model"
            return out
        try:
            nz = Nativizer(I, ob.z3model, pre=True)
            nz.nat(env["self"])
            nz.memo = {}
            obj = nz.nat(env["self"])
        except CannotNativize as e:
            out["note"] = f"cannot build the native object: {e}"
            return out
        except Exception as e:
            out["note"] = f"nativisation failed: {e!r}"
            return out
        out["inputs"] = {"self": show(obj)}
        try:
            import mypy.types  # noqa: F401  (nodes.write refers to mypy.types lazily)
            from mypy.cache import ReadBuffer, WriteBuffer, read_tag

            if self.json:
                from mypy.util import json_dumps, json_loads

                try:
                    text = json_dumps(getattr(obj, self.writer_name)())
                except BaseException as e:  # noqa: BLE001
                    out["note"] = f"the native object could not be serialized (incomplete nested objects): {type(e).__name__}: {str(e)[:120]}"
                    return out
                extra = [nz.nat(a) for a in self.read_args(I, env)] if self.read_args else []
                R = getattr(self.cls, self.reader_name)(json_loads(text), *extra)
                return self.native_compare(obj, R, ob, out)
            buf = WriteBuffer()
            try:
                getattr(obj, self.writer_name)(buf)
            except BaseException as e:  # noqa: BLE001
                out["note"] = f"the native object could not be written (incomplete nested objects): {type(e).__name__}: {str(e)[:120]}"
                return out
            rb = ReadBuffer(buf.getvalue())
            if self.read_skips_tag:
                read_tag(rb)
            extra = []
            if self.read_args:
                extra = [nz.nat(a) for a in self.read_args(I, env)]
            R = getattr(self.cls, self.reader_name)(rb, *extra)
        except BaseException as e:  # noqa: BLE001
            out["observed"] = {"raised": type(e).__name__, "message": str(e)[:200]}
            out["confirmed"] = ob.name.startswith("codec/reader-accepts-writer-output") or ob.name.startswith("raises/")
            return out
        return self.native_compare(obj, R, ob, out)

    def native_compare(self, obj, R, ob, out):
        from .native import show

        if ob.name.startswith("codec/view/"):
            slot = ob.name.split("/")[-1]
            getter = self.view.get(slot)
            try:
                want = getattr(obj, slot) if getter is None else None
                got = getattr(R, slot)
            except AttributeError as e:
                out["observed"] = {"missing": str(e)}
                out["confirmed"] = True
                return out
            if getter is None:
                out["observed"] = {"written": show(want), "reloaded": show(got)}
                try:
                    out["confirmed"] = bool(want != got)
                except Exception:
                    out["confirmed"] = False
            else:
                out["note"] = "view slot with a computed writer side: not compared natively"
        else:
            out["observed"] = {"reloaded": show(R)}
        return out

    def build_by_constructor(self, I):
        """the object under proof is what the real __init__ builds from arbitrary arguments (so that the
        class invariants the constructor establishes hold); invalid argument combinations (a failing
        assert in __init__) are excluded"""
        import ast as _ast

        from .ctx import Infeasible
        from .interp import func_node

        cls = self.cls
        init = inspect.getattr_static(cls, "__init__")
        if not isinstance(init, pytypes.FunctionType):
            return I.new_object(cls)  # no constructor of its own
        fnode, mod = func_node(init)
        if fnode is None:
            raise Unsupported(f"{cls.__name__}.__init__ is not repo source")
        a = fnode.args
        args, kwargs = [], {}
        params = (a.posonlyargs + a.args)[1:]
        for p in params + a.kwonlyargs:
            key = (cls.__name__, p.arg)
            if key in self.init_types:
                ty = self.init_types[key]
            elif p.annotation is not None:
                ty = ty_from_ann(p.annotation, mod.__dict__)
            else:
                raise Unsupported(f"no annotation for {cls.__name__}.__init__({p.arg})")
            v = I.make(ty, f"init.{p.arg}")
            if p in a.kwonlyargs:
                kwargs[p.arg] = v
            else:
                args.append(v)
        try:
            obj = I.instantiate(cls, args, kwargs)
        except PyExc as e:
            raise Infeasible()
        if self.after_construct:
            self.after_construct(I, obj)
        return obj

    def after_write(self, I, env, result, exc):
        """called at every exit of write(): run read() on the tokens and state the view obligations"""
        ctx = I.ctx
        if exc is not None:
            return
        cls = self.cls
        buf = env["buf"]
        toks = list(buf.tokens)
        where = f"{cls.__name__}.write -> {cls.__name__}.read"
        # order of dict-valued fields whose insertion order is observable
        for kind, what in I.codec.order_events:
            if kind != "sorted-keys":
                continue
            self_obj = env.get("self")
            names = [f for f, v in getattr(self_obj, "fields", {}).items() if v is what or (isinstance(v, ZVal) and isinstance(what, ZVal) and v.cell is what.cell)]
            for f in names:
                if f in self.ordered_dicts:
                    ctx.oblige(f"codec/dict-order-preserved/{f}", z3.BoolVal(False), kind="codec",
                               where=f"{cls.__name__}.write emits the entries of `{f}` in sorted key order, {cls.__name__}.read rebuilds the dict in that order: {self.ordered_dicts[f]}")
        # determinism of the written bytes
        if self.deterministic:
            for kind, what in I.codec.order_events:
                if kind == "sorted-keys":
                    continue
                if kind == "dict-order" and self.deterministic != "strict":
                    continue  # dicts iterate in insertion order: a function of how the value was built
                ctx.oblige(f"codec/deterministic-bytes/{kind}", z3.BoolVal(False), kind="codec", where=f"writer iterates {what} in container order")
        if self.json:
            return self.after_serialize(I, env, result, where)
        if self.read_skips_tag:
            if not toks or toks[0][0] != "tag":
                ctx.oblige("codec/writer-starts-with-class-tag", z3.BoolVal(False), kind="codec", where=where)
                return
            exp = class_tag(cls)
            ctx.oblige("codec/writer-starts-with-class-tag", toks[0][1].t == int(exp) if exp is not None else z3.BoolVal(True), kind="codec", where=where)
            toks = toks[1:]
        rbuf = SBuf(toks, reading=True)
        reader = inspect.getattr_static(cls, self.reader_name)
        fn = reader.__func__ if isinstance(reader, (classmethod, staticmethod)) else reader
        args = [SFunc(cls), rbuf] if isinstance(reader, classmethod) else [rbuf]
        if self.read_args:
            args = args + list(self.read_args(I, env))
        try:
            R = I.call_function(fn, args, {})
        except PyExc as e:
            if not ctx.is_sat():
                return
            ctx.oblige(f"codec/reader-accepts-writer-output/{e.cls.__name__}", z3.BoolVal(False), kind="codec", where=f"{where}: {e.msg} {e.where}")
            return
        if not ctx.is_sat():
            return
        ctx.oblige("codec/all-tokens-consumed", z3.BoolVal(rbuf.pos == len(rbuf.tokens)), kind="codec", where=f"{where}: {len(rbuf.tokens) - rbuf.pos} token(s) left over")
        self.compare_views(I, env, R, where)

    def after_serialize(self, I, env, result, where):
        """JSON mode: the value serialize() returned goes through JSON (tuples come back as lists, object
        keys must be strings, sets cannot be encoded) and is handed to deserialize()"""
        ctx = I.ctx
        cls = self.cls
        problems = []
        data = through_json(I, result, problems)
        for pr in problems:
            ctx.oblige("codec/json-encodable", z3.BoolVal(False), kind="codec", where=f"{where}: {pr}")
        if problems:
            return
        if isinstance(data, SDict):
            # deserialize_type / SymbolNode.deserialize dispatch on the ".class" member by class name
            tag = [x for k, x in data.entries if isinstance(k, SStr) and z3.is_string_value(simp(k.t)) and simp(k.t).as_string() == ".class"]
            if tag:
                ok = isinstance(tag[0], SStr) and z3.is_string_value(simp(tag[0].t)) and simp(tag[0].t).as_string() == cls.__name__
                ctx.oblige("codec/json-class-member-names-the-class", z3.BoolVal(bool(ok)), kind="codec", where=where)
        reader = inspect.getattr_static(cls, self.reader_name)
        fn = reader.__func__ if isinstance(reader, (classmethod, staticmethod)) else reader
        args = [SFunc(cls), data] if isinstance(reader, classmethod) else [data]
        if self.read_args:
            args = args + list(self.read_args(I, env))
        try:
            R = I.call_function(fn, args, {})
        except PyExc as e:
            if not ctx.is_sat():
                return
            ctx.oblige(f"codec/reader-accepts-writer-output/{e.cls.__name__}", z3.BoolVal(False), kind="codec", where=f"{where}: {e.msg} {e.where}")
            return
        if not ctx.is_sat():
            return
        self.compare_views(I, env, R, where)

    def compare_views(self, I, env, R, where):
        ctx = I.ctx
        cls = self.cls
        R = I.unopt(R)
        if not isinstance(R, SObj):
            ctx.oblige("codec/reader-returns-an-object", z3.BoolVal(False), kind="codec", where=where)
            return
        if self.json:
            ctx.oblige("codec/reloaded-object-has-the-written-class", z3.BoolVal(R.cands == [cls]), kind="codec", where=where)
        self_obj = env["self"]
        slots = all_slots(cls) or sorted(instance_fields(cls))
        # every slot is either in the view or declared transient
        for s in slots:
            if s in self.transient:
                continue
            getter = self.view.get(s)
            try:
                written = getter(I, self_obj) if getter else I.getattr(self_obj, s)
            except PyExc as e:
                ctx.oblige(f"codec/view/{s}", z3.BoolVal(False), kind="codec", where=f"writer side has no {s}")
                continue
            if s not in R.fields:
                try:
                    got = I.getattr(R, s)
                except PyExc:
                    ctx.oblige(f"codec/view/{s}", z3.BoolVal(False), kind="codec", where=f"{where}: attribute {s} not set by read()")
                    continue
            else:
                got = R.fields[s]
            ctx.oblige(f"codec/view/{s}", view_eq(I, got, written), kind="codec", where=f"{where}: reloaded {s} equals written {s}")
        for s in self.view:
            if s not in slots:
                getter = self.view[s]
                written = getter(I, self_obj)
                got = R.fields.get(s) or I.getattr(R, s)
                ctx.oblige(f"codec/view/{s}", view_eq(I, got, written), kind="codec", where=f"{where}: reloaded {s}")
