"""pyvc.accum -- unbounded rules for loops and comprehensions that only ACCUMULATE INTO SETS.

    for x in S:                       S a symbolic set / dict (keys) / sequence
        [for y in T(x):]              nested loops of the same shape
            [if c(x, y):]             side-effect-free conditions
                X.add(e(x, y))        the only effect

is summarised exactly, for every size of S and T, as
    X' = { d | d in X  or  exists x in S, y in T(x). c(x, y) and e(x, y) == d }
and a set comprehension {e(x) for x in S if c(x)} as { d | exists x in S. c(x) and e(x) == d }.
The body is evaluated ONCE on generic elements (fresh constants), without forking; anything that
would fork or raise there makes the target undecided.  Contracts called from the body must return
terms that are functions of their arguments (so that the generic constant can be quantified)."""
from __future__ import annotations

import ast

import z3

from .ctx import MergeAbort, Unsupported
from .interp import NONE as NONE_V
from .sym import *
from .types import *


def _membership(I, it, g):
    if isinstance(it, ZVal) and isinstance(it.ty, TSet):
        return it.ty.elem, z3.Select(it.t, g)
    if isinstance(it, ZVal) and isinstance(it.ty, TMap):
        s, mk, accs = it.ty.parts()
        return it.ty.k, z3.Select(accs[0](it.t), g)
    if isinstance(it, ZVal) and isinstance(it.ty, TSeq):
        return it.ty.elem, z3.Contains(it.t, z3.Unit(g))
    return None, None


def _elem_ty(it):
    if isinstance(it, ZVal) and isinstance(it.ty, (TSet, TSeq)):
        return it.ty.elem
    if isinstance(it, ZVal) and isinstance(it.ty, TMap):
        return it.ty.k
    return None


def applicable(stmt):
    """syntactic shape of an accumulation loop"""
    def block(stmts):
        for st in stmts:
            if isinstance(st, (ast.Pass, ast.Continue)):
                continue
            if isinstance(st, ast.For):
                if not isinstance(st.target, ast.Name) or st.orelse or not block(st.body):
                    return False
            elif isinstance(st, ast.If):
                if not block(st.body) or not block(st.orelse):
                    return False
            elif isinstance(st, ast.Expr) and isinstance(st.value, ast.Call) and isinstance(st.value.func, ast.Attribute) and st.value.func.attr == "add" and len(st.value.args) == 1:
                continue
            elif isinstance(st, ast.Assign) and len(st.targets) == 1 and isinstance(st.targets[0], ast.Name):
                continue
            elif isinstance(st, (ast.Assert, ast.Return)):
                continue
            else:
                return False
        return True
    return isinstance(stmt, ast.For) and isinstance(stmt.target, ast.Name) and not stmt.orelse and block(stmt.body)


class _Acc:
    def __init__(self, I, frame):
        self.I = I
        self.frame = frame
        self.records = []  # (cell, elem sort, element term, guard term, [bound consts])
        self.returns = []  # (value, guard term, [bound consts]): `return v` inside the loops (a search)
        self.assigned = set()
        self.n = 0

    def nofork(self, fn, guard):
        ok, r = self.I.try_nofork(fn, guard=guard if not z3.is_true(guard) else None)
        if not ok:
            raise Unsupported("accumulation loop: the body would fork or raise on a generic element")
        return r

    def block(self, stmts, guard, binders):
        """process the statements under `guard`; returns the condition under which control reaches the
        end of the block normally (False after continue / return)"""
        I = self.I
        for st in stmts:
            if isinstance(st, ast.Pass):
                continue
            if isinstance(st, ast.Continue):
                return z3.BoolVal(False)
            if isinstance(st, ast.For):
                it = self.nofork(lambda: I.eval(st.iter, self.frame), guard)
                ety = _elem_ty(it)
                if ety is None or not ety.pure:
                    raise Unsupported("accumulation loop over a collection that is not a pure symbolic set / dict / sequence")
                self.n += 1
                g = I.ctx.fresh(f"gen_{st.target.id}", ety.sort())
                _, mem = _membership(I, it, g)
                self.frame.locals[st.target.id] = wrap(ety, g)
                self.block(st.body, z3.And(guard, mem), binders + [g])
                self.frame.locals.pop(st.target.id, None)
            elif isinstance(st, ast.If):
                c = self.nofork(lambda: I.truth(I.eval(st.test, self.frame)), guard)
                g_then = self.block(st.body, z3.And(guard, c), binders)
                g_else = self.block(st.orelse, z3.And(guard, z3.Not(c)), binders)
                guard = simp(z3.Or(g_then, g_else))
            elif isinstance(st, ast.Assign):
                v = self.nofork(lambda: I.eval(st.value, self.frame), guard)
                self.frame.locals[st.targets[0].id] = v
                self.assigned.add(st.targets[0].id)
            elif isinstance(st, ast.Assert):
                c = self.nofork(lambda: I.truth(I.eval(st.test, self.frame)), guard)
                # must hold for every element that reaches it (the generic constants are arbitrary)
                I.ctx.oblige(f"{self.frame.name}/assert-in-summarised-loop", z3.Implies(guard, c), kind="assert", where=f"line {st.lineno}")
                I.ctx.assume(z3.Implies(guard, c))
            elif isinstance(st, ast.Return):
                v = self.nofork(lambda: I.eval(st.value, self.frame), guard) if st.value is not None else NONE_V
                self.returns.append((v, guard, list(binders)))
                return z3.BoolVal(False)
            else:
                call = st.value
                tgt = self.nofork(lambda: I.eval(call.func.value, self.frame), guard)
                e = self.nofork(lambda: I.eval(call.args[0], self.frame), guard)
                if isinstance(tgt, SSet) and not tgt.items and isinstance(call.func.value, ast.Name):
                    # `x = set()` before the loop: from here on the set is symbolic
                    ety = ty_of_value(e)
                    if not ety.pure:
                        raise Unsupported("accumulation loop: impure set elements")
                    tgt = ZVal(TSet(ety), Cell(empty_term(TSet(ety))))
                    f = self.frame
                    while f is not None and call.func.value.id not in f.locals:
                        f = f.parent
                    (f or self.frame).locals[call.func.value.id] = tgt
                if not (isinstance(tgt, ZVal) and isinstance(tgt.ty, TSet)):
                    raise Unsupported("accumulation loop: .add on something that is not a symbolic set")
                self.records.append((tgt, unwrap(tgt.ty.elem, e), guard, list(binders)))
        return guard

    def commit(self):
        by_cell = {}
        for tgt, e, guard, binders in self.records:
            by_cell.setdefault(id(tgt.cell), (tgt, []))[1].append((e, guard, binders))
        for tgt, recs in by_cell.values():
            d = z3.Const(f"acc_d_{id(tgt.cell) % 9973}", tgt.ty.elem.sort())
            alts = [z3.Select(tgt.t, d)]
            for e, guard, binders in recs:
                body = z3.And(guard, e == d)
                alts.append(z3.Exists(binders, body) if binders else body)
            tgt.cell.set(z3.Lambda([d], z3.Or(alts)))


def run_for(I, s, frame):
    """summarise the loop; when its body can `return v` (a search loop) the summary is: either some
    element meets a return condition and the function returns the corresponding value, or none does
    and the accumulations are committed"""
    from .interp import ReturnSig

    acc = _Acc(I, frame)
    acc.block([s], z3.BoolVal(True), [])
    for n in acc.assigned:
        frame.locals.pop(n, None)  # body-local temporaries bound to generic elements
    if acc.returns:
        c = I.ctx
        if acc.records:
            raise Unsupported("loop that both accumulates and returns")
        if c.choose(2, "search-loop") == 0:
            # found: the returned value is the value of SOME element meeting its return condition
            v0 = acc.returns[0][0]
            rty = ty_of_value(v0)
            if not rty.pure:
                raise Unsupported("search loop returning an impure value")
            r = c.fresh("found", rty.sort())
            alts = []
            for v, guard, binders in acc.returns:
                body = z3.And(guard, unwrap(rty, v) == r)
                alts.append(z3.Exists(binders, body) if binders else body)
            c.assume(z3.Or(alts))
            if not c.is_sat():
                from .ctx import Infeasible

                raise Infeasible()
            raise ReturnSig(wrap(rty, r))
        for v, guard, binders in acc.returns:
            c.assume(z3.ForAll(binders, z3.Not(guard)) if binders else z3.Not(guard))
        if not c.is_sat():
            from .ctx import Infeasible

            raise Infeasible()
        return
    acc.commit()


def set_comprehension(I, e, frame, sub):
    """{elt for x in S if c ...} (one generator)"""
    g = e.generators[0]
    if len(e.generators) != 1 or not isinstance(g.target, ast.Name):
        raise Unsupported("set comprehension shape")
    acc = _Acc(I, sub)
    it = acc.nofork(lambda: I.eval(g.iter, frame), z3.BoolVal(True))
    ety = _elem_ty(it)
    if ety is None or not ety.pure:
        raise Unsupported("set comprehension over a collection that is not a pure symbolic set / dict / sequence")
    x = I.ctx.fresh(f"gen_{g.target.id}", ety.sort())
    _, mem = _membership(I, it, x)
    sub.locals[g.target.id] = wrap(ety, x)
    guard = mem
    for cond in g.ifs:
        c = acc.nofork(lambda cond=cond: I.truth(I.eval(cond, sub)), guard)
        guard = z3.And(guard, c)
    val = acc.nofork(lambda: I.eval(e.elt, sub), guard)
    rty = ty_of_value(val)
    if not rty.pure:
        raise Unsupported("set comprehension with impure elements")
    d = z3.Const(f"setc_d_{e.lineno}", rty.sort())
    return ZVal(TSet(rty), Cell(z3.Lambda([d], z3.Exists([x], z3.And(guard, unwrap(rty, val) == d)))))
