"""pyvc.sym -- symbolic values, sorts and type descriptors.

Values are *statically kinded* per path: every Python value the interpreter
manipulates has a host-side class (SInt, SStr, STuple, SObj, ...) and carries z3
terms for its symbolic content.  Where the kind of an input is not determined
(unions, Optional, class hierarchies) the interpreter forks the path.
"""
from __future__ import annotations

import z3

# ----------------------------------------------------------------------------
# sorts and uninterpreted operations

IntS = z3.IntSort()
BoolS = z3.BoolSort()
StrS = z3.StringSort()
FloatS = z3.DeclareSort("PyFloat")
BytesS = z3.SeqSort(IntS)


def _uf(name, *sorts):
    return z3.Function(name, *sorts)


# mathematical-integer operations that have no linear encoding: kept uninterpreted.
# The *same* symbols are used by the spec side, so an obligation pins the mapping
# "operator string -> operator", the guards and the exceptional behaviour, not the
# arithmetic of CPython's bignum implementation (trusted).
UF_BITAND = _uf("py_bitand", IntS, IntS, IntS)
UF_BITOR = _uf("py_bitor", IntS, IntS, IntS)
UF_BITXOR = _uf("py_bitxor", IntS, IntS, IntS)
UF_LSHIFT = _uf("py_lshift", IntS, IntS, IntS)
UF_RSHIFT = _uf("py_rshift", IntS, IntS, IntS)
UF_POW = _uf("py_pow", IntS, IntS, IntS)
UF_I2F = _uf("py_i2f", IntS, FloatS)
UF_INT_TRUEDIV = _uf("py_int_truediv", IntS, IntS, FloatS)
UF_FADD = _uf("py_fadd", FloatS, FloatS, FloatS)
UF_FSUB = _uf("py_fsub", FloatS, FloatS, FloatS)
UF_FMUL = _uf("py_fmul", FloatS, FloatS, FloatS)
UF_FDIV = _uf("py_fdiv", FloatS, FloatS, FloatS)
UF_FFLOORDIV = _uf("py_ffloordiv", FloatS, FloatS, FloatS)
UF_FMOD = _uf("py_fmod", FloatS, FloatS, FloatS)
UF_FPOW = _uf("py_fpow", FloatS, FloatS, FloatS)
UF_FNEG = _uf("py_fneg", FloatS, FloatS)
# sign class of a float: -1 negative, 0 zero (either sign), 1 positive, 2 NaN
UF_FSIGN = _uf("py_fsign", FloatS, IntS)


def UF_FISZERO(t):
    return UF_FSIGN(t) == 0


def UF_FLT0(t):
    return UF_FSIGN(t) == -1


def UF_FGT0(t):
    return UF_FSIGN(t) == 1


UF_FPOW_OVERFLOWS = _uf("py_fpow_overflows", FloatS, FloatS, BoolS)
UF_STRMUL = _uf("py_strmul", StrS, IntS, StrS)
UF_BYTESMUL = _uf("py_bytesmul", BytesS, IntS, BytesS)
UF_STR_OF_INT = _uf("py_str_of_int", IntS, StrS)
UF_BITLEN = _uf("py_bitlen", IntS, IntS)

# int -> float conversion raises OverflowError exactly when the rounded value is not
# finite: |i| >= 2**1024 - 2**970 (validated against CPython in selftest).
I2F_LIMIT = 2 ** 1024 - 2 ** 970


def py_floordiv(a, b):
    return z3.If(b > 0, a / b, (-a) / (-b))


def py_mod(a, b):
    return a - b * py_floordiv(a, b)


_internal_cache = {}


def _has_internal(t):
    """does the term contain z3's internal partial sequence accessors (seq.nth_i / seq.nth_u)?
    The simplifier introduces them; the seq solver then answers `unknown` and cvc5 cannot parse them."""
    work = [t]
    seen = set()
    while work:
        x = work.pop()
        i = x.get_id()
        if i in seen:
            continue
        seen.add(i)
        if z3.is_app(x):
            if x.decl().name().startswith("seq.nth_"):
                return True
            work.extend(x.children())
        elif z3.is_quantifier(x):
            work.append(x.body())
    return False


def unintern(t):
    """rewrite z3's internal seq.nth_i / seq.nth_u back to the public seq.nth (they denote the same
    value wherever the simplifier places them)"""
    memo = {}

    def go(x):
        k = x.get_id()
        if k in memo:
            return memo[k][1]
        if z3.is_quantifier(x):
            body = go(x.body())
            if body.eq(x.body()):
                r = x
            else:
                vs = [z3.Const(x.var_name(i), x.var_sort(i)) for i in range(x.num_vars())]
                # rebuild with fresh constants for the bound variables (innermost var has index 0)
                inst = z3.substitute_vars(body, *reversed(vs))
                r = z3.ForAll(vs, inst) if x.is_forall() else z3.Exists(vs, inst)
        elif z3.is_app(x) and x.num_args() > 0:
            kids = [go(c) for c in x.children()]
            name = x.decl().name()
            if name in ("seq.nth_i", "seq.nth_u"):
                r = kids[0][kids[1]]
            elif x.decl().kind() == z3.Z3_OP_ITE and kids[1].eq(kids[2]):
                r = kids[1]
            elif all(a.eq(b) for a, b in zip(kids, x.children())):
                r = x
            else:
                try:
                    r = x.decl()(*kids)
                except Exception:
                    r = z3.substitute(x, *[(o, n) for o, n in zip(x.children(), kids) if not o.eq(n)])
        else:
            r = x
        memo[k] = (x, r)
        return r

    return go(t)


def simp(t):
    """simplify; internal sequence accessors introduced by the simplifier are rewritten back"""
    s = z3.simplify(t)
    if z3.is_true(s) or z3.is_false(s) or z3.is_int_value(s) or z3.is_string_value(s):
        return s
    if _has_internal(s):
        try:
            return unintern(s)
        except Exception:
            return t
    return s


def is_true(t):
    return z3.is_true(simp(t))


def is_false(t):
    return z3.is_false(simp(t))


def concrete_int(t):
    s = simp(t)
    if z3.is_int_value(s):
        return s.as_long()
    return None


def concrete_str(t):
    s = simp(t)
    if z3.is_string_value(s):
        return s.as_string()
    return None


# ----------------------------------------------------------------------------
# values


class V:
    kind = "?"

    def __repr__(self):
        return f"<{self.kind}>"


class SInt(V):
    kind = "int"
    __slots__ = ("t",)

    def __init__(self, t):
        if isinstance(t, int):
            t = z3.IntVal(t)
        self.t = t

    def __repr__(self):
        return f"SInt({self.t})"


class SBitInt(SInt):
    """a non-negative int known bit by bit (flag packing): bits maps a bit position to a z3 Bool, all
    other bits are 0.  Its term is the sum of the set bits, so it is an ordinary SInt everywhere else."""

    __slots__ = ("bits",)

    def __init__(self, bits):
        self.bits = dict(bits)
        terms = [z3.If(b, z3.IntVal(2 ** k), z3.IntVal(0)) for k, b in sorted(self.bits.items())]
        SInt.__init__(self, z3.Sum(terms) if terms else z3.IntVal(0))


def as_bits(v):
    """bit view of a value if it has one (a bit-int, or the concrete ints 0 .. 2**64-1)"""
    if isinstance(v, SBitInt):
        return v.bits
    if isinstance(v, SInt) and not isinstance(v, SBitInt):
        s = z3.simplify(v.t)
        if z3.is_int_value(s):
            n = s.as_long()
            if 0 <= n < 2 ** 64:
                return {k: z3.BoolVal(True) for k in range(n.bit_length()) if (n >> k) & 1}
    return None


class SBool(V):
    kind = "bool"
    __slots__ = ("t",)

    def __init__(self, t):
        if isinstance(t, bool):
            t = z3.BoolVal(t)
        self.t = t

    def __repr__(self):
        return f"SBool({self.t})"


class SStr(V):
    kind = "str"
    __slots__ = ("t",)

    def __init__(self, t):
        if isinstance(t, str):
            t = z3.StringVal(t)
        self.t = t

    def __repr__(self):
        return f"SStr({self.t})"


class SFloat(V):
    kind = "float"
    __slots__ = ("t", "py")

    def __init__(self, t, py=None):
        self.t = t
        self.py = py  # concrete python float when reflected from a literal

    def __repr__(self):
        return f"SFloat({self.t})"


class SComplex(V):
    kind = "complex"
    __slots__ = ("name",)

    def __init__(self, name):
        self.name = name


class SNoneT(V):
    kind = "None"

    def __repr__(self):
        return "NONE"


NONE = SNoneT()


class SOpt(V):
    """T | None for a scalar T, without forking: `isnone` is a z3 Bool, `val` the value if not None"""

    kind = "opt"
    __slots__ = ("isnone", "val")

    def __init__(self, isnone, val):
        self.isnone = isnone
        self.val = val

    def __repr__(self):
        return f"SOpt({self.isnone}, {self.val})"


class SBytes(V):
    """bytes / bytearray / memoryview: a z3 sequence of ints in 0..255.

    `cell` gives reference semantics for bytearray (mutable)."""

    kind = "bytes"
    __slots__ = ("cell", "mutable")

    def __init__(self, t, mutable=False):
        self.cell = [t, t]  # [current, initial]
        self.mutable = mutable

    @property
    def t(self):
        return self.cell[0]

    def __repr__(self):
        return f"SBytes({self.cell[0]})"


class STuple(V):
    kind = "tuple"
    __slots__ = ("items",)

    def __init__(self, items):
        self.items = list(items)

    def __repr__(self):
        return f"STuple({self.items})"


class SList(V):
    """list with a concrete shape (host list of values); host identity is reference identity"""

    kind = "list"
    __slots__ = ("items",)

    def __init__(self, items):
        self.items = list(items)

    def __repr__(self):
        return f"SList({self.items})"


class SSet(V):
    """set with concrete shape: host list of element values (symbolic elements may coincide)"""

    kind = "set"
    __slots__ = ("items", "frozen")

    def __init__(self, items, frozen=False):
        self.items = list(items)
        self.frozen = frozen


class SDict(V):
    """dict with concrete shape: ordered (key, value) pairs; keys are pairwise distinct
    *syntactically*; lookups with symbolic keys compare against every entry."""

    kind = "dict"
    __slots__ = ("entries", "default")

    def __init__(self, entries=(), default=None):
        self.entries = [tuple(e) for e in entries]
        self.default = default


class ZVal(V):
    """A pure (identity-free) container held as one z3 term in a cell.

    ty is TSeq / TMap / TSet with pure element types.  `cell` is a Cell giving
    reference semantics (aliases share the cell; nested containers use lens cells).
    """

    kind = "zval"
    __slots__ = ("ty", "cell")

    def __init__(self, ty, cell):
        self.ty = ty
        self.cell = cell

    @property
    def t(self):
        return self.cell.get()

    def __repr__(self):
        return f"ZVal({self.ty}, {self.cell.get()})"


class Cell:
    def __init__(self, t):
        self._t = t
        self.init = t  # value at creation (pre-state of lazily created inputs)

    def get(self):
        return self._t

    def set(self, t):
        self._t = t


class LensCell(Cell):
    """cell for a container stored inside a map container: reads/writes go through the parent"""

    def __init__(self, parent_cell, getter, setter):
        self.parent = parent_cell
        self.getter = getter
        self.setter = setter

    def get(self):
        return self.getter(self.parent.get())

    def set(self, t):
        self.parent.set(self.setter(self.parent.get(), t))


class LList(V):
    """lazily initialised list of impure elements: symbolic length, cells by concrete index"""

    kind = "llist"
    __slots__ = ("elem_ty", "length", "cells", "name", "appended", "sym_writes")

    def __init__(self, elem_ty, length, name):
        self.elem_ty = elem_ty
        self.length = length
        self.cells = {}
        self.name = name
        self.appended = []  # values appended during execution (after the lazy prefix)
        self.sym_writes = []  # (index term, value) stores at a symbolic index; any other read afterwards is unsupported


class LDict(V):
    """lazily initialised dict with impure values: entries materialise on lookup"""

    kind = "ldict"
    __slots__ = ("kty", "vty", "entries", "name", "default_factory", "version", "value_inv")

    def __init__(self, kty, vty, name, default_factory=None):
        self.kty = kty
        self.vty = vty
        self.entries = []  # list of [key V, present z3 Bool, value V]
        self.name = name
        self.default_factory = default_factory
        self.version = 0
        self.value_inv = None  # (I, key, value) -> z3 Bool assumed of every pre-state value (data-structure invariant)


class SObj(V):
    kind = "obj"
    __slots__ = ("addr", "cands", "fields", "name", "lazy", "live", "ghost", "init")

    def __init__(self, addr, cands, name, lazy, live=None):
        self.addr = addr  # z3 Int term
        self.cands = list(cands)  # candidate live classes (exact class is one of them)
        self.fields = {}
        self.name = name
        self.lazy = lazy  # unknown fields are created on demand
        self.live = live  # reflected live object (module-level constants)
        self.ghost = {}
        self.init = {}  # field -> value at lazy creation (pre-state)

    def __repr__(self):
        return f"SObj({self.name}:{'|'.join(c.__name__ for c in self.cands[:3])})"


class SFunc(V):
    """a callable known to the host: live python function / class / builtin / bound method"""

    kind = "func"
    __slots__ = ("live", "self_v", "closure")

    def __init__(self, live, self_v=None, closure=None):
        self.live = live
        self.self_v = self_v
        self.closure = closure

    def __repr__(self):
        return f"SFunc({getattr(self.live, '__qualname__', self.live)})"


class SLambda(V):
    kind = "lambda"
    __slots__ = ("node", "frame", "module")

    def __init__(self, node, frame, module):
        self.node = node
        self.frame = frame
        self.module = module


class SModule(V):
    kind = "module"
    __slots__ = ("live",)

    def __init__(self, live):
        self.live = live


class SOpaque(V):
    """a value the engine knows nothing about; can be stored and passed, not operated on"""

    kind = "opaque"
    __slots__ = ("name",)

    def __init__(self, name):
        self.name = name

    def __repr__(self):
        return f"SOpaque({self.name})"


class SBuiltinMethod(V):
    kind = "bmethod"
    __slots__ = ("recv", "name")

    def __init__(self, recv, name):
        self.recv = recv
        self.name = name


# ----------------------------------------------------------------------------
# type descriptors (used to create symbolic inputs and lazily initialised fields)


class Ty:
    pure = False

    def sort(self):
        raise NotImplementedError(self)


class TInt(Ty):
    pure = True

    def sort(self):
        return IntS

    def __repr__(self):
        return "int"


class TBool(Ty):
    pure = True

    def sort(self):
        return BoolS

    def __repr__(self):
        return "bool"


class TStr(Ty):
    pure = True

    def sort(self):
        return StrS

    def __repr__(self):
        return "str"


class TFloat(Ty):
    pure = True

    def sort(self):
        return FloatS

    def __repr__(self):
        return "float"


class TNone(Ty):
    def __repr__(self):
        return "None"


class TBytes(Ty):
    pure = True

    def __init__(self, mutable=False):
        self.mutable = mutable

    def sort(self):
        return BytesS

    def __repr__(self):
        return "bytes"


class TAny(Ty):
    def __repr__(self):
        return "Any"


_tuple_sorts = {}


class TTuple(Ty):
    def __init__(self, items):
        self.items = list(items)
        self.pure = all(i.pure for i in self.items)

    def sort(self):
        key = tuple(str(i.sort()) for i in self.items)
        if key not in _tuple_sorts:
            name = "Tup_" + "_".join(k.replace(" ", "").replace("(", "L").replace(")", "R") for k in key)
            s, mk, accs = z3.TupleSort(name, [i.sort() for i in self.items])
            _tuple_sorts[key] = (s, mk, accs)
        return _tuple_sorts[key][0]

    def parts(self):
        self.sort()
        key = tuple(str(i.sort()) for i in self.items)
        return _tuple_sorts[key]

    def __repr__(self):
        return f"tuple{self.items}"


class TSeq(Ty):
    """list[T] / tuple[T, ...] / Iterable[T] / Sequence[T]"""

    def __init__(self, elem, mutable=True):
        self.elem = elem
        self.mutable = mutable
        self.pure = elem.pure

    def sort(self):
        return z3.SeqSort(self.elem.sort())

    def __repr__(self):
        return f"seq[{self.elem}]"


class TSet(Ty):
    def __init__(self, elem):
        self.elem = elem
        self.pure = elem.pure

    def sort(self):
        return z3.ArraySort(self.elem.sort(), BoolS)

    def __repr__(self):
        return f"set[{self.elem}]"


_map_sorts = {}


class TMap(Ty):
    """dict[K, V] with pure K, V: a datatype (dom: K->Bool, val: K->V).  `default` marks a
    defaultdict whose factory creates the empty value of V."""

    def __init__(self, k, v, default=False):
        self.k = k
        self.v = v
        self.default = default
        self.pure = k.pure and v.pure

    def parts(self):
        key = (str(self.k.sort()), str(self.v.sort()))
        if key not in _map_sorts:
            name = "Map_" + "_".join(x.replace(" ", "").replace("(", "L").replace(")", "R") for x in key)
            s, mk, accs = z3.TupleSort(
                name, [z3.ArraySort(self.k.sort(), BoolS), z3.ArraySort(self.k.sort(), self.v.sort())]
            )
            _map_sorts[key] = (s, mk, accs)
        return _map_sorts[key]

    def sort(self):
        return self.parts()[0]

    def __repr__(self):
        return f"{'default' if self.default else ''}dict[{self.k},{self.v}]"


class TOpt(Ty):
    """T | None -- resolved by forking when a value is created"""

    def __init__(self, inner):
        self.inner = inner

    def __repr__(self):
        return f"{self.inner}|None"


class TUnion(Ty):
    def __init__(self, alts):
        self.alts = list(alts)

    def __repr__(self):
        return "|".join(map(repr, self.alts))


class TObj(Ty):
    def __init__(self, cls):
        self.cls = cls  # live class

    def __repr__(self):
        return self.cls.__name__


class TLList(Ty):
    def __init__(self, elem):
        self.elem = elem

    def __repr__(self):
        return f"llist[{self.elem}]"


class TLDict(Ty):
    def __init__(self, k, v, default=None):
        self.k = k
        self.v = v
        self.default = default

    def __repr__(self):
        return f"ldict[{self.k},{self.v}]"


class TConst(Ty):
    """a fixed, already constructed value"""

    def __init__(self, v):
        self.v = v


def empty_term(ty):
    """the z3 term of the empty / default value of a pure container type"""
    if isinstance(ty, TSeq):
        return z3.Empty(ty.sort())
    if isinstance(ty, TSet):
        return z3.K(ty.elem.sort(), z3.BoolVal(False))
    if isinstance(ty, TMap):
        s, mk, accs = ty.parts()
        dom = z3.K(ty.k.sort(), z3.BoolVal(False))
        val = z3.K(ty.k.sort(), default_term(ty.v))
        return mk(dom, val)
    if isinstance(ty, TBytes):
        return z3.Empty(BytesS)
    raise NotImplementedError(ty)


def default_term(ty):
    if isinstance(ty, TInt):
        return z3.IntVal(0)
    if isinstance(ty, TBool):
        return z3.BoolVal(False)
    if isinstance(ty, TStr):
        return z3.StringVal("")
    if isinstance(ty, TFloat):
        return z3.Const("py_f0", FloatS)
    if isinstance(ty, TTuple):
        s, mk, accs = ty.parts()
        return mk(*[default_term(i) for i in ty.items])
    return empty_term(ty)
