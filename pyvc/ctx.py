"""pyvc.ctx -- path context, exploration by replay, obligations."""
from __future__ import annotations

import os
import time
import z3

from .sym import simp


class Infeasible(Exception):
    """the current path condition is unsatisfiable"""


class Unsupported(Exception):
    """the target left the supported subset: the target is UNDECIDED, never violated"""


class MergeAbort(Exception):
    """a non-forking (merge) attempt needed a fork or raised: fall back to forking"""


class PathEnd(Exception):
    """the path ends here by construction (e.g. after checking a loop body)"""


class Obligation:
    __slots__ = ("name", "kind", "status", "model", "where", "path", "solver", "secs", "smt2", "detail", "bounded", "z3model", "native", "goal")

    def __init__(self, name, kind, where, path):
        self.name = name
        self.kind = kind
        self.where = where
        self.path = path
        self.status = "pending"  # discharged | refuted | unknown
        self.model = None
        self.solver = None
        self.secs = 0.0
        self.smt2 = None
        self.detail = None
        self.bounded = None
        self.z3model = None
        self.native = None
        self.goal = None

    def to_json(self):
        return {
            "name": self.name,
            "kind": self.kind,
            "where": self.where,
            "path": list(self.path),
            "status": self.status,
            "model": self.model,
            "solver": self.solver,
            "secs": round(self.secs, 4),
            "detail": self.detail,
            "bounded": self.bounded,
            "native_replay": self.native,
            # the query of a refuted / undecided obligation travels with the verdict (replay files carry it)
            "smt2": self.smt2 if self.status != "discharged" else None,
        }


class Explorer:
    """Depth-first exploration of all paths of `run(ctx)` by re-execution with a recorded
    decision prefix.  Deterministic: the same prefix always reaches the same state."""

    def __init__(self, run, *, max_paths=20000, feas_timeout_ms=3000, oblig_timeout_ms=10000, on_unknown=None):
        self.run = run
        self.max_paths = max_paths
        self.feas_timeout_ms = feas_timeout_ms
        self.oblig_timeout_ms = oblig_timeout_ms
        self.feas_cache = {}
        self.obligations = []
        self.paths = 0
        self.paths_completed = 0
        self.infeasible = 0
        self.unsupported = []
        self.covers = []
        self.bounded_notes = set()
        self.solver_secs = 0.0
        self.on_unknown = on_unknown

    def explore(self):
        stack = []
        while True:
            if self.paths >= self.max_paths:
                self.unsupported.append(f"path budget exceeded ({self.max_paths})")
                break
            ctx = Ctx(self, [c for c, _ in stack])
            self.paths += 1
            try:
                self.run(ctx)
                self.paths_completed += 1
            except Infeasible:
                self.infeasible += 1
            except PathEnd:
                self.paths_completed += 1
            except Unsupported as e:
                self.unsupported.append(str(e))
            except RecursionError:
                self.unsupported.append("host recursion limit")
            stack = ctx.trace
            while stack and stack[-1][0] + 1 >= stack[-1][1]:
                stack.pop()
            if not stack:
                break
            stack[-1] = (stack[-1][0] + 1, stack[-1][1])
        return self


class Ctx:
    def __init__(self, explorer, prefix):
        self.ex = explorer
        self.prefix = prefix
        self.trace = []
        self.pc = []
        self.pc_raw = []
        self.definitional = set()
        self.solver = z3.Solver()
        self.solver.set("timeout", explorer.feas_timeout_ms)
        self.qcount = 0
        self.fresh_counts = {}
        self.next_addr = -1
        self.reflect_cache = {}
        self.ghost = {}
        self.notes = []
        self.depth = 0
        self.events = []  # ghost event log (store operations, sends, ...)
        self.path_info = None
        self.nofork = 0
        self.guards = []

    # ---- naming
    def fresh_name(self, hint):
        k = self.fresh_counts.get(hint, 0)
        self.fresh_counts[hint] = k + 1
        return hint if k == 0 else f"{hint}#{k}"

    def fresh(self, hint, sort):
        return z3.Const(self.fresh_name(hint), sort)

    def new_addr(self):
        a = self.next_addr
        self.next_addr -= 1
        return z3.IntVal(a)

    # ---- decisions
    def choose(self, n, label=""):
        if n <= 0:
            raise Infeasible()
        if n == 1:
            return 0
        if self.nofork:
            raise MergeAbort()
        i = len(self.trace)
        if i < len(self.prefix):
            c = self.prefix[i]
        else:
            c = 0
        self.trace.append((c, n))
        return c

    def assume(self, b, definitional=False):
        """definitional=True marks the defining axiom of a FRESH symbol introduced by the engine (an
        enumeration of a set, a sorted copy): conservative, so it can be left out when only the
        satisfiability of the rest of the path condition is in question"""
        if self.guards:
            b = z3.Implies(z3.And(self.guards), b)
        raw = b
        b = simp(b)
        if z3.is_true(b):
            return
        if z3.is_false(b):
            raise Infeasible()
        self.pc.append(b)
        self.pc_raw.append(b)
        if definitional:
            self.definitional.add(b.get_id())
        self.solver.add(b)

    def _rebuild_solver(self):
        """after an internal solver error: a fresh incremental solver holding the path condition"""
        self.solver = z3.Solver()
        self.solver.set("timeout", self.ex.feas_timeout_ms)
        for b in self.pc:
            self.solver.add(b)

    def _check(self, extra):
        t0 = time.time()
        try:
            self.solver.push()
            self.solver.add(extra)
            r = self.solver.check()
            self.solver.pop()
        except z3.Z3Exception:
            self._rebuild_solver()
            r = z3.unknown  # an internal solver failure decides nothing
        self.ex.solver_secs += time.time() - t0
        return r

    def feasible(self, cond):
        """(can be true, can be false) under the current path condition"""
        key = (tuple(c for c, _ in self.trace), self.qcount)
        self.qcount += 1
        got = self.ex.feas_cache.get(key)
        if got is None:
            g = self.guards
            ct = z3.And(g + [cond]) if g else cond
            cf = z3.And(g + [z3.Not(cond)]) if g else z3.Not(cond)
            # decide on the cone of influence of the condition: the rest of the (satisfiable) path
            # condition shares no symbol with it
            sl = z3.Solver()
            sl.set("timeout", self.ex.feas_timeout_ms)
            sl.add(cone_of_influence(self.pc_raw, ct))
            t0 = time.time()
            try:
                sl.push()
                sl.add(ct)
                rt = sl.check()
                sl.pop()
                sl.add(cf)
                rf = sl.check()
            except z3.Z3Exception:
                rt = rf = z3.unknown  # internal solver failure: both outcomes stay possible
            if (rt == z3.unsat or rf == z3.unsat) and os.environ.get("PYVC_TRUST_Z3") != "1":
                cone = cone_of_influence(self.pc_raw, ct)
                from .solve import any_quantifier

                if any_quantifier(cone + [ct]):
                    # an `unsat` of z3 5.1.0 on a quantified query prunes a path only when confirmed
                    if rt == z3.unsat and not self._confirmed_unsat(cone + [ct]):
                        rt = z3.unknown
                    if rf == z3.unsat and not self._confirmed_unsat(cone + [cf]):
                        rf = z3.unknown
            self.ex.solver_secs += time.time() - t0
            got = (rt != z3.unsat, rf != z3.unsat)
            self.ex.feas_cache[key] = got
        return got

    def branch(self, cond):
        """decide a symbolic condition, forking the path if both outcomes are feasible"""
        c = simp(cond)
        if z3.is_true(c):
            return True
        if z3.is_false(c):
            return False
        ft, ff = self.feasible(c)
        if ft and ff:
            take = self.choose(2, "branch") == 0
            self.assume(c if take else z3.Not(c))
            return take
        if ft:
            return True
        if ff:
            return False
        if self.guards:
            raise MergeAbort()  # the guarded region itself is unreachable
        raise Infeasible()

    def implied(self, cond):
        """does the path condition imply cond?"""
        c = simp(cond)
        if z3.is_true(c):
            return True
        if z3.is_false(c):
            return False
        sl = z3.Solver()
        sl.set("timeout", self.ex.feas_timeout_ms)
        cone = cone_of_influence(self.pc_raw, c)
        sl.add(cone)
        sl.add(z3.Not(c))
        try:
            r = sl.check()
        except z3.Z3Exception:
            return False
        if r == z3.unsat and os.environ.get("PYVC_TRUST_Z3") != "1":
            from .solve import any_quantifier

            if any_quantifier(cone + [c]) and not self._confirmed_unsat(cone + [z3.Not(c)]):
                return False
        return r == z3.unsat

    def _confirmed_unsat(self, formulas, budget_s=6):
        """independent confirmation (z3 4.8.12, then cvc5) of an `unsat` on a quantified query"""
        from .solve import confirm_unsat

        key = tuple(sorted(f.get_id() for f in formulas))
        cache = self.ex.__dict__.setdefault("confirm_cache", {})
        if key not in cache:
            t0 = time.time()
            cache[key] = confirm_unsat(dump_smt2(formulas), budget_s=budget_s)[0]
            self.ex.__dict__["confirm_secs"] = self.ex.__dict__.get("confirm_secs", 0.0) + time.time() - t0
            self.ex.__dict__["confirm_calls"] = self.ex.__dict__.get("confirm_calls", 0) + 1
        return cache[key]

    def is_sat(self):
        t0 = time.time()
        try:
            r = self.solver.check()
        except z3.Z3Exception:
            self._rebuild_solver()
            r = z3.unknown
        if r == z3.unsat and os.environ.get("PYVC_TRUST_Z3") != "1":
            from .solve import any_quantifier

            if any_quantifier(self.pc_raw) and not self._confirmed_unsat(list(self.pc_raw)):
                r = z3.unknown
        self.ex.solver_secs += time.time() - t0
        return r != z3.unsat

    def concretize(self, t, limit=16, what="value"):
        """fork over the feasible concrete values of an Int term (must be few)"""
        s = simp(t)
        if z3.is_int_value(s):
            return s.as_long()
        key = ("conc", tuple(c for c, _ in self.trace), self.qcount)
        self.qcount += 1
        vals = self.ex.feas_cache.get(key)
        if vals is None:
            sl = z3.Solver()
            sl.set("timeout", self.ex.feas_timeout_ms)
            cone_c = cone_of_influence(self.pc_raw, s)
            sl.add(cone_c)
            from .solve import any_quantifier

            trust = os.environ.get("PYVC_TRUST_Z3") == "1"
            # `no further value` is an unsat answer: on quantified queries it is not believed (z3 5.1.0),
            # the enumeration then falls back to the quantifier-free arithmetic relaxation below
            vals = self._enumerate(sl, s, limit, trust_unsat=trust or not any_quantifier(cone_c))
            if vals is None:
                vals = self._enumerate(self.solver, s, limit, trust_unsat=trust or not any_quantifier(self.pc_raw))
            if vals is None and os.environ.get("PYVC_DEBUG"):
                import sys as _sys

                print(f"--- concretize unknown for {s}: {self.solver.reason_unknown()}", file=_sys.stderr)
                for p_ in self.pc_raw:
                    print("  PC", str(p_)[:300].replace("\n", " "), file=_sys.stderr)
            if vals is None:
                # the full path condition is too hard for enumeration: enumerate under its
                # arithmetic fragment only (a superset of the feasible values; infeasible forks
                # die later)
                rs = z3.Solver()
                rs.set("timeout", self.ex.feas_timeout_ms)
                fs, s2 = abstract_lengths(cone_of_influence(self.pc_raw, s), s)
                memo, atoms = {}, {}
                for f in fs:
                    rs.add(abstract_non_arith(f, memo, atoms))
                vals = self._enumerate(rs, s2, limit)
                if vals is None:
                    raise Unsupported(f"cannot enumerate {what}: solver unknown")
            if len(vals) > limit:
                if os.environ.get("PYVC_DEBUG"):
                    import sys as _sys

                    print(f"--- too many values for {s}", file=_sys.stderr)
                    for p_ in self.pc_raw:
                        print("  PC", str(p_)[:300].replace("\n", " "), file=_sys.stderr)
                raise Unsupported(f"too many concrete {what}s for {s}")
            vals.sort()
            self.ex.feas_cache[key] = vals
        if not vals:
            raise Infeasible()
        i = self.choose(len(vals), "concretize")
        self.assume(s == vals[i])
        return vals[i]

    def _enumerate(self, solver, s, limit, trust_unsat=True):
        vals = []
        solver.push()
        try:
            while len(vals) <= limit:
                try:
                    r = solver.check()
                except z3.Z3Exception:
                    return None
                if r == z3.unknown:
                    return None
                if r != z3.sat:
                    if not trust_unsat:
                        return None
                    break
                v = solver.model().eval(s, model_completion=True).as_long()
                vals.append(v)
                solver.add(s != v)
        finally:
            solver.pop()
        return vals

    # ---- obligations
    def oblige(self, name, goal, kind="ensures", where="", bounded=None):
        ob = Obligation(name, kind, where, tuple(c for c, _ in self.trace))
        ob.bounded = bounded
        ob.detail = self.path_info
        g = simp(goal)
        t0 = time.time()
        if z3.is_true(g):
            ob.status, ob.solver = "discharged", "simplifier"
        else:
            s = self.solver
            try:
                s.push()
                s.set("timeout", self.ex.oblig_timeout_ms)
                s.add(z3.Not(g))
                r = s.check()
            except z3.Z3Exception:
                self._rebuild_solver()
                s = self.solver
                s.push()
                r = z3.unknown
            if r == z3.unsat:
                ob.status, ob.solver = "discharged", "z3"
                from .solve import any_quantifier, confirm_unsat

                if os.environ.get("PYVC_TRUST_Z3") != "1" and any_quantifier(self.pc_raw + [goal]):
                    # z3 5.1.0's `unsat` on quantified queries is not believed on its own.  The goal is
                    # split into its conjuncts: a quantifier-free piece is re-asked to z3 alone, a
                    # quantified piece must be confirmed by an independent solver
                    budget = max(20, self.ex.oblig_timeout_ms // 500)
                    by_all, ok_all, dis = set(), True, False
                    for part in conjuncts(goal):
                        cone_p = cone_of_influence(self.pc_raw, part)
                        if not any_quantifier(cone_p + [part]):
                            s2 = z3.Solver()
                            s2.set("timeout", self.ex.oblig_timeout_ms)
                            s2.add(cone_p)
                            s2.add(z3.Not(part))
                            try:
                                ok_p = s2.check() == z3.unsat
                            except z3.Z3Exception:
                                ok_p = False
                            by_p = "z3"
                        else:
                            ok_p, by_p, d_p = confirm_unsat(dump_smt2(cone_p + [z3.Not(part)]), budget_s=budget)
                            dis = dis or d_p
                        if not ok_p:
                            ok_all = False
                            break
                        by_all.add(by_p)
                    if ok_all:
                        extra = sorted(by_all - {"z3"})
                        ob.solver = "z3" + ("+" + "+".join(extra) if extra else "")
                    else:
                        ob.status, ob.solver = "unknown", "z3-unsat-unconfirmed" + ("(disagreement)" if dis else "")
                        r = z3.unknown
            elif r == z3.sat:
                ob.status, ob.solver = "refuted", "z3"
                ob.z3model = s.model()
                ob.model = model_to_json(ob.z3model)
                ob.smt2 = dump_smt2(self.pc_raw + [z3.Not(goal)])
            else:
                ob.status, ob.solver = "unknown", "z3"
            s.pop()
            if ob.status == "unknown":
                ob.smt2 = dump_smt2(self.pc_raw + [z3.Not(goal)])
                from .solve import cvc5_check

                # generous budget: this runs only after z3 gave up, and a loaded machine must not turn a
                # 2-second cvc5 proof into `undecided`
                # (only for the first few hard obligations of a target: on code where many obligations are
                # hard the short budget keeps the exploration moving towards the ones that can be refuted)
                left = getattr(self.ex, "generous_left", 4)
                generous = left > 0
                self.ex.generous_left = left - 1
                r2, secs2 = cvc5_check(ob.smt2, timeout_s=max(40, 4 * self.ex.oblig_timeout_ms // 1000) if generous else max(10, self.ex.oblig_timeout_ms // 1000))
                if r2 == "unsat":
                    ob.status, ob.solver = "discharged", "cvc5"
                elif r2 == "sat":
                    ob.status, ob.solver = "refuted", "cvc5"
                    from .solve import LAST_MODEL

                    ob.model = LAST_MODEL[0]
            if ob.status == "unknown" and z3.is_false(g) and self.definitional:
                # a violation that does not depend on any value (the goal is literally False): only the
                # feasibility of the path matters, and the defining axioms of engine-introduced fresh
                # symbols (conservative extensions) can be left out of that question
                s3 = z3.Solver()
                s3.set("timeout", self.ex.oblig_timeout_ms)
                s3.add([f for f in self.pc_raw if f.get_id() not in self.definitional])
                try:
                    if s3.check() == z3.sat:
                        ob.status, ob.solver = "refuted", "z3(definitions-omitted)"
                        ob.z3model = s3.model()
                        ob.model = model_to_json(ob.z3model)
                except z3.Z3Exception:
                    pass
            if ob.status == "unknown":
                # counterexample search on a bounded instance: index-range quantifiers are
                # expanded over ranges of size <= 2 (equivalent under the added range bound),
                # so a model found here is a genuine model of the original query
                m = bounded_refutation(self.pc_raw, goal, self.ex.oblig_timeout_ms)
                if m is not None:
                    ob.status, ob.solver = "refuted", m[0]
                    ob.model = m[1]
                    ob.z3model = m[2]
            s.set("timeout", self.ex.feas_timeout_ms)
            if ob.status == "unknown" and not ob.solver.startswith("z3-unsat-unconfirmed") and getattr(self.ex, "generous_left", 4) >= 0:
                # last resort before `undecided`: one retry on the cone of influence with a budget four
                # times as large (a loaded machine must not turn a 4-second proof into `unknown`)
                s4 = z3.Solver()
                s4.set("timeout", self.ex.oblig_timeout_ms * 4)
                cone4 = cone_of_influence(self.pc_raw, goal)
                s4.add(cone4)
                s4.add(z3.Not(goal))
                try:
                    r4 = s4.check()
                except z3.Z3Exception:
                    r4 = z3.unknown
                if r4 == z3.unsat:
                    from .solve import any_quantifier, confirm_unsat

                    if os.environ.get("PYVC_TRUST_Z3") == "1" or not any_quantifier(cone4 + [goal]):
                        ob.status, ob.solver = "discharged", "z3(retry)"
                    else:
                        ok_c, by, _ = confirm_unsat(dump_smt2(cone4 + [z3.Not(goal)]), budget_s=max(40, self.ex.oblig_timeout_ms // 250))
                        if ok_c:
                            ob.status, ob.solver = "discharged", "z3(retry)+" + by
            if ob.status == "unknown" and self.ex.on_unknown is not None:
                self.ex.on_unknown(ob)
        ob.secs = time.time() - t0
        if ob.status == "refuted" and ob.z3model is None and isinstance(ob.model, dict):
            ob.z3model = self.model_from_hints(goal, ob.model)
        if ob.status != "discharged" and os.environ.get("PYVC_DEBUG"):
            import sys as _sys

            print(f"--- {ob.name} {ob.status} by {ob.solver}\nGOAL {goal}", file=_sys.stderr)
            for p_ in self.pc_raw:
                print("  PC", str(p_)[:400].replace("\n", " "), file=_sys.stderr)
            print("  MODEL", str(ob.model)[:1500], file=_sys.stderr)
        self.ex.solver_secs += ob.secs
        self.ex.obligations.append(ob)
        self.last_ob = ob
        return ob.status == "discharged"

    def model_from_hints(self, goal, hints):
        """a z3 model of (pc and not goal) that agrees with the scalar values another solver found"""
        try:
            decls = {}
            for f in self.pc_raw + [goal]:
                work = [f]
                seen = set()
                while work:
                    x = work.pop()
                    i = x.get_id()
                    if i in seen:
                        continue
                    seen.add(i)
                    if z3.is_quantifier(x):
                        work.append(x.body())
                    elif z3.is_app(x):
                        if x.decl().kind() == z3.Z3_OP_UNINTERPRETED and x.num_args() == 0:
                            decls[x.decl().name()] = x
                        work.extend(x.children())
            s = z3.Solver()
            s.set("timeout", 5000)
            s.add(self.pc_raw)
            s.add(z3.Not(goal))
            for name, val in hints.items():
                c = decls.get(name)
                if c is None:
                    continue
                if isinstance(val, bool) and z3.is_bool(c):
                    s.add(c == val)
                elif isinstance(val, int) and not isinstance(val, bool) and z3.is_int(c):
                    s.add(c == val)
                elif isinstance(val, str) and c.sort() == z3.StringSort():
                    s.add(c == z3.StringVal(val))
            if s.check() == z3.sat:
                return s.model()
        except Exception:
            return None
        return None

    def cover(self, name):
        """record that this point is reachable (vacuity guard)"""
        self.ex.covers.append(name)


def _range_guard(conjs, v):
    """from guard conjuncts over bound variable v extract (lo, hi) of lo <= v < hi"""
    lo = hi = None
    for c in conjs:
        neg = False
        if z3.is_not(c):
            neg, c = True, c.arg(0)
        if not (z3.is_le(c) or z3.is_ge(c) or z3.is_lt(c) or z3.is_gt(c)):
            return None
        x, y = c.arg(0), c.arg(1)
        # normalise to one of: v >= t, v < t
        kind = "le" if z3.is_le(c) else "ge" if z3.is_ge(c) else "lt" if z3.is_lt(c) else "gt"
        if neg:
            kind = {"le": "gt", "ge": "lt", "lt": "ge", "gt": "le"}[kind]
        if y.eq(v) and not x.eq(v):
            x, y = y, x
            kind = {"le": "ge", "ge": "le", "lt": "gt", "gt": "lt"}[kind]
        if not x.eq(v) or _has_var(y):
            return None
        if kind == "ge":
            lo = y
        elif kind == "gt":
            lo = y + 1
        elif kind == "lt":
            hi = y
        else:
            hi = y + 1
    if lo is None or hi is None:
        return None
    return lo, hi


def _expand_ranges(f, k, bounds):
    """replace ForAll j. (lo <= j < hi) -> B  by the conjunction of its instances at lo..lo+k-1 and
    record the side condition hi - lo <= k in `bounds` (under which the two are equivalent)."""
    if z3.is_quantifier(f):
        if f.is_forall() and f.num_vars() == 1:
            v = z3.Var(0, f.var_sort(0))
            body = f.body()
            guard = rest = None
            if z3.is_implies(body):
                guard, rest = body.arg(0), body.arg(1)
            elif z3.is_or(body):
                for idx, d in enumerate(body.children()):
                    if z3.is_not(d) and z3.is_and(d.arg(0)):
                        guard = d.arg(0)
                        others = [x for n, x in enumerate(body.children()) if n != idx]
                        rest = z3.Or(others) if len(others) != 1 else others[0]
                        break
            if guard is not None and z3.is_and(guard):
                rg = _range_guard(guard.children(), v)
                if rg is not None:
                    lo, hi = rg
                    bounds.append(hi - lo <= k)
                    insts = []
                    for d in range(k):
                        idx = lo + d
                        insts.append(z3.Implies(idx < hi, _expand_ranges(z3.substitute_vars(rest, idx), k, bounds)))
                    return z3.And(insts)
        return f
    if z3.is_app(f) and f.num_args() > 0 and z3.is_bool(f):
        kids = [_expand_ranges(c, k, bounds) if z3.is_bool(c) else c for c in f.children()]
        try:
            return f.decl()(*kids)
        except Exception:
            return f
    return f


def _has_var(t):
    if z3.is_var(t):
        return True
    return any(_has_var(c) for c in t.children())


def conjuncts(f):
    """top-level conjuncts of a formula (And flattened)"""
    out, work = [], [f]
    while work:
        x = work.pop()
        if z3.is_and(x):
            work.extend(x.children())
        else:
            out.append(x)
    return out


def dump_smt2(formulas):
    s = z3.Solver()
    s.add(formulas)
    return s.to_smt2()


def _nnf_light(f):
    """push negations through quantifiers so that Not(ForAll ..) in a negated goal is left alone
    (existential: a model may pick the witness) while positive ForAlls get expanded"""
    return f


def bounded_refutation(pc_raw, goal, timeout_ms, k=2):
    """counterexample search on a bounded instance (index ranges of size <= k); returns
    (solver name, model json) or None"""
    try:
        bounds = []
        fs = [_expand_ranges(p, k, bounds) for p in pc_raw]
        ng = _expand_ranges(z3.Not(goal), k, bounds)
        s = z3.Solver()
        s.set("timeout", timeout_ms)
        s.add(fs)
        s.add(ng)
        s.add(bounds)
        r = s.check()
        if r == z3.sat:
            return "z3(bounded-instance)", model_to_json(s.model()), s.model()
        if r == z3.unknown:
            from .solve import cvc5_check

            r2, _ = cvc5_check(dump_smt2(fs + [ng] + bounds), timeout_s=max(10, timeout_ms // 1000))
            if r2 == "sat":
                from .solve import LAST_MODEL

                return "cvc5(bounded-instance)", LAST_MODEL[0], None
    except Exception:
        return None
    return None


_sym_cache = {}


def symbols_of(t):
    """names of the uninterpreted constants / functions occurring in t"""
    k = t.get_id()
    got = _sym_cache.get(k)
    if got is not None:
        return got[1]
    out = set()
    work = [t]
    seen = set()
    while work:
        x = work.pop()
        i = x.get_id()
        if i in seen:
            continue
        seen.add(i)
        if z3.is_quantifier(x):
            work.append(x.body())
        elif z3.is_app(x):
            if x.decl().kind() == z3.Z3_OP_UNINTERPRETED:
                out.add(x.decl().name())
            work.extend(x.children())
    got = frozenset(out)
    _sym_cache[k] = (t, got)  # the term is kept alive: z3 reuses ids of collected terms
    return got


def cone_of_influence(formulas, term):
    """the formulas connected to `term` through shared symbols (transitively)"""
    want = set(symbols_of(term))
    syms = [symbols_of(f) for f in formulas]
    chosen = [False] * len(formulas)
    changed = True
    while changed:
        changed = False
        for i, ss in enumerate(syms):
            if not chosen[i] and ss & want:
                chosen[i] = True
                want |= ss
                changed = True
    return [f for f, c in zip(formulas, chosen) if c]


def abstract_lengths(formulas, term):
    """replace every Length(t) by a fresh non-negative Int constant (same constant for the same t):
    a relaxation used only to enumerate candidate values"""
    lens = {}
    work = list(formulas) + [term]
    seen = set()
    while work:
        x = work.pop()
        i = x.get_id()
        if i in seen:
            continue
        seen.add(i)
        if z3.is_quantifier(x):
            continue
        if z3.is_app(x):
            if x.decl().kind() == z3.Z3_OP_SEQ_LENGTH:
                lens[i] = x
            work.extend(x.children())
    if not lens:
        return list(formulas), term
    pairs = [(t, z3.Int(f"len!{n}")) for n, t in enumerate(lens.values())]
    out = [z3.substitute(f, *pairs) for f in formulas if not z3.is_quantifier(f)]
    out += [v >= 0 for _, v in pairs]
    return out, z3.substitute(term, *pairs)


_BOOL_CONNECTIVES = (z3.Z3_OP_AND, z3.Z3_OP_OR, z3.Z3_OP_NOT, z3.Z3_OP_IMPLIES, z3.Z3_OP_XOR)


def abstract_non_arith(f, memo, atoms):
    """boolean abstraction: atoms that are not pure Int/Bool arithmetic become fresh Bool constants
    (the same atom always the same constant).  A relaxation (more models), used for enumeration only."""
    k = f.get_id()
    if k in memo:
        return memo[k][1]
    if z3.is_quantifier(f):
        r = z3.Bool(f"atom!{len(atoms)}")
        atoms[k] = r
    elif z3.is_app(f) and z3.is_bool(f):
        dk = f.decl().kind()
        kids = f.children()
        if dk in _BOOL_CONNECTIVES or (dk in (z3.Z3_OP_ITE, z3.Z3_OP_EQ, z3.Z3_OP_DISTINCT) and kids and all(z3.is_bool(c) for c in kids)):
            r = f.decl()(*[abstract_non_arith(c, memo, atoms) for c in kids])
        elif dk == z3.Z3_OP_ITE:
            r = z3.If(abstract_non_arith(kids[0], memo, atoms), abstract_non_arith(kids[1], memo, atoms), abstract_non_arith(kids[2], memo, atoms))
        elif _is_arith_only(f):
            r = f
        else:
            r = z3.Bool(f"atom!{len(atoms)}")
            atoms[k] = r
    else:
        r = f
    memo[k] = (f, r)
    return r


_arith_cache = {}


def _is_arith_only(f):
    """formula over Int/Bool terms only, quantifier free"""
    k = f.get_id()
    if k in _arith_cache:
        return _arith_cache[k][1]
    ok = True
    work = [f]
    seen = set()
    while work:
        t = work.pop()
        i = t.get_id()
        if i in seen:
            continue
        seen.add(i)
        if z3.is_quantifier(t):
            ok = False
            break
        sk = t.sort().kind()
        if sk not in (z3.Z3_BOOL_SORT, z3.Z3_INT_SORT):
            ok = False
            break
        if z3.is_app(t) and t.decl().kind() == z3.Z3_OP_UNINTERPRETED and t.num_args() > 0:
            ok = False
            break
        work.extend(t.children())
    _arith_cache[k] = (f, ok)
    return ok


def model_to_json(m):
    out = {}
    for d in m.decls():
        try:
            v = m[d]
            if d.arity() == 0:
                out[d.name()] = val_to_py(v)
            else:
                out[d.name()] = str(v)[:400]
        except Exception as e:  # pragma: no cover
            out[d.name()] = f"<{e}>"
    return out


def val_to_py(v):
    if z3.is_int_value(v):
        return v.as_long()
    if z3.is_true(v):
        return True
    if z3.is_false(v):
        return False
    if z3.is_string_value(v):
        return v.as_string()
    return str(v)[:400]
