"""pyvc.builtins_model -- models of builtins and of methods of builtin types.

Every function modelled here is part of the trusted base ("Python semantics assumed by
the encoding"); the selftest cross-checks them against CPython on concrete inputs."""
from __future__ import annotations

import builtins
import collections
import struct
import sys
import types as pytypes

import z3

from .ctx import Unsupported
from .sym import *  # noqa: F401,F403
from .types import *  # noqa: F401,F403
from .interp import (
    NONE,
    RES_LIMIT,
    SGen,
    SIterable,
    SSlice,
    as_int,
    bytes_term,
    has_repo_dunder,
)
from . import ops


def to_str(I, v, repr_=False):
    v = I.unopt(v)
    if isinstance(v, SStr):
        if repr_:
            cs = concrete_str(v.t)
            if cs is not None:
                return SStr(repr(cs))
            return SStr(z3.Function("py_repr_str", StrS, StrS)(v.t))
        return v
    if isinstance(v, SBool):
        return SStr(z3.If(v.t, z3.StringVal("True"), z3.StringVal("False")))
    if isinstance(v, SInt):
        ci = concrete_int(v.t)
        if ci is not None:
            return SStr(str(ci))
        return SStr(z3.If(v.t >= 0, z3.IntToStr(v.t), z3.Concat(z3.StringVal("-"), z3.IntToStr(-v.t))))
    if isinstance(v, SNoneT):
        return SStr("None")
    if isinstance(v, SObj):
        for name in (["__repr__"] if repr_ else ["__str__", "__repr__"]):
            if any(has_repo_dunder(k, name) for k in v.cands):
                return I.call_method(v, name, [])
        return SStr(I.ctx.fresh("objstr", StrS))
    if isinstance(v, SFunc):
        return SStr(I.ctx.fresh("funcstr", StrS))
    if isinstance(v, (SFloat, STuple, SList, SDict, SSet, ZVal, SOpaque, LList, LDict, SBytes)):
        # textual form not modelled: an arbitrary string
        return SStr(I.ctx.fresh("strof", StrS))
    raise Unsupported(f"str() of {v!r}")


def isinstance_model(I, v, clsv):
    """z3 Bool / python bool for isinstance(v, cls)"""
    classes = []
    if isinstance(clsv, STuple):
        for x in clsv.items:
            if isinstance(x, STuple):
                classes.extend(y.live for y in x.items)
            else:
                classes.append(x.live)
    elif isinstance(clsv, SFunc):
        classes = [clsv.live]
    else:
        raise Unsupported("isinstance class argument")

    def is_a(pred):
        return any(pred(k) for k in classes)

    if isinstance(v, SBool):
        return is_a(lambda k: k in (bool, int, object))
    if isinstance(v, SInt):
        return is_a(lambda k: k in (int, object))
    if isinstance(v, SStr):
        return is_a(lambda k: k in (str, object))
    if isinstance(v, SFloat):
        return is_a(lambda k: k in (float, object))
    if isinstance(v, SComplex):
        return is_a(lambda k: k in (complex, object))
    if isinstance(v, SNoneT):
        return is_a(lambda k: k in (type(None), object))
    if isinstance(v, SBytes):
        return is_a(lambda k: k in ((bytearray, object) if v.mutable else (bytes, object)))
    if isinstance(v, STuple):
        cls = getattr(v, "cls", tuple)
        return is_a(lambda k: isinstance(k, type) and issubclass(cls, k))
    if isinstance(v, (SList, LList)) or getattr(v, "kind", None) == "mapped":
        return is_a(lambda k: k in (list, object) or k is collections.abc.Sequence)
    if isinstance(v, (SDict, LDict)):
        return is_a(lambda k: k in (dict, object))
    if isinstance(v, SSet):
        return is_a(lambda k: k in ((frozenset, object) if v.frozen else (set, object)))
    if isinstance(v, ZVal):
        if isinstance(v.ty, TSeq):
            return is_a(lambda k: k in ((list, object) if v.ty.mutable else (tuple, object)))
        if isinstance(v.ty, TMap):
            return is_a(lambda k: k in (dict, object))
        if isinstance(v.ty, TSet):
            return is_a(lambda k: k in (set, object))
    if isinstance(v, SObj):
        yes = [k for k in v.cands if any(isinstance(c, type) and issubclass(k, c) for c in classes)]
        no = [k for k in v.cands if k not in yes]
        if yes and no:
            if I.ctx.choose(2, "isinstance") == 0:
                v.cands = yes
                return True
            v.cands = no
            return False
        return bool(yes)
    if isinstance(v, SFunc):
        return is_a(lambda k: isinstance(k, type) and isinstance(v.live, k))
    if isinstance(v, SOpaque):
        key = ("isinstance", v.name, tuple(k.__name__ for k in classes))
        if key not in I.ctx.ghost:
            I.ctx.ghost[key] = I.ctx.fresh(f"isinstance({v.name},{key[2]})", BoolS)
        return I.ctx.branch(I.ctx.ghost[key])
    raise Unsupported(f"isinstance of {v!r}")


def length(I, v, node=None):
    if I.codec is not None:
        from .codec import SMapped, DictItems, SetItems

        if isinstance(v, ZVal) and isinstance(v.ty, TSet):
            return SInt(I.codec.generic_of(I.codec.set_items(v))[2])
        if isinstance(v, (SMapped, DictItems, SetItems)):
            return SInt(I.codec.generic_of(v)[2])
        if isinstance(v, LDict) or (isinstance(v, ZVal) and isinstance(v.ty, TMap)):
            return SInt(I.codec.generic_of(I.codec.dict_items(v, "items"))[2])
    if isinstance(v, (STuple, SList)):
        return SInt(len(v.items))
    if isinstance(v, SStr):
        return SInt(z3.Length(v.t))
    if isinstance(v, SBytes):
        return SInt(z3.Length(v.t))
    if isinstance(v, ZVal) and isinstance(v.ty, TSeq):
        return SInt(z3.Length(v.t))
    if isinstance(v, LList):
        return SInt(I.llist_len(v))
    if isinstance(v, SDict):
        # keys are pairwise distinct for literal dicts; symbolic keys may coincide
        return SInt(distinct_count(I, [k for k, _ in v.entries]))
    if isinstance(v, SSet):
        return SInt(distinct_count(I, v.items))
    if isinstance(v, ZVal) and isinstance(v.ty, (TMap, TSet)):
        key = ("len", id(v.cell), str(v.t))
        if key not in I.ctx.ghost:
            n = I.ctx.fresh("card", IntS)
            I.ctx.assume(n >= 0)
            if isinstance(v.ty, TSet):
                I.ctx.assume((n == 0) == (v.t == empty_term(v.ty)))
            I.ctx.ghost[key] = n
        return SInt(I.ctx.ghost[key])
    if isinstance(v, LDict):
        key = ("len", v.name, v.version)
        if key not in I.ctx.ghost:
            n = I.ctx.fresh(f"{v.name}.len", IntS)
            I.ctx.assume(n >= 0)
            I.ctx.ghost[key] = n
        return SInt(I.ctx.ghost[key])
    if isinstance(v, SObj):
        return I.call_method(v, "__len__", [])
    if isinstance(v, SIterable):
        items = v.concrete(I)
        if items is not None:
            return SInt(len(items))
        n, _ = v.symbolic(I)
        return SInt(n)
    raise Unsupported(f"len of {v!r}")


def distinct_count(I, items):
    if not items:
        return z3.IntVal(0)
    total = z3.IntVal(0)
    for i, x in enumerate(items):
        dup = z3.Or([I.eq(x, y) for y in items[:i]] + [z3.BoolVal(False)])
        total = total + z3.If(dup, 0, 1)
    return simp(total)


def to_list_items(I, v):
    items = I.try_iter_concrete(v)
    if items is None:
        raise Unsupported(f"concrete iteration needed over {v!r}")
    return items


def call_builtin(I, live, args, kwargs, node=None):
    c = I.ctx
    args = [I.unopt(a) for a in args]
    qn = f"{getattr(live, '__module__', '')}:{getattr(live, '__qualname__', getattr(live, '__name__', repr(live)))}"
    ov = I.overrides.get(qn)
    if ov is None:
        ov = I.overrides.get(getattr(live, "__qualname__", None) or getattr(live, "__name__", ""))
    if ov is not None:
        from .interp import PyExc as _PyExc

        try:
            r = ov(I, args, kwargs)
        except _PyExc as e:
            from .native import PyExcMarker

            from .native import make_native_exc

            native_exc = make_native_exc(e.cls, e.msg)
            I.override_log.append((qn, PyExcMarker(native_exc)))
            raise
        I.override_log.append((qn, r))
        return r
    if live is sys.exit:
        from .interp import PyExc

        o = I.new_object(SystemExit)
        o.fields["args"] = STuple(list(args))
        o.fields["code"] = args[0] if args else NONE
        raise PyExc(SystemExit, o, "sys.exit", f"line {getattr(node, 'lineno', '?')}")
    if live is sys.exc_info:
        e = I._inflight or I._active_exc
        if e is None:
            return STuple([NONE, NONE, NONE])
        return STuple([SFunc(e.cls), e.obj or NONE, SOpaque("traceback")])
    if live is builtins.ord:
        v = I.unopt(args[0])
        if isinstance(v, SStr):
            I.check_or_raise(z3.Length(v.t) == 1, TypeError, "ord() expected a character", node)
            return SInt(z3.StrToCode(v.t))
        raise Unsupported("ord() of a non-string")
    if live is len:
        return length(I, args[0], node)
    if live is isinstance:
        r = isinstance_model(I, args[0], args[1])
        return SBool(r) if isinstance(r, bool) else SBool(r)
    if live is bool:
        return SBool(I.truth(args[0])) if args else SBool(False)
    if live is int:
        if not args:
            return SInt(0)
        v = args[0]
        if isinstance(v, (SInt, SBool)):
            return SInt(as_int(v))
        if isinstance(v, SStr):
            t0 = simp(v.t)
            # int(str(n)) for an int n: the decimal text of n parses back to n (both signs)
            if z3.is_app(t0) and t0.decl().kind() == z3.Z3_OP_ITE and t0.num_args() == 3:
                cnd, a_, b_ = t0.arg(0), t0.arg(1), t0.arg(2)
                if z3.is_app(a_) and a_.decl().kind() == z3.Z3_OP_INT_TO_STR and str(cnd) == str(simp(a_.arg(0) >= 0)):
                    n_ = a_.arg(0)
                    if str(simp(b_)) == str(simp(z3.Concat(z3.StringVal("-"), z3.IntToStr(-n_)))):
                        return SInt(n_)
            if z3.is_app(t0) and t0.decl().kind() == z3.Z3_OP_INT_TO_STR and c.implied(t0.arg(0) >= 0):
                return SInt(t0.arg(0))
            ok = z3.And(z3.Length(v.t) > 0, z3.StrToInt(v.t) >= 0)
            # strings that are plain decimal digits are modelled exactly; anything else
            # (sign, spaces, underscores) is an arbitrary int or ValueError
            if c.branch(ok):
                return SInt(z3.StrToInt(v.t))
            flag = c.fresh("int_parse_ok", BoolS)
            I.check_or_raise(flag, ValueError, "invalid literal for int()", node)
            return SInt(c.fresh("int_parsed", IntS))
        if isinstance(v, SFloat):
            fn = z3.Function("py_f2i", FloatS, IntS)
            return SInt(fn(v.t))
        raise Unsupported(f"int() of {v!r}")
    if live is str:
        if not args:
            return SStr("")
        return to_str(I, args[0])
    if live is repr:
        return to_str(I, args[0], repr_=True)
    if live is float:
        v = args[0]
        if isinstance(v, SFloat):
            return v
        if isinstance(v, (SInt, SBool)):
            return SFloat(ops.to_float(I, v, node))
        raise Unsupported("float()")
    if live is abs:
        v = args[0]
        if isinstance(v, (SInt, SBool)):
            t = as_int(v)
            return SInt(z3.If(t >= 0, t, -t))
        raise Unsupported("abs")
    if live is tuple:
        if not args:
            return STuple([])
        v = args[0]
        if isinstance(v, STuple):
            return v
        items = I.try_iter_concrete(v)
        if items is not None:
            return STuple(items)
        if isinstance(v, ZVal) and isinstance(v.ty, TSeq):
            return ZVal(TSeq(v.ty.elem, mutable=False), Cell(v.t))
        if v.kind in ("llist", "mapped"):
            return v  # tuple(list) has the same elements (identity of the container is not modelled)
        raise Unsupported("tuple() of symbolic iterable")
    if live is list:
        if not args:
            return SList([])
        v = args[0]
        items = I.try_iter_concrete(v)
        if items is not None:
            return SList(items)
        if isinstance(v, ZVal) and isinstance(v.ty, TSeq):
            return ZVal(TSeq(v.ty.elem, mutable=True), Cell(v.t))
        if isinstance(v, ZVal) and isinstance(v.ty, TSet):
            return set_to_seq(I, v, "list")
        if v.kind in ("llist", "mapped"):
            return v
        if I.codec is not None and isinstance(v, SIterable) and v.what == "zip" and len(v.payload) == 2 \
                and all(getattr(x, "kind", None) == "mapped" for x in v.payload) and v.payload[0].src is v.payload[1].src:
            # list(zip([f(e) for e in xs], [g(e) for e in xs])) is [(f(e), g(e)) for e in xs]
            a, b = v.payload
            k_, elem, n_ = I.codec.generic_of(a.src)
            return I.codec.lift(a.src, elem, STuple([a.value, b.value]))
        raise Unsupported("list() of symbolic iterable")
    if live is set or live is frozenset:
        if not args:
            return SSet([], frozen=live is frozenset)
        v = args[0]
        items = I.try_iter_concrete(v)
        if items is not None:
            return SSet(items, frozen=live is frozenset)
        if isinstance(v, ZVal) and isinstance(v.ty, TSeq):
            x = z3.Const("set_of_x", v.ty.elem.sort())
            return ZVal(TSet(v.ty.elem), Cell(z3.Lambda([x], z3.Contains(v.t, z3.Unit(x)))))
        if isinstance(v, ZVal) and isinstance(v.ty, TSet):
            return ZVal(v.ty, Cell(v.t))
        if isinstance(v, ZVal) and isinstance(v.ty, TMap):
            # the key set of a map value is its `present` component
            return ZVal(TSet(v.ty.k), Cell(v.ty.parts()[2][0](v.t)))
        raise Unsupported("set() of symbolic iterable")
    if live is dict:
        if not args and not kwargs:
            return SDict([])
        if args and isinstance(args[0], SDict):
            return SDict(list(args[0].entries) + [(SStr(k), v) for k, v in kwargs.items()])
        if not args:
            return SDict([(SStr(k), v) for k, v in kwargs.items()])
        items = I.try_iter_concrete(args[0])
        if items is not None:
            return SDict([tuple(I.fixed_items(x, 2)) for x in items])
        raise Unsupported("dict() of symbolic")
    if live is collections.defaultdict:
        d = SDict([])
        f = args[0] if args else NONE
        if isinstance(f, SFunc):
            d.default = f.live
        elif isinstance(f, SNoneT):
            d.default = None
        else:
            d.default = lambda: (_ for _ in ()).throw(Unsupported("defaultdict with lambda factory"))
            d.default = f
        return d
    if live is range:
        vs = [v if isinstance(v, SInt) else SInt(as_int(v)) for v in args]
        if len(vs) == 1:
            vs = [SInt(0), vs[0], SInt(1)]
        elif len(vs) == 2:
            vs = [vs[0], vs[1], SInt(1)]
        return SIterable("range", vs)
    if live is enumerate:
        start = kwargs.get("start", args[1] if len(args) > 1 else SInt(0))
        return SIterable("enumerate", [args[0], start])
    if live is zip:
        return SIterable("zip", list(args))
    if live is reversed:
        return SIterable("reversed", args[0])
    if live is iter:
        return args[0]
    if live is sorted:
        return sorted_model(I, args[0], kwargs, node)
    if live is min or live is max:
        items = list(args) if len(args) > 1 else to_list_items(I, args[0])
        if not items:
            if "default" in kwargs:
                return kwargs["default"]
            I.raise_exc(ValueError, "min/max of empty", node)
        best = items[0]
        for x in items[1:]:
            if isinstance(best, (SInt, SBool)) and isinstance(x, (SInt, SBool)):
                a, b = as_int(best), as_int(x)
                best = SInt(z3.If(a <= b, a, b) if live is min else z3.If(a >= b, a, b))
            else:
                raise Unsupported("min/max of non-int")
        return best
    if live is sum:
        items = to_list_items(I, args[0])
        tot = as_int(args[1]) if len(args) > 1 else z3.IntVal(0)
        for x in items:
            tot = tot + as_int(x)
        return SInt(tot)
    if live is any or live is all:
        v = args[0]
        items = I.try_iter_concrete(v)
        if items is None and I.codec is not None:
            from .codec import SMapped

            if isinstance(v, SMapped):
                # any(p(e) for e in xs) over a collection of unknown length: an unknown boolean A
                # related to the canonical generic element:  p(generic) => A   (all: A => p(generic))
                k, elem, n = I.codec.generic_of(v)
                p = I.truth(elem)
                # the predicate does not depend on the element at all: the answer is known
                if z3.is_true(simp(p)) and live is all:
                    return SBool(z3.BoolVal(True))
                if z3.is_false(simp(p)) and live is any:
                    return SBool(z3.BoolVal(False))
                # the answer is a function of (collection, predicate): the same generator expression
                # over the same collection gives the same answer
                gkey = ("any_all", id(v.src), str(simp(p)), live is any)
                if gkey in c.ghost:
                    return SBool(c.ghost[gkey])
                A = c.fresh("any_all", BoolS)
                c.ghost[gkey] = A
                if live is any:
                    c.assume(z3.And(z3.Implies(z3.And(n > 0, p), A), z3.Implies(n == 0, z3.Not(A))))
                else:
                    c.assume(z3.And(z3.Implies(z3.And(n > 0, A), p), z3.Implies(n == 0, A)))
                return SBool(A)
        if items is None:
            raise Unsupported("any/all over symbolic iterable")
        for x in items:
            t = I.is_truthy(x)
            if live is any and t:
                return SBool(True)
            if live is all and not t:
                return SBool(False)
        return SBool(live is all)
    if live is hasattr:
        o, name = args
        nm = concrete_str(name.t)
        if isinstance(o, SObj) and nm is not None:
            if nm in o.fields:
                return SBool(True)
            import inspect

            return SBool(all(inspect.getattr_static(k, nm, None) is not None for k in o.cands))
        raise Unsupported("hasattr")
    if live is getattr:
        nm = concrete_str(args[1].t)
        if nm is None and isinstance(args[0], SFunc) and isinstance(args[0].live, type) and len(args) == 3:
            # attribute lookup on a class by a computed name: one case per attribute the class has
            for attr in sorted(set(dir(args[0].live))):
                if c.branch(args[1].t == z3.StringVal(attr)):
                    return I.getattr(args[0], attr, node)
            return args[2]
        if nm is None:
            raise Unsupported("getattr with symbolic name")
        if len(args) == 3:
            from .interp import PyExc

            try:
                return I.getattr(args[0], nm, node)
            except PyExc as e:
                if e.cls is AttributeError:
                    return args[2]
                raise
        return I.getattr(args[0], nm, node)
    if live is setattr:
        nm = concrete_str(args[1].t)
        if nm is None:
            raise Unsupported("setattr with symbolic name")
        I.setattr(args[0], nm, args[2], node)
        return NONE
    if live is print:
        return NONE
    if live is id:
        if isinstance(args[0], SObj):
            return SInt(args[0].addr)
        raise Unsupported("id()")
    if live is type:
        v = args[0]
        if isinstance(v, SObj) and len(v.cands) == 1:
            return SFunc(v.cands[0])
        prim = {SInt: int, SBool: bool, SStr: str, SFloat: float, SNoneT: type(None), STuple: tuple, SList: list, SDict: dict}
        if type(v) in prim:
            return SFunc(prim[type(v)])
        raise Unsupported("type()")
    if live is bytes or live is bytearray:
        mut = live is bytearray
        if not args:
            return SBytes(z3.Empty(BytesS), mut)
        v = args[0]
        if isinstance(v, SBytes):
            return SBytes(v.t, mut)
        raise Unsupported("bytes() argument")
    if live is memoryview:
        v = args[0]
        if isinstance(v, SBytes):
            # a memoryview of a bytearray sees the contents at creation time in the code under
            # analysis (it is consumed before the next mutation); modelled as a snapshot
            return SBytes(v.t, False)
        raise Unsupported("memoryview")
    if live is struct.unpack or live is struct.pack:
        fmt = concrete_str(args[0].t)
        if fmt != "!L":
            raise Unsupported(f"struct format {fmt}")
        if live is struct.pack:
            n = as_int(args[1])
            I.check_or_raise(z3.And(n >= 0, n < 2 ** 32), struct.error, "'L' format requires 0 <= number <= 4294967295", node)
            b3 = n / (256 ** 3)
            b2 = (n / (256 ** 2)) % 256
            b1 = (n / 256) % 256
            b0 = n % 256
            return SBytes(z3.Concat(z3.Unit(b3), z3.Unit(b2), z3.Unit(b1), z3.Unit(b0)))
        buf = args[1]
        if not isinstance(buf, SBytes):
            raise Unsupported("struct.unpack buffer")
        I.check_or_raise(z3.Length(buf.t) == 4, struct.error, "unpack requires a buffer of 4 bytes", node)
        t = buf.t
        val = t[0] * (256 ** 3) + t[1] * (256 ** 2) + t[2] * 256 + t[3]
        return STuple([SInt(val)])
    if qn == "typing:cast":
        return args[1]
    if live is builtins.hash:
        raise Unsupported("hash()")
    if getattr(live, "__qualname__", "") == "bytes.fromhex" and len(args) == 1 and isinstance(I.unopt(args[0]), SStr):
        # inverse of bytes.hex(): exact on the output of hex(), otherwise some bytes or ValueError
        t = simp(I.unopt(args[0]).t)
        if z3.is_app(t) and t.decl().name() == "py_bytes_hex":
            return SBytes(t.arg(0))
        ok = c.fresh("fromhex_ok", BoolS)
        I.check_or_raise(ok, ValueError, "non-hexadecimal number found in fromhex() arg", node)
        return SBytes(c.fresh("fromhex", BytesS))
    raise Unsupported(f"external function {qn}")


def set_to_seq(I, v, why):
    """an arbitrary enumeration of a symbolic set as a sequence (order unknown)"""
    c = I.ctx
    if I.codec is not None and why != "sorted":
        # the enumeration order of a set is not a function of its value (codec determinism rule)
        I.codec.order_events.append(("set-order", f"{why}(set)"))
    res = c.fresh(f"{why}_of_set", z3.SeqSort(v.ty.elem.sort()))
    x = z3.Const("enum_x", v.ty.elem.sort())
    c.assume(z3.ForAll([x], z3.Contains(res, z3.Unit(x)) == z3.Select(v.t, x)), definitional=True)
    if getattr(I, "accumulate_rules", False):
        # the same fact in index form (a consequence; saves the solver the nth => contains step).  Only for
        # targets that ask for it: every extra quantified assumption makes `sat` answers (needed to
        # report a refutation with a model) harder to obtain
        j = z3.Int(f"{why}_enum_j")
        c.assume(z3.ForAll([j], z3.Implies(z3.And(j >= 0, j < z3.Length(res)), z3.Select(v.t, res[j]))))
    return ZVal(TSeq(v.ty.elem), Cell(res))


def sorted_model(I, v, kwargs, node):
    c = I.ctx
    if I.codec is not None and (isinstance(v, LDict) or (isinstance(v, ZVal) and isinstance(v.ty, TMap))) and not kwargs:
        from .codec import SortedKeys

        return SortedKeys(v)
    if I.codec is not None and isinstance(v, ZVal) and isinstance(v.ty, TSet) and not kwargs:
        # sorted(set): a sequence with the same members (its order IS a function of the value)
        return set_to_seq(I, v, "sorted")
    items = I.try_iter_concrete(v)
    if items is not None:
        if "key" in kwargs or "reverse" in kwargs:
            raise Unsupported("sorted with key")
        vals = []
        for x in items:
            if isinstance(x, SStr) and concrete_str(x.t) is not None:
                vals.append(concrete_str(x.t))
            elif isinstance(x, (SInt,)) and concrete_int(x.t) is not None:
                vals.append(concrete_int(x.t))
            else:
                vals = None
                break
        if vals is not None:
            return SList([I.reflect(x) for x in sorted(vals)])
        if len(items) <= 1:
            return SList(items)
        raise Unsupported("sorted of symbolic elements")
    src = None
    if getattr(I, "forget_order_facts", False) and isinstance(v, ZVal) and isinstance(v.ty, (TSet, TSeq)) and not kwargs:
        # over-approximation requested by the target: an arbitrary sequence of the element type
        return ZVal(TSeq(v.ty.elem), Cell(c.fresh("sorted_any", z3.SeqSort(v.ty.elem.sort()))))
    if isinstance(v, ZVal) and isinstance(v.ty, TSet):
        ety = v.ty.elem
        res = c.fresh("sorted", z3.SeqSort(ety.sort()))
        x = z3.Const("sorted_x", ety.sort())
        c.assume(z3.ForAll([x], z3.Contains(res, z3.Unit(x)) == z3.Select(v.t, x)))
    elif isinstance(v, ZVal) and isinstance(v.ty, TSeq):
        ety = v.ty.elem
        res = c.fresh("sorted", z3.SeqSort(ety.sort()))
        x = z3.Const("sorted_x", ety.sort())
        c.assume(z3.ForAll([x], z3.Contains(res, z3.Unit(x)) == z3.Contains(v.t, z3.Unit(x))))
        c.assume(z3.Length(res) == z3.Length(v.t))
    else:
        raise Unsupported(f"sorted of {v!r}")
    if "key" in kwargs or "reverse" in kwargs:
        raise Unsupported("sorted with key over symbolic collection")
    i, j = z3.Ints("sorted_i sorted_j")
    if isinstance(ety, TInt):
        c.assume(z3.ForAll([i, j], z3.Implies(z3.And(0 <= i, i < j, j < z3.Length(res)), res[i] <= res[j])))
    elif isinstance(ety, TStr):
        c.assume(z3.ForAll([i, j], z3.Implies(z3.And(0 <= i, i < j, j < z3.Length(res)), res[i] <= res[j])))
    return ZVal(TSeq(ety), Cell(res))


# ----------------------------------------------------------------------------
# methods of builtin types


def call_method_model(I, recv, name, args, kwargs, node=None):
    c = I.ctx
    v = I.unopt(recv)
    if v.kind == "mappeddict" and name == "items" and not args:
        # {k: f(x) for k, x in d.items()}.items(): the pairs (k, f(x)) over the items of d
        from .codec import SMapped

        return SMapped(I.codec.dict_items(v.d, "items"), v.kv)
    if v.kind == "mapped" and name == "count":
        n = c.fresh("count", IntS)
        c.assume(z3.And(n >= 0, n <= I.codec.generic_of(v)[2]))
        return SInt(n)
    if isinstance(v, SStr) and name == "format":
        # formatted text is not modelled: an arbitrary string (used for log / diagnostic text only)
        return SStr(c.fresh("formatted", StrS))
    if isinstance(v, ZVal) or isinstance(v, SStr):
        args = [I.unopt(a) for a in args]
    if isinstance(v, SStr):
        return str_method(I, v, name, args, kwargs, node)
    if isinstance(v, SList):
        return list_method(I, v, name, args, kwargs, node)
    if isinstance(v, SDict):
        return dict_method(I, v, name, args, kwargs, node)
    if isinstance(v, SSet):
        return set_method(I, v, name, args, kwargs, node)
    if isinstance(v, ZVal):
        return zval_method(I, v, name, args, kwargs, node)
    if isinstance(v, LList):
        if name == "copy":
            return v  # element-wise copy: same elements (container identity is not modelled)
        if name == "count":
            n = c.fresh("count", IntS)
            c.assume(z3.And(n >= 0, n <= I.llist_len(v)))
            return SInt(n)
        if name == "append":
            if concrete_int(v.length) is None:
                # append after a lazy prefix: keep the appended tail separately
                v.appended.append(args[0])
            else:
                v.appended.append(args[0])
            return NONE
        raise Unsupported(f"lazy list method {name}")
    if isinstance(v, LDict):
        return ldict_method(I, v, name, args, kwargs, node)
    if isinstance(v, SBytes):
        return bytes_method(I, v, name, args, kwargs, node)
    if isinstance(v, STuple):
        if name == "index":
            for i, x in enumerate(v.items):
                if c.branch(I.eq(x, args[0])):
                    return SInt(i)
            I.raise_exc(ValueError, "tuple.index", node)
        if name == "count":
            return SInt(z3.Sum([z3.If(I.eq(x, args[0]), 1, 0) for x in v.items] + [z3.IntVal(0)]))
        if name == "_replace" and hasattr(v, "names"):
            items = list(v.items)
            for k, x in kwargs.items():
                items[v.names.index(k)] = x
            r = STuple(items)
            r.names, r.cls = v.names, v.cls
            return r
    if isinstance(v, (SInt, SBool)) and name == "bit_length":
        return SInt(bitlen_term(I, as_int(v)))
    if isinstance(v, SFloat) and name == "is_integer":
        return SBool(c.fresh("is_integer", BoolS))
    raise Unsupported(f"method {name} of {v!r}")


def bitlen_term(I, x):
    """int.bit_length(): uninterpreted with its basic facts"""
    b = UF_BITLEN(x)
    I.ctx.assume(z3.And(b >= 0, (b == 0) == (x == 0), z3.Implies(z3.Or(x >= 2, x <= -2), b >= 2), z3.Implies(z3.Or(x == 1, x == -1), b == 1)))
    return b


def str_method(I, v, name, args, kwargs, node):
    c = I.ctx
    t = v.t
    if name == "startswith":
        a = args[0]
        if isinstance(a, STuple):
            return SBool(z3.Or([z3.PrefixOf(x.t, t) for x in a.items]))
        return SBool(z3.PrefixOf(a.t, t))
    if name == "endswith":
        a = args[0]
        if isinstance(a, STuple):
            return SBool(z3.Or([z3.SuffixOf(x.t, t) for x in a.items]))
        return SBool(z3.SuffixOf(a.t, t))
    if name == "join":
        items = I.try_iter_concrete(args[0])
        if items is not None:
            if not items:
                return SStr("")
            parts = []
            for i, x in enumerate(items):
                if i:
                    parts.append(t)
                parts.append(x.t)
            return SStr(parts[0] if len(parts) == 1 else z3.Concat(*parts))
        # join over a symbolic sequence: uninterpreted, functional in (sep, seq)
        a = args[0]
        if isinstance(a, ZVal) and isinstance(a.ty, TSeq) and isinstance(a.ty.elem, TStr):
            fn = z3.Function("py_join", StrS, z3.SeqSort(StrS), StrS)
            return SStr(fn(t, a.t))
        if isinstance(a, ZVal) and isinstance(a.ty, TSet) and isinstance(a.ty.elem, TStr):
            # join over a set: the text depends on the iteration order -- an arbitrary string
            return SStr(c.fresh("joined_set", StrS))
        raise Unsupported("str.join over symbolic")
    if name == "find":
        return SInt(z3.IndexOf(t, args[0].t, as_int(args[1]) if len(args) > 1 else z3.IntVal(0)))
    if name == "rfind":
        fn = z3.Function("py_rfind", StrS, StrS, IntS)
        r = fn(t, args[0].t)
        # axioms: -1 iff not contained; otherwise a valid occurrence index and no later one
        sub = args[0].t
        c.assume(z3.If(z3.Contains(t, sub), z3.And(r >= 0, r + z3.Length(sub) <= z3.Length(t), z3.SubString(t, r, z3.Length(sub)) == sub), r == -1))
        return SInt(r)
    if name == "index":
        r = z3.IndexOf(t, args[0].t, z3.IntVal(0))
        I.check_or_raise(r >= 0, ValueError, "substring not found", node)
        return SInt(r)
    if name == "replace":
        cs, a0, a1 = concrete_str(t), concrete_str(args[0].t), concrete_str(args[1].t)
        if cs is not None and a0 is not None and a1 is not None:
            return SStr(cs.replace(a0, a1))
        fn = z3.Function("py_replace_all", StrS, StrS, StrS, StrS)
        return SStr(fn(t, args[0].t, args[1].t))
    if name in ("strip", "lstrip", "rstrip", "lower", "upper", "title", "capitalize", "casefold", "expandtabs"):
        cs = concrete_str(t)
        if cs is not None and not args:
            return SStr(getattr(cs, name)())
        fn = z3.Function(f"py_str_{name}", StrS, StrS)
        return SStr(fn(t))
    if name in ("isdigit", "isidentifier", "isalpha", "isalnum", "isspace", "isupper", "islower", "isdecimal", "isnumeric"):
        cs = concrete_str(t)
        if cs is not None:
            return SBool(getattr(cs, name)())
        fn = z3.Function(f"py_str_{name}", StrS, BoolS)
        return SBool(fn(t))
    if name in ("split", "rsplit", "splitlines", "partition", "rpartition"):
        cs = concrete_str(t)
        cargs = [concrete_str(a.t) if isinstance(a, SStr) else concrete_int(a.t) if isinstance(a, SInt) else None for a in args]
        if cs is not None and None not in cargs and not kwargs:
            return I.reflect(getattr(cs, name)(*cargs))
        if "maxsplit" in kwargs and len(args) == 1:
            args = list(args) + [kwargs["maxsplit"]]
            kwargs = {k_: v_ for k_, v_ in kwargs.items() if k_ != "maxsplit"}
        if name == "rsplit" and len(args) == 2 and concrete_int(as_int(args[1])) in (2, 3):
            # k right-most splits: k applications of the last-occurrence split
            sep = args[0].t
            fn = z3.Function("py_rfind", StrS, StrS, IntS)
            cur, parts = t, []
            for _ in range(concrete_int(as_int(args[1]))):
                r = fn(cur, sep)
                c.assume(z3.If(z3.Contains(cur, sep),
                               z3.And(r >= 0, r + z3.Length(sep) <= z3.Length(cur), z3.SubString(cur, r, z3.Length(sep)) == sep,
                                      z3.Not(z3.Contains(z3.SubString(cur, r + 1, z3.Length(cur) - r - 1), sep))),
                               r == -1))
                if not c.branch(r >= 0):
                    break
                parts.insert(0, SStr(z3.SubString(cur, r + z3.Length(sep), z3.Length(cur))))
                cur = z3.SubString(cur, 0, r)
            parts.insert(0, SStr(cur))
            return SList(parts)
        if name == "rsplit" and len(args) == 2 and concrete_int(as_int(args[1])) == 1:
            sep = args[0].t
            fn = z3.Function("py_rfind", StrS, StrS, IntS)
            r = fn(t, sep)
            # r is the LAST occurrence of sep (or -1)
            c.assume(z3.If(z3.Contains(t, sep),
                           z3.And(r >= 0, r + z3.Length(sep) <= z3.Length(t), z3.SubString(t, r, z3.Length(sep)) == sep,
                                  z3.Not(z3.Contains(z3.SubString(t, r + 1, z3.Length(t) - r - 1), sep))),
                           r == -1))
            if c.branch(r >= 0):
                return SList([SStr(z3.SubString(t, 0, r)), SStr(z3.SubString(t, r + z3.Length(sep), z3.Length(t)))])
            return SList([v])
        if name == "split" and len(args) == 2 and concrete_int(as_int(args[1])) == 1:
            sep = args[0].t
            r = z3.IndexOf(t, sep, z3.IntVal(0))
            if c.branch(r >= 0):
                return SList([SStr(z3.SubString(t, 0, r)), SStr(z3.SubString(t, r + z3.Length(sep), z3.Length(t)))])
            return SList([v])
        if name == "split":
            sp = z3.Function("py_split", StrS, StrS, z3.SeqSort(StrS))(t, args[0].t if args else z3.StringVal(" "))
            if args:
                sep = args[0].t
                # facts: at least one piece; the first piece is the text before the first separator
                first = z3.If(z3.Contains(t, sep), z3.SubString(t, 0, z3.IndexOf(t, sep, 0)), t)
                c.assume(z3.And(z3.Length(sp) >= 1, sp[0] == first))
            return ZVal(TSeq(TStr()), Cell(sp))
        raise Unsupported(f"str.{name} on symbolic string")
    if name == "format":
        # formatted text is not modelled: an arbitrary string (used for log / diagnostic text only)
        return SStr(c.fresh("formatted", StrS))
    if name == "encode":
        fn = z3.Function("py_utf8_encode", StrS, BytesS)
        return SBytes(fn(t))
    if name == "count":
        fn = z3.Function("py_str_count", StrS, StrS, IntS)
        return SInt(fn(t, args[0].t))
    if name == "removeprefix":
        p = args[0].t
        return SStr(z3.If(z3.PrefixOf(p, t), z3.SubString(t, z3.Length(p), z3.Length(t)), t))
    if name == "removesuffix":
        p = args[0].t
        return SStr(z3.If(z3.And(z3.SuffixOf(p, t), z3.Length(p) > 0), z3.SubString(t, 0, z3.Length(t) - z3.Length(p)), t))
    raise Unsupported(f"str.{name}")


def bytes_method(I, v, name, args, kwargs, node):
    if name == "decode":
        fn = z3.Function("py_utf8_decode", BytesS, StrS)
        ok = z3.Function("py_utf8_valid", BytesS, BoolS)
        I.check_or_raise(ok(v.t), UnicodeDecodeError, "invalid utf-8", node)
        return SStr(fn(v.t))
    if name == "extend" and v.mutable:
        a = args[0]
        if not isinstance(a, SBytes):
            raise Unsupported("bytearray.extend argument")
        v.cell[0] = z3.Concat(v.t, a.t)
        return NONE
    if name == "startswith":
        return SBool(z3.PrefixOf(args[0].t, v.t))
    if name == "hex":
        return SStr(z3.Function("py_bytes_hex", BytesS, StrS)(v.t))
    raise Unsupported(f"bytes.{name}")


def list_method(I, v, name, args, kwargs, node):
    c = I.ctx
    if name == "append":
        v.items.append(args[0])
        return NONE
    if name == "extend":
        v.items.extend(to_list_items(I, args[0]))
        return NONE
    if name == "insert":
        i = c.concretize(as_int(args[0]), what="insert index")
        v.items.insert(i, args[1])
        return NONE
    if name == "pop":
        if not v.items:
            I.raise_exc(IndexError, "pop from empty list", node)
        if args:
            i = c.concretize(as_int(args[0]), what="pop index")
            return v.items.pop(i)
        return v.items.pop()
    if name == "copy":
        return SList(v.items)
    if name == "clear":
        v.items.clear()
        return NONE
    if name == "reverse":
        v.items.reverse()
        return NONE
    if name == "index":
        for i, x in enumerate(v.items):
            if c.branch(I.eq(x, args[0])):
                return SInt(i)
        I.raise_exc(ValueError, "list.index", node)
    if name == "remove":
        for i, x in enumerate(v.items):
            if c.branch(I.eq(x, args[0])):
                del v.items[i]
                return NONE
        I.raise_exc(ValueError, "list.remove", node)
    if name == "count":
        return SInt(z3.Sum([z3.If(I.eq(x, args[0]), 1, 0) for x in v.items] + [z3.IntVal(0)]))
    if name == "sort":
        r = sorted_model(I, v, kwargs, node)
        v.items = list(r.items)
        return NONE
    raise Unsupported(f"list.{name}")


def dict_method(I, v, name, args, kwargs, node):
    c = I.ctx
    if name == "get":
        k = args[0]
        for kk, vv in v.entries:
            if is_true(I.eq(kk, k)):
                return vv
        for kk, vv in v.entries:
            if c.branch(I.eq(kk, k)):
                return vv
        return args[1] if len(args) > 1 else NONE
    if name in ("keys", "values", "items"):
        return SIterable(name, v)
    if name == "setdefault":
        k = args[0]
        for kk, vv in v.entries:
            if c.branch(I.eq(kk, k)):
                return vv
        d = args[1] if len(args) > 1 else NONE
        v.entries.append((k, d))
        return d
    if name == "pop":
        k = args[0]
        for j, (kk, vv) in enumerate(v.entries):
            if c.branch(I.eq(kk, k)):
                del v.entries[j]
                return vv
        if len(args) > 1:
            return args[1]
        I.raise_exc(KeyError, "pop", node)
    if name == "update":
        if args:
            o = args[0]
            if not isinstance(o, SDict):
                raise Unsupported("dict.update with symbolic mapping")
            for k, x in o.entries:
                ops.store_subscript(I, v, k, x, node)
        for k, x in kwargs.items():
            ops.store_subscript(I, v, SStr(k), x, node)
        return NONE
    if name == "copy":
        d = SDict(list(v.entries))
        d.default = v.default
        return d
    if name == "clear":
        v.entries.clear()
        return NONE
    raise Unsupported(f"dict.{name}")


def set_method(I, v, name, args, kwargs, node):
    c = I.ctx
    if name == "add":
        v.items.append(args[0])
        return NONE
    if name == "update":
        for a in args:
            v.items.extend(to_list_items(I, a))
        return NONE
    if name in ("discard", "remove"):
        x = args[0]
        found = I.contains(v, x)
        if name == "remove":
            I.check_or_raise(found, KeyError, "set.remove", node)
        # remove every element equal to x: requires deciding equality per element
        keep = []
        for e in v.items:
            if not c.branch(I.eq(e, x)):
                keep.append(e)
        v.items = keep
        return NONE
    if name == "copy":
        return SSet(v.items, v.frozen)
    if name in ("issubset",):
        return SBool(I.subset(v, args[0]))
    if name == "union":
        items = list(v.items)
        for a in args:
            items.extend(to_list_items(I, a))
        return SSet(items)
    if name == "clear":
        v.items.clear()
        return NONE
    raise Unsupported(f"set.{name}")


def zval_method(I, v, name, args, kwargs, node):
    c = I.ctx
    ty = v.ty
    if isinstance(ty, TSeq):
        if name == "append":
            v.cell.set(z3.Concat(v.t, z3.Unit(unwrap(ty.elem, args[0]))))
            return NONE
        if name == "extend":
            v.cell.set(z3.Concat(v.t, unwrap(ty, args[0])))
            return NONE
        if name == "copy":
            return ZVal(ty, Cell(v.t))
        if name == "index":
            r = z3.IndexOf(v.t, z3.Unit(unwrap(ty.elem, args[0])), z3.IntVal(0))
            I.check_or_raise(r >= 0, ValueError, "list.index", node)
            return SInt(r)
        if name == "pop" and len(args) == 1 and concrete_int(as_int(args[0])) == -1:
            args = []
        if name == "pop" and not args:
            n = z3.Length(v.t)
            I.check_or_raise(n > 0, IndexError, "pop from empty list", node)
            last = v.t[n - 1]
            v.cell.set(z3.Extract(v.t, z3.IntVal(0), n - 1))
            return wrap(ty.elem, last)
        if name == "clear":
            v.cell.set(empty_term(ty))
            return NONE
    if isinstance(ty, TSet):
        if name == "add":
            v.cell.set(z3.Store(v.t, unwrap(ty.elem, I.key_of(ty, args[0])), z3.BoolVal(True)))
            return NONE
        if name in ("discard", "remove"):
            k = unwrap(ty.elem, I.key_of(ty, args[0]))
            if name == "remove":
                I.check_or_raise(z3.Select(v.t, k), KeyError, "set.remove", node)
            v.cell.set(z3.Store(v.t, k, z3.BoolVal(False)))
            return NONE
        if name == "copy":
            return ZVal(ty, Cell(v.t))
        if name == "update":
            for a in args:
                other = unwrap(ty, a)
                k = z3.Const("upd_k", ty.elem.sort())
                v.cell.set(z3.Lambda([k], z3.Or(z3.Select(v.t, k), z3.Select(other, k))))
            return NONE
        if name == "clear":
            v.cell.set(empty_term(ty))
            return NONE
    if isinstance(ty, TMap):
        s, mk, accs = ty.parts()
        if name == "get":
            kt = unwrap(ty.k, args[0])
            if len(args) == 1 and isinstance(ty.v, (TInt, TStr, TBool)):
                # scalar value, default None: no fork
                return SOpt(z3.Not(z3.Select(accs[0](v.t), kt)), ops.map_value(ty, v, kt))
            if c.branch(z3.Select(accs[0](v.t), kt)):
                return ops.map_value(ty, v, kt)
            return args[1] if len(args) > 1 else NONE
        if name in ("keys", "values", "items"):
            return SIterable(name, v)
        if name == "update" and len(args) == 1 and isinstance(args[0], ZVal) and isinstance(args[0].ty, TMap) and args[0].ty.sort() == ty.sort():
            # d.update(e): keys of e override, every other key keeps its entry
            o = args[0].t
            k = z3.Const("upd_key", ty.k.sort())
            pres = z3.Lambda([k], z3.Or(z3.Select(accs[0](v.t), k), z3.Select(accs[0](o), k)))
            vals = z3.Lambda([k], z3.If(z3.Select(accs[0](o), k), z3.Select(accs[1](o), k), z3.Select(accs[1](v.t), k)))
            v.cell.set(mk(pres, vals))
            return NONE
        if name == "pop":
            kt = unwrap(ty.k, args[0])
            if c.branch(z3.Select(accs[0](v.t), kt)):
                old = wrap(ty.v, z3.Select(accs[1](v.t), kt))
                v.cell.set(mk(z3.Store(accs[0](v.t), kt, z3.BoolVal(False)), accs[1](v.t)))
                return old
            if len(args) > 1:
                return args[1]
            I.raise_exc(KeyError, "pop", node)
        if name == "setdefault":
            kt = unwrap(ty.k, args[0])
            if not c.branch(z3.Select(accs[0](v.t), kt)):
                ops.store_subscript(I, v, args[0], args[1], node)
            return ops.map_value(ty, v, kt)
        if name == "copy":
            return ZVal(ty, Cell(v.t))
        if name == "clear":
            v.cell.set(empty_term(ty))
            return NONE
    raise Unsupported(f"{ty}.{name}")


def ldict_method(I, v, name, args, kwargs, node):
    c = I.ctx
    if name in ("keys", "values", "items"):
        return SIterable(name, v)
    if name == "get":
        ent = I.ldict_entry(v, args[0])
        if c.branch(ent[1]):
            return I.ldict_value(v, ent)
        return args[1] if len(args) > 1 else NONE
    if name == "pop":
        ent = I.ldict_entry(v, args[0])
        if c.branch(ent[1]):
            r = I.ldict_value(v, ent)
            ent[1] = z3.BoolVal(False)
            v.version += 1
            return r
        if len(args) > 1:
            return args[1]
        I.raise_exc(KeyError, "pop", node)
    if name == "setdefault":
        ent = I.ldict_entry(v, args[0])
        if not c.branch(ent[1]):
            ent[1] = z3.BoolVal(True)
            ent[2] = args[1]
            v.version += 1
        return I.ldict_value(v, ent)
    if name == "add" and isinstance(v.vty, TBool):
        # a lazy dict with boolean values doubles as a lazily initialised set of impure elements
        ent = I.ldict_entry(v, args[0])
        ent[1] = z3.BoolVal(True)
        ent[2] = SBool(z3.BoolVal(True))
        v.version += 1
        return NONE
    raise Unsupported(f"lazy dict method {name}")


def del_item(I, base, key, node):
    c = I.ctx
    if isinstance(base, SList) and isinstance(key, (SInt, SBool)):
        n = len(base.items)
        t = as_int(key)
        ci = concrete_int(simp(t))
        if ci is None:
            ci = c.concretize(z3.If(t >= 0, t, t + n), what="list index")
        elif ci < 0:
            ci += n
        if not (0 <= ci < n):
            I.raise_exc(IndexError, "list assignment index out of range", node)
        del base.items[ci]
        return
    if isinstance(base, SDict):
        for j, (kk, vv) in enumerate(base.entries):
            if c.branch(I.eq(kk, key)):
                del base.entries[j]
                return
        I.raise_exc(KeyError, "del", node)
    if isinstance(base, ZVal) and isinstance(base.ty, TMap):
        s, mk, accs = base.ty.parts()
        kt = unwrap(base.ty.k, key)
        I.check_or_raise(z3.Select(accs[0](base.t), kt), KeyError, "del", node)
        base.cell.set(mk(z3.Store(accs[0](base.t), kt, z3.BoolVal(False)), accs[1](base.t)))
        return
    if isinstance(base, LDict):
        ent = I.ldict_entry(base, key)
        I.check_or_raise(ent[1], KeyError, "del", node)
        ent[1] = z3.BoolVal(False)
        base.version += 1
        return
    raise Unsupported(f"del item of {base!r}")
