"""entry point: python -m pyvc.main <PROPERTY> [--tier quick|thorough] [--only regex] [--replay file]"""
from __future__ import annotations

import argparse
import importlib
import json
import os
import sys

from .runner import check_property


def main(argv=None):
    ap = argparse.ArgumentParser()
    ap.add_argument("prop")
    ap.add_argument("--tier", default=os.environ.get("VERIF_TIER", "quick"))
    ap.add_argument("--only", default=None)
    ap.add_argument("--replay", default=None)
    a = ap.parse_args(argv)
    sys.setrecursionlimit(10000)
    sys.set_int_max_str_digits(0)
    mod = importlib.import_module(f"props.{a.prop}")
    if a.replay:
        rp = json.load(open(a.replay))
        spec = mod.build(a.tier)
        tgt = [t for t in spec["targets"] if t.id == rp["target"]]
        if not tgt or getattr(tgt[0], "replay", None) is None:
            print("no native replayer for this target; obligation:", rp["obligation"], "model:", rp.get("model"))
            return 0
        out = tgt[0].replay({"model": rp.get("model"), "name": rp["obligation"], "where": rp.get("where")})
        print(json.dumps(out, indent=1, default=str))
        return 1 if out.get("confirmed") else 0
    spec = mod.build(a.tier)
    targets = spec.pop("targets")
    if a.tier == "thorough":
        # second solver on every sequence / string query as well (quick tier: quantified queries only)
        os.environ["PYVC_CONFIRM"] = "seq"
        # deeper exploration of the same obligations: larger solver budgets (fewer undecided under
        # load), one more unrolling of every bounded target, all flag counts of the flags lemma
        for t in targets:
            if hasattr(t, "oblig_timeout_ms"):
                t.oblig_timeout_ms = int(t.oblig_timeout_ms * 3)
            if hasattr(t, "timeout"):
                t.timeout = int(t.timeout * 3)
            if getattr(t, "unroll", None):
                t.unroll += 1
                if getattr(t, "bounded", None):
                    t.bounded += " (+1 in the thorough tier)"
    return check_property(a.prop, targets, tier=a.tier, only=a.only, **spec)


if __name__ == "__main__":
    sys.exit(main())
