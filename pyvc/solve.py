"""pyvc.solve -- second back end: cvc5 CLI on SMT-LIB dumps."""
from __future__ import annotations

import os
import re
import subprocess
import tempfile
import time

CVC5 = "/usr/bin/cvc5"


def parse_cvc5_model(text):
    """{name: python value} for Int / Bool / String constants of a cvc5 (get-model) answer"""
    out = {}
    for m in re.finditer(r"\(define-fun (\|[^|]*\||\S+) \(\) (\S+|\([^()]*\)) (.*)\)\s*$", text, re.M):
        name, sort, val = m.group(1).strip("|"), m.group(2), m.group(3).strip()
        if sort == "Int":
            mm = re.fullmatch(r"\(- (\d+)\)", val)
            try:
                out[name] = -int(mm.group(1)) if mm else int(val)
            except ValueError:
                out[name] = val
        elif sort == "Bool":
            out[name] = val == "true"
        elif sort == "String":
            out[name] = val[1:-1].replace('""', '"') if val.startswith('"') else val
        elif sort.startswith("(_ BitVec") and re.fullmatch(r"#[xb][0-9a-fA-F]+", val):
            w = int(sort.split()[-1].rstrip(")"))
            v = int(val[2:], 16 if val[1] == "x" else 2)
            out[name] = v - (1 << w) if v >> (w - 1) else v
        else:
            out[name] = val[:300]
    return out


LAST_MODEL = [None]


def cvc5_check(smt2_text, timeout_s=10, want_model=True):
    """returns ('sat'|'unsat'|'unknown', seconds); the model of a sat answer is left in LAST_MODEL[0]"""
    if not os.path.exists(CVC5):
        return "unknown", 0.0
    text = smt2_text
    # z3's dump has no set-logic; cvc5 wants one
    if "(set-logic" not in text:
        text = "(set-logic ALL)\n" + text
    text = re.sub(r"\(set-info [^\n]*\)\n", "", text)
    if "(check-sat)" not in text:
        text += "\n(check-sat)\n"
    if want_model:
        text = "(set-option :produce-models true)\n" + text + "\n(get-model)\n"
    LAST_MODEL[0] = None
    t0 = time.time()
    with tempfile.NamedTemporaryFile("w", suffix=".smt2", delete=False) as f:
        f.write(text)
        path = f.name
    try:
        p = subprocess.run(
            [CVC5, "--strings-exp", f"--tlimit={int(timeout_s * 1000)}", path],
            capture_output=True,
            text=True,
            timeout=timeout_s + 5,
        )
        out = p.stdout.strip().splitlines()
        r = out[0].strip() if out else "unknown"
        if r not in ("sat", "unsat"):
            r = "unknown"
        if r == "sat" and want_model:
            try:
                LAST_MODEL[0] = parse_cvc5_model(p.stdout)
            except Exception:
                LAST_MODEL[0] = None
    except subprocess.TimeoutExpired:
        r = "unknown"
    finally:
        os.unlink(path)
    return r, time.time() - t0


# ---------------------------------------------------------------------------------------------
# Independent confirmation of `unsat`.
#
# z3 5.1.0 (the z3-solver wheel) was observed to answer `unsat` on a SATISFIABLE query of this engine
# (quantified axioms over sequences and arrays; `sat` with a validated model under one random seed,
# `unsat` under others -- DESIGN.md section 7).  An `unsat` from it is therefore only believed for
# quantifier-free queries.  A query with quantifiers (or lambdas) must be confirmed `unsat` by an
# independent solver: the system z3 4.8.12 (/usr/bin/z3, a different code base version) or cvc5.

OLD_Z3 = "/usr/bin/z3"
_quant_cache = {}


def has_quantifier(f):
    import z3

    work, seen = [f], set()
    while work:
        x = work.pop()
        i = x.get_id()
        if i in seen:
            continue
        seen.add(i)
        if i in _quant_cache:
            if _quant_cache[i]:
                return True
            continue
        if z3.is_quantifier(x):
            _quant_cache[f.get_id()] = True
            return True
        if z3.is_app(x):
            work.extend(x.children())
    _quant_cache[f.get_id()] = False
    return False


_seq_cache = {}


def mentions_seq(f):
    """does the formula contain a term of a sequence / string sort"""
    import z3

    if f.get_id() in _seq_cache:
        return _seq_cache[f.get_id()]
    work, seen, found = [f], set(), False
    while work and not found:
        x = work.pop()
        i = x.get_id()
        if i in seen:
            continue
        seen.add(i)
        try:
            if x.sort().kind() == z3.Z3_SEQ_SORT:
                found = True
                break
        except Exception:
            pass
        if z3.is_quantifier(x):
            work.append(x.body())
        elif z3.is_app(x):
            work.extend(x.children())
    _seq_cache[f.get_id()] = found
    return found


def any_quantifier(formulas):
    """queries whose `unsat` from z3 5.1.0 needs independent confirmation: quantified ones always; in the
    thorough tier (PYVC_CONFIRM=seq) also every query over sequences / strings"""
    if any(has_quantifier(f) for f in formulas):
        return True
    if os.environ.get("PYVC_CONFIRM") == "seq":
        return any(mentions_seq(f) for f in formulas)
    return False


def old_z3_check(smt2_text, timeout_s=20):
    """('sat'|'unsat'|'unknown', secs) from the system z3 4.8.12"""
    if not os.path.exists(OLD_Z3):
        return "unknown", 0.0
    text = re.sub(r"\(set-info [^\n]*\)\n", "", smt2_text)
    if "(check-sat)" not in text:
        text += "\n(check-sat)\n"
    t0 = time.time()
    with tempfile.NamedTemporaryFile("w", suffix=".smt2", delete=False) as f:
        f.write(text)
        path = f.name
    try:
        p = subprocess.run([OLD_Z3, f"-T:{int(timeout_s)}", path], capture_output=True, text=True, timeout=timeout_s + 10)
        out = p.stdout.strip().splitlines()
        r = out[0].strip() if out else "unknown"
        if r not in ("sat", "unsat"):
            r = "unknown"
    except subprocess.TimeoutExpired:
        r = "unknown"
    finally:
        os.unlink(path)
    return r, time.time() - t0


def confirm_unsat(smt2_text, budget_s=30):
    """-> (confirmed: bool, by: str, disagreement: bool)"""
    r, _ = old_z3_check(smt2_text, timeout_s=budget_s)
    if r == "unsat":
        return True, "z3-4.8.12", False
    if r == "sat":
        return False, "z3-4.8.12", True
    r2, _ = cvc5_check(smt2_text, timeout_s=budget_s, want_model=False)
    if r2 == "unsat":
        return True, "cvc5", False
    return False, "none", r2 == "sat"
