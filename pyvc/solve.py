"""pyvc.solve -- second back end: cvc5 CLI on SMT-LIB dumps."""
from __future__ import annotations

import os
import re
import subprocess
import tempfile
import time

CVC5 = "/usr/bin/cvc5"


def cvc5_check(smt2_text, timeout_s=10, want_model=False):
    """returns ('sat'|'unsat'|'unknown', seconds)"""
    if not os.path.exists(CVC5):
        return "unknown", 0.0
    text = smt2_text
    # z3's dump has no set-logic; cvc5 wants one
    if "(set-logic" not in text:
        text = "(set-logic ALL)\n" + text
    text = re.sub(r"\(set-info [^\n]*\)\n", "", text)
    if "(check-sat)" not in text:
        text += "\n(check-sat)\n"
    t0 = time.time()
    with tempfile.NamedTemporaryFile("w", suffix=".smt2", delete=False) as f:
        f.write(text)
        path = f.name
    try:
        p = subprocess.run(
            [CVC5, "--strings-exp", f"--tlimit={int(timeout_s * 1000)}", path],
            capture_output=True,
            text=True,
            timeout=timeout_s + 5,
        )
        out = p.stdout.strip().splitlines()
        r = out[0].strip() if out else "unknown"
        if r not in ("sat", "unsat"):
            r = "unknown"
    except subprocess.TimeoutExpired:
        r = "unknown"
    finally:
        os.unlink(path)
    return r, time.time() - t0
