"""pyvc.interp -- symbolic interpreter for the Python subset, over the real source AST.

The function bodies executed here are parsed from the files the live modules were
imported from (i.e. $VERIF_REPO); module-level constants, classes and import bindings
are taken by reflection from the live modules (CPython itself evaluated them).
"""
from __future__ import annotations

import ast
import builtins
import collections
import enum
import hashlib
import importlib
import inspect
import os
import sys
import types as pytypes

import z3

from .ctx import Ctx, Infeasible, MergeAbort, PathEnd, Unsupported
from .sym import *  # noqa: F401,F403
from .types import *  # noqa: F401,F403
from . import types as T

RES_LIMIT = 10 ** 7  # resource bound (bits / elements) used for "no hang" obligations


class PyExc(Exception):
    """an exception of the interpreted program"""

    def __init__(self, cls, obj=None, msg="", where=""):
        self.cls = cls
        self.obj = obj
        self.msg = msg
        self.where = where

    def __str__(self):
        return f"{self.cls.__name__}({self.msg}) at {self.where}"


class ReturnSig(Exception):
    def __init__(self, value):
        self.value = value


class CutReached(Exception):
    """execution of the target function reached the contract's cut point"""

    def __init__(self, frame):
        self.frame = frame


class BreakSig(Exception):
    pass


class ContinueSig(Exception):
    pass


class ResourceExhausted(MemoryError):
    """stand-in exception class for 'result too large / does not terminate in reasonable time'"""


# ----------------------------------------------------------------------------
# source index

_index_cache = {}


class ModIndex:
    def __init__(self, live_mod):
        self.live = live_mod
        self.path = live_mod.__file__
        with open(self.path, "rb") as f:
            data = f.read()
        self.sha = hashlib.sha256(data).hexdigest()
        self.tree = ast.parse(data)
        self.defs = {}
        self.by_line = {}
        self.classes = {}
        self._walk(self.tree.body, "")

    def _walk(self, body, prefix):
        for node in body:
            if isinstance(node, (ast.FunctionDef, ast.AsyncFunctionDef)):
                self.defs.setdefault(prefix + node.name, node)
                self.by_line[(prefix + node.name, node.lineno)] = node
                for d in node.decorator_list:
                    self.by_line[(prefix + node.name, d.lineno)] = node
            elif isinstance(node, ast.ClassDef):
                self.classes.setdefault(prefix + node.name, node)
                self._walk(node.body, prefix + node.name + ".")
            elif isinstance(node, (ast.If, ast.Try)):
                for sub in ("body", "orelse", "finalbody"):
                    self._walk(getattr(node, sub, []), prefix)
                for h in getattr(node, "handlers", []):
                    self._walk(h.body, prefix)


def mod_index(live_mod):
    key = live_mod.__name__
    if key not in _index_cache:
        _index_cache[key] = ModIndex(live_mod)
    return _index_cache[key]


def in_repo(live_mod):
    f = getattr(live_mod, "__file__", None)
    if not f:
        return False
    repo = os.path.realpath(os.environ.get("VERIF_REPO", "/repo"))
    rf = os.path.realpath(f)
    if rf.startswith(repo + os.sep) and f.endswith(".py"):
        return True
    # sidecar specification functions (contracts/spec_*.py) are executed by the same engine
    return os.path.basename(rf).startswith("spec_") and os.path.basename(os.path.dirname(rf)) == "contracts"


def func_node(live_fn):
    mod = sys.modules.get(live_fn.__module__)
    if mod is None or not in_repo(mod):
        return None, None
    idx = mod_index(mod)
    code = getattr(live_fn, "__code__", None)
    node = idx.by_line.get((live_fn.__qualname__, code.co_firstlineno)) if code is not None else None
    if node is None:
        node = idx.defs.get(live_fn.__qualname__)
    if node is None:
        return None, None
    return node, mod


def class_node(cls):
    mod = sys.modules.get(cls.__module__)
    if mod is None or not in_repo(mod):
        return None, None
    idx = mod_index(mod)
    return idx.classes.get(cls.__qualname__), mod


_instance_fields_cache = {}


def instance_fields(cls):
    """names assigned as self.X in the class's own methods, its __slots__ and bare class-level
    annotations, for cls and its repo bases; value = annotation AST (or None) and module"""
    if cls in _instance_fields_cache:
        return _instance_fields_cache[cls]
    out = {}
    for c in reversed(cls.__mro__):
        node, mod = class_node(c)
        if node is None:
            continue
        globs = mod.__dict__
        for st in node.body:
            if isinstance(st, ast.AnnAssign) and isinstance(st.target, ast.Name):
                if st.value is None:
                    out[st.target.id] = (st.annotation, globs)
                else:
                    # class-level default that may be shadowed per instance
                    out.setdefault(st.target.id, (st.annotation, globs))
            elif isinstance(st, ast.Assign):
                for t in st.targets:
                    if isinstance(t, ast.Name) and t.id != "__slots__" and isinstance(st.value, ast.Constant) and st.value.value is not None:
                        out.setdefault(t.id, (ast.Name(id=type(st.value.value).__name__, ctx=ast.Load()), globs))
                    if isinstance(t, ast.Name) and t.id == "__slots__":
                        try:
                            for s in ast.literal_eval(st.value):
                                out.setdefault(s, (None, globs))
                        except Exception:
                            pass
            elif isinstance(st, ast.FunctionDef):
                params = {}
                a = st.args
                for p in a.posonlyargs + a.args + a.kwonlyargs:
                    if p.annotation is not None:
                        params[p.arg] = p.annotation
                selfname = a.args[0].arg if a.args else None
                for sub in ast.walk(st):
                    tgt = None
                    ann = None
                    val = None
                    if isinstance(sub, ast.Assign):
                        for t in sub.targets:
                            if isinstance(t, ast.Attribute) and isinstance(t.value, ast.Name) and t.value.id == selfname:
                                tgt, val = t.attr, sub.value
                                _note_field(out, tgt, ann, val, params, globs, st.name)
                        continue
                    if isinstance(sub, ast.AnnAssign):
                        t = sub.target
                        if isinstance(t, ast.Attribute) and isinstance(t.value, ast.Name) and t.value.id == selfname:
                            _note_field(out, t.attr, sub.annotation, sub.value, params, globs, st.name)
                    if isinstance(sub, ast.AugAssign):
                        t = sub.target
                        if isinstance(t, ast.Attribute) and isinstance(t.value, ast.Name) and t.value.id == selfname:
                            out.setdefault(t.attr, (None, globs))
    _instance_fields_cache[cls] = out
    return out


def _note_field(out, name, ann, val, params, globs, fname):
    if ann is not None:
        out[name] = (ann, globs)
        return
    cur = out.get(name)
    if cur is not None and cur[0] is not None:
        return
    if isinstance(val, ast.Name) and val.id in params:
        out[name] = (params[val.id], globs)
    elif isinstance(val, ast.Constant) and val.value is not None and fname == "__init__":
        tname = type(val.value).__name__
        out[name] = (ast.Name(id=tname, ctx=ast.Load()), globs)
    else:
        out.setdefault(name, (None, globs))


# ----------------------------------------------------------------------------


class Frame:
    def __init__(self, module, name, parent=None):
        self.module = module  # live module
        self.locals = {}
        self.name = name
        self.parent = parent  # enclosing frame (closures)
        self.globals_decl = set()
        self.nonlocal_decl = set()
        self.partial = False  # a region / one loop iteration: live-in locals come from the contract's setup

    def lookup(self, name):
        f = self
        while f is not None:
            if name in f.locals:
                return f.locals[name]
            f = f.parent
        return None


class LoopSpec:
    """invariant-mode specification of one loop.

    inv(I, env) -> z3 Bool; env maps local names to values, plus '__i' (ghost index SInt)
    for `for` loops.  `modifies`: list of (local name, field) heap locations re-havoced at
    the loop head; `havoc_types`: types for locals whose kind cannot be inferred.
    """

    def __init__(self, inv=None, modifies=(), havoc_types=None, name=None, extra_havoc=()):
        self.inv = inv
        self.modifies = list(modifies)
        self.havoc_types = havoc_types or {}
        self.name = name
        self.extra_havoc = list(extra_havoc)


def stmt_matches(node, text):
    if not isinstance(node, ast.stmt):
        return False
    norm = getattr(node, "_pyvc_norm", None)
    if norm is None:
        norm = " ".join(ast.unparse(node).split())
        node._pyvc_norm = norm
    return norm.startswith(" ".join(text.split()))


def find_stmt(body, text):
    """index of the first top-level statement whose source starts with `text` (whitespace-normalised)"""
    want = " ".join(text.split())
    for k, st in enumerate(body):
        if " ".join(ast.unparse(st).split()).startswith(want):
            return k
    return None


def loop_key(node):
    if isinstance(node, ast.For):
        return f"for {ast.unparse(node.target)} in {ast.unparse(node.iter)}"
    return f"while {ast.unparse(node.test)}"


class Interp:
    def __init__(self, ctx: Ctx, *, overrides=None, field_types=None, loops=None, unroll=None, max_depth=40, field_invs=None):
        self.ctx = ctx
        self.overrides = overrides or {}
        self.field_types = field_types or {}
        self.loops = loops or {}
        self.unroll = unroll
        self.max_depth = max_depth
        self.depth = 0
        self.used_loops = set()
        self.functions_entered = {}
        self.pure_mode = False
        self.cut_at = None
        self.override_calls = {}
        self.override_log = []
        self.codec = None
        self.field_invs = field_invs or {}

    # ------------------------------------------------------------------ values
    def reflect(self, obj, name="const"):
        c = self.ctx
        if obj is None:
            return NONE
        if isinstance(obj, bool):
            return SBool(obj)
        if isinstance(obj, int):
            return SInt(obj)
        if isinstance(obj, str):
            return SStr(obj)
        if isinstance(obj, float):
            return SFloat(z3.Const("flt_" + obj.hex().replace("-", "m").replace("+", "p").replace(".", "_"), FloatS), py=obj)
        if isinstance(obj, complex):
            return SComplex(repr(obj))
        if isinstance(obj, bytes):
            return SBytes(bytes_term(obj))
        key = id(obj)
        if key in c.reflect_cache:
            return c.reflect_cache[key][1]
        if isinstance(obj, tuple):
            v = STuple([self.reflect(x) for x in obj])
            if hasattr(type(obj), "_fields"):
                v.names = list(type(obj)._fields)
                v.cls = type(obj)
        elif isinstance(obj, list):
            v = SList([self.reflect(x) for x in obj])
        elif isinstance(obj, (set, frozenset)):
            try:
                items = sorted(obj)
            except TypeError:
                items = list(obj)
            v = SSet([self.reflect(x) for x in items], frozen=isinstance(obj, frozenset))
        elif isinstance(obj, dict):
            v = SDict([(self.reflect(k), self.reflect(x)) for k, x in obj.items()])
            if isinstance(obj, collections.defaultdict):
                v.default = obj.default_factory
        elif isinstance(obj, pytypes.ModuleType):
            v = SModule(obj)
        elif isinstance(obj, (type, pytypes.FunctionType, pytypes.BuiltinFunctionType, pytypes.MethodType, pytypes.MethodDescriptorType, pytypes.WrapperDescriptorType)) or callable(obj) and not in_repo_class(type(obj)):
            v = SFunc(obj)
        else:
            addr = 1000000 + len(c.reflect_cache)
            v = SObj(z3.IntVal(addr), [type(obj)], type(obj).__name__, lazy=False, live=obj)
        c.reflect_cache[key] = (obj, v)
        return v

    def make(self, ty, name):
        c = self.ctx
        if isinstance(ty, TConst):
            return ty.v
        if isinstance(ty, TInt):
            return SInt(c.fresh(name, IntS))
        if isinstance(ty, TBool):
            return SBool(c.fresh(name, BoolS))
        if isinstance(ty, TStr):
            return SStr(c.fresh(name, StrS))
        if isinstance(ty, TFloat):
            return SFloat(c.fresh(name, FloatS))
        if isinstance(ty, TNone):
            return NONE
        if isinstance(ty, TBytes):
            return SBytes(c.fresh(name, BytesS), ty.mutable)
        if isinstance(ty, TAny):
            return SOpaque(c.fresh_name(name))
        if isinstance(ty, TOpt) and isinstance(ty.inner, (TInt, TBool, TStr, TFloat)):
            return SOpt(c.fresh(name + "?none", BoolS), self.make(ty.inner, name))
        if isinstance(ty, TOpt):
            if c.choose(2, "opt") == 0:
                return self.make(ty.inner, name)
            return NONE
        if isinstance(ty, TUnion):
            i = c.choose(len(ty.alts), "union")
            return self.make(ty.alts[i], name)
        if isinstance(ty, TTuple):
            v = STuple([self.make(t, f"{name}.{i}") for i, t in enumerate(ty.items)])
            if hasattr(ty, "names"):
                v.names = ty.names
                v.cls = ty.cls
            return v
        if isinstance(ty, (TSeq, TSet, TMap)):
            if not ty.pure:
                raise Unsupported(f"impure z3 container {ty}")
            return ZVal(ty, Cell(c.fresh(name, ty.sort())))
        if isinstance(ty, TObj) and isinstance(ty.cls, type) and issubclass(ty.cls, enum.Enum):
            members = list(ty.cls)
            if not members:
                raise Unsupported(f"enum {ty.cls.__name__} without members")
            return self.reflect(members[c.choose(len(members), "enum-member")])
        if isinstance(ty, TObj):
            cands = [k for k in all_subclasses(ty.cls) if k not in getattr(ty, "exclude", ())]
            addr = c.fresh(name + "@", IntS)
            c.assume(addr >= 1)
            return SObj(addr, cands, c.fresh_name(name), lazy=True)
        if isinstance(ty, TLList):
            n = c.fresh(name + ".len", IntS)
            c.assume(n >= 0)
            return LList(ty.elem, n, c.fresh_name(name))
        if isinstance(ty, TLDict):
            return LDict(ty.k, ty.v, c.fresh_name(name), default_factory=ty.default)
        raise Unsupported(f"make {ty}")

    def new_object(self, cls, name=None):
        o = SObj(self.ctx.new_addr(), [cls], name or cls.__name__, lazy=False)
        return o

    # ------------------------------------------------------------------ truth / equality
    def truth(self, v):
        """z3 Bool for bool(v)"""
        if isinstance(v, SOpt):
            return z3.And(z3.Not(v.isnone), self.truth(v.val))
        if isinstance(v, SBool):
            return v.t
        if isinstance(v, SInt):
            return v.t != 0
        if isinstance(v, SStr):
            return z3.Length(v.t) > 0
        if isinstance(v, SNoneT):
            return z3.BoolVal(False)
        if isinstance(v, SFloat):
            return z3.Not(UF_FISZERO(v.t))
        if isinstance(v, SBytes):
            return z3.Length(v.t) > 0
        if isinstance(v, (STuple, SList, SSet)):
            return z3.BoolVal(len(v.items) > 0)
        if isinstance(v, SDict):
            return z3.BoolVal(len(v.entries) > 0)
        if isinstance(v, ZVal):
            if isinstance(v.ty, TSeq):
                return z3.Length(v.t) > 0
            if isinstance(v.ty, TSet):
                return v.t != empty_term(v.ty)
            if isinstance(v.ty, TMap):
                s, mk, accs = v.ty.parts()
                return accs[0](v.t) != z3.K(v.ty.k.sort(), z3.BoolVal(False))
        if isinstance(v, LList):
            return self.llist_len(v) > 0
        if isinstance(v, SObj):
            for k in v.cands:
                if has_repo_dunder(k, "__bool__") or has_repo_dunder(k, "__len__"):
                    if has_repo_dunder(k, "__bool__"):
                        r = self.call_method(v, "__bool__", [])
                        return self.truth(r)
                    r = self.call_method(v, "__len__", [])
                    return self.truth(r)
            return z3.BoolVal(True)
        if isinstance(v, (SFunc, SModule, SLambda, SBuiltinMethod)):
            return z3.BoolVal(True)
        if isinstance(v, SOpaque):
            key = ("truth", v.name)
            if key not in self.ctx.ghost:
                self.ctx.ghost[key] = self.ctx.fresh(f"truth({v.name})", BoolS)
            return self.ctx.ghost[key]
        raise Unsupported(f"truth of {v!r}")

    def is_truthy(self, v):
        return self.ctx.branch(self.truth(v))

    def eq(self, a, b):
        """z3 Bool for a == b"""
        if isinstance(a, SBitInt) or isinstance(b, SBitInt):
            x, y = (a, b) if isinstance(a, SBitInt) else (b, a)
            if isinstance(y, (SInt, SBool)) and concrete_int(as_int(y)) == 0:
                return z3.Not(z3.Or(list(x.bits.values()) + [z3.BoolVal(False)]))
        if isinstance(a, SOpt) or isinstance(b, SOpt):
            if isinstance(a, SOpt) and isinstance(b, SOpt):
                return z3.Or(z3.And(a.isnone, b.isnone), z3.And(z3.Not(a.isnone), z3.Not(b.isnone), self.eq(a.val, b.val)))
            o, x = (a, b) if isinstance(a, SOpt) else (b, a)
            if isinstance(x, SNoneT):
                return o.isnone
            return z3.And(z3.Not(o.isnone), self.eq(o.val, x))
        if isinstance(a, SBool) and isinstance(b, SBool):
            return a.t == b.t
        if isinstance(a, (SInt, SBool)) and isinstance(b, (SInt, SBool)):
            return as_int(a) == as_int(b)
        if isinstance(a, SStr) and isinstance(b, SStr):
            return a.t == b.t
        if isinstance(a, SNoneT) or isinstance(b, SNoneT):
            if isinstance(a, SNoneT) and isinstance(b, SNoneT):
                return z3.BoolVal(True)
            other = b if isinstance(a, SNoneT) else a
            if isinstance(other, SOpaque):
                raise Unsupported("== None on opaque value")
            if isinstance(other, SObj) and any(has_repo_dunder(k, "__eq__") for k in other.cands):
                pass
            else:
                return z3.BoolVal(False)
        if isinstance(a, SBytes) and isinstance(b, SBytes):
            return a.t == b.t
        if isinstance(a, SFloat) or isinstance(b, SFloat):
            fa, fb = a, b
            if isinstance(fb, SFloat) and is_zero_const(fa):
                return UF_FISZERO(fb.t)
            if isinstance(fa, SFloat) and is_zero_const(fb):
                return UF_FISZERO(fa.t)
            if isinstance(fa, SFloat) and isinstance(fb, SFloat):
                return fa.t == fb.t if fa.py is None and fb.py is None else z3.BoolVal(fa.py == fb.py) if fa.py is not None and fb.py is not None else fa.t == fb.t
            raise Unsupported("float equality")
        if isinstance(a, (STuple, SList)) and isinstance(b, (STuple, SList)) and type(a) is type(b):
            if len(a.items) != len(b.items):
                return z3.BoolVal(False)
            return z3.And([self.eq(x, y) for x, y in zip(a.items, b.items)] + [z3.BoolVal(True)])
        if isinstance(a, ZVal) and isinstance(b, ZVal):
            if isinstance(a.ty, TSeq) and isinstance(b.ty, TSeq):
                return a.t == b.t
            if isinstance(a.ty, TSet) and isinstance(b.ty, TSet):
                return a.t == b.t
            if a.cell is b.cell:
                return z3.BoolVal(True)
            if isinstance(a.ty, TMap) and isinstance(b.ty, TMap) and a.ty.sort() == b.ty.sort() and not isinstance(a.ty.v, (TMap, TSet)):
                # dict equality: same keys, equal values on them
                s_, mk, accs = a.ty.parts()
                k = z3.Const("mapeq_k", a.ty.k.sort())
                return z3.And(accs[0](a.t) == accs[0](b.t),
                              z3.ForAll([k], z3.Implies(z3.Select(accs[0](a.t), k), z3.Select(accs[1](a.t), k) == z3.Select(accs[1](b.t), k))))
            raise Unsupported("equality of z3 maps")
        if isinstance(a, ZVal) and isinstance(a.ty, TSeq) and isinstance(b, (STuple, SList)):
            return a.t == unwrap(a.ty, b)
        if isinstance(b, ZVal) and isinstance(b.ty, TSeq) and isinstance(a, (STuple, SList)):
            return b.t == unwrap(b.ty, a)
        if isinstance(a, SObj) or isinstance(b, SObj):
            o = a if isinstance(a, SObj) else b
            if any(has_repo_dunder(k, "__eq__") for k in o.cands):
                other = b if o is a else a
                r = self.call_method(o, "__eq__", [other])
                if isinstance(r, SObj) and r.live is NotImplemented:
                    # reflected comparison not modelled: Python falls back to identity
                    return a.addr == b.addr if isinstance(a, SObj) and isinstance(b, SObj) else z3.BoolVal(False)
                return self.truth(r)
            if isinstance(a, SObj) and isinstance(b, SObj):
                return a.addr == b.addr
            return z3.BoolVal(False)
        if isinstance(a, SFunc) and isinstance(b, SFunc):
            return z3.BoolVal(a.live == b.live)
        if isinstance(a, SSet) and isinstance(b, SSet):
            return z3.And(self.subset(a, b), self.subset(b, a))
        if isinstance(a, SDict) and isinstance(b, SDict) and not a.entries and not b.entries:
            return z3.BoolVal(True)
        ka, kb = scalar_kind(a), scalar_kind(b)
        if ka and kb and ka != kb:
            return z3.BoolVal(False)
        raise Unsupported(f"equality {a!r} == {b!r}")

    def contains(self, container, x):
        """z3 Bool for x in container"""
        c = self.unopt(container)
        if isinstance(c, (ZVal, SStr, SBytes)):
            x = self.unopt(x)
        if isinstance(c, SObj) and c.cands and inspect.getattr_static(c.cands[0], "__contains__", None) is not None and c.cands[0].__module__.startswith("contracts."):
            # a stand-in class of the sidecar contracts: `in` goes through its (contracted) __contains__
            return self.truth(self.call_method(c, "__contains__", [x]))
        if isinstance(c, (STuple, SList, SSet)):
            return z3.Or([self.eq(x, e) for e in c.items] + [z3.BoolVal(False)])
        if isinstance(c, SDict):
            return z3.Or([self.eq(x, k) for k, _ in c.entries] + [z3.BoolVal(False)])
        if isinstance(c, SStr) and isinstance(x, SStr):
            return z3.Contains(c.t, x.t)
        if isinstance(c, ZVal):
            if isinstance(c.ty, TSeq):
                return z3.Contains(c.t, z3.Unit(unwrap(c.ty.elem, x)))
            if isinstance(c.ty, TSet):
                x = self.key_of(c.ty, x)
                if isinstance(x, SNoneT) or (scalar_kind(x) and not kinds_compatible(c.ty.elem, x)):
                    return z3.BoolVal(False)
                return z3.Select(c.t, unwrap(c.ty.elem, x))
            if isinstance(c.ty, TMap):
                if isinstance(x, SNoneT):
                    return z3.BoolVal(False)
                s, mk, accs = c.ty.parts()
                return z3.Select(accs[0](c.t), unwrap(c.ty.k, x))
        if isinstance(c, LDict):
            e = self.ldict_entry(c, x)
            return e[1]
        if isinstance(c, SBytes) and isinstance(x, SBytes):
            return z3.Contains(c.t, x.t)
        if isinstance(c, SIterable) and c.what == "range":
            start, stop, step = c.payload
            if concrete_int(step.t) == 1 and isinstance(x, (SInt, SBool)):
                return z3.And(as_int(x) >= start.t, as_int(x) < stop.t)
        if isinstance(c, LList) and not c.cells and not c.appended:
            raise Unsupported("membership in lazy list")
        raise Unsupported(f"membership in {c!r}")

    def key_of(self, ty, x):
        kf = getattr(ty, "keyfield", None)
        if kf is not None and isinstance(x, SObj):
            return self.getattr(x, kf)
        return x

    def subset(self, a, b):
        return z3.And([self.contains(b, e) for e in a.items] + [z3.BoolVal(True)])

    # ------------------------------------------------------------------ optionals / merging
    def unopt(self, v):
        """resolve a symbolic Optional scalar to NONE or its value (forks only if undetermined)"""
        if not isinstance(v, SOpt):
            return v
        if self.ctx.branch(v.isnone):
            return NONE
        return v.val

    def merge_values(self, c, a, b):
        """value equal to a if c else b, or MergeAbort"""
        if a is b:
            return a
        ca_, cb_ = (concrete_int(a.t), concrete_int(b.t)) if isinstance(a, SInt) and isinstance(b, SInt) else (None, None)
        accumulating = ca_ is not None and cb_ is not None and 0 <= ca_ < 2 ** 64 and 0 <= cb_ < 2 ** 64 and ca_ != cb_ and (ca_ & cb_) == min(ca_, cb_)
        if isinstance(a, SInt) and isinstance(b, SInt) and (isinstance(a, SBitInt) or isinstance(b, SBitInt) or accumulating):
            ba, bb = as_bits(a), as_bits(b)
            if ba is not None and bb is not None:
                F = z3.BoolVal(False)
                return SBitInt({k: simp(z3.If(c, ba.get(k, F), bb.get(k, F))) for k in set(ba) | set(bb)})
        if isinstance(a, (SInt, SBool)) and isinstance(b, (SInt, SBool)):
            if isinstance(a, SBool) and isinstance(b, SBool):
                return SBool(simp(z3.If(c, a.t, b.t)))
            return SInt(simp(z3.If(c, as_int(a), as_int(b))))
        if isinstance(a, SStr) and isinstance(b, SStr):
            return SStr(simp(z3.If(c, a.t, b.t)))
        if isinstance(a, SFloat) and isinstance(b, SFloat):
            return SFloat(simp(z3.If(c, a.t, b.t)))
        if isinstance(a, SNoneT) and isinstance(b, SNoneT):
            return NONE
        if isinstance(a, (SOpt, SNoneT, SInt, SBool, SStr, SFloat)) and isinstance(b, (SOpt, SNoneT, SInt, SBool, SStr, SFloat)):
            an = a.isnone if isinstance(a, SOpt) else z3.BoolVal(isinstance(a, SNoneT))
            bn = b.isnone if isinstance(b, SOpt) else z3.BoolVal(isinstance(b, SNoneT))
            av = a.val if isinstance(a, SOpt) else a
            bv = b.val if isinstance(b, SOpt) else b
            if isinstance(av, SNoneT):
                av = bv
            if isinstance(bv, SNoneT):
                bv = av
            if isinstance(av, SNoneT):
                return NONE
            return SOpt(simp(z3.If(c, an, bn)), self.merge_values(c, av, bv))
        if isinstance(a, STuple) and isinstance(b, STuple) and len(a.items) == len(b.items) and not hasattr(a, "names") and not hasattr(b, "names"):
            return STuple([self.merge_values(c, x, y) for x, y in zip(a.items, b.items)])
        raise MergeAbort()

    def try_nofork(self, fn, guard=None):
        """run fn() without forking/raising under an optional guard; returns (ok, result)"""
        c = self.ctx
        c.nofork += 1
        if guard is not None:
            c.guards.append(guard)
        trace_len = len(c.trace)
        try:
            return True, fn()
        except MergeAbort:
            return False, None
        finally:
            c.nofork -= 1
            if guard is not None:
                c.guards.pop()
            assert len(c.trace) == trace_len

    # ------------------------------------------------------------------ exceptions
    def raise_exc(self, cls, msg="", node=None):
        if self.ctx.nofork:
            raise MergeAbort()
        where = f"line {getattr(node, 'lineno', '?')}" if node is not None else ""
        o = self.new_object(cls)
        o.fields["args"] = STuple([SStr(msg)])
        raise PyExc(cls, o, msg, where)

    def check_or_raise(self, ok_cond, cls, msg, node=None):
        """continue on the path where ok_cond holds; on the other path raise cls"""
        if not self.ctx.branch(ok_cond):
            self.raise_exc(cls, msg, node)

    # ------------------------------------------------------------------ attribute access
    def field_type(self, obj, name):
        for k in obj.cands:
            for c in k.__mro__:
                key = (c.__name__, name)
                if key in self.field_types:
                    ft = self.field_types[key]
                    return ft
        k = obj.cands[0]
        fields = instance_fields(k)
        if name in fields:
            ann, globs = fields[name]
            if ann is None:
                raise Unsupported(f"no type known for field {k.__name__}.{name}")
            return ty_from_ann(ann, globs)
        return None

    def getattr(self, v, name, node=None):
        v = self.unopt(v)
        if isinstance(v, SSuper):
            mro = v.obj.cands[0].__mro__ if isinstance(v.obj, SObj) else (v.obj.live.__mro__ if isinstance(v.obj, SFunc) else ())
            after = False
            for k in mro:
                if after and name in k.__dict__:
                    st = k.__dict__[name]
                    if isinstance(st, pytypes.FunctionType):
                        return SFunc(st, self_v=v.obj)
                    if isinstance(st, classmethod):
                        return SFunc(st.__func__, self_v=SFunc(v.obj.cands[0]) if isinstance(v.obj, SObj) else v.obj)
                    if isinstance(st, staticmethod):
                        return SFunc(st.__func__)
                    if isinstance(st, (pytypes.WrapperDescriptorType, pytypes.MethodDescriptorType)) and not in_repo_class(k):
                        return SFunc(_object_noop)  # object.__init__ / Exception.__init__ ...
                    raise Unsupported(f"super().{name} resolves to {type(st).__name__}")
                if k is v.cls:
                    after = True
            raise Unsupported(f"super().{name} not found")
        if isinstance(v, SObj):
            return self.obj_getattr(v, name, node)
        if isinstance(v, SModule):
            mk = ("modattr", v.live.__name__, name)
            if mk in self.ctx.ghost:
                return self.ctx.ghost[mk]
            try:
                return self.reflect(getattr(v.live, name), name)
            except AttributeError:
                raise Unsupported(f"module attribute {v.live.__name__}.{name}")
        if isinstance(v, SFunc):
            live = v.live
            if isinstance(live, type):
                st = inspect.getattr_static(live, name, None)
                if isinstance(st, (classmethod,)):
                    return SFunc(st.__func__, self_v=v)
                if isinstance(st, staticmethod):
                    return SFunc(st.__func__)
                if isinstance(st, pytypes.FunctionType):
                    return SFunc(st)
                try:
                    return self.reflect(getattr(live, name), name)
                except AttributeError:
                    self.raise_exc(AttributeError, name, node)
            try:
                return self.reflect(getattr(live, name), name)
            except AttributeError:
                raise Unsupported(f"attribute {name} of {live}")
        if isinstance(v, SNoneT):
            self.raise_exc(AttributeError, f"None.{name}", node)
        if isinstance(v, STuple) and hasattr(v, "names") and name in v.names:
            return v.items[v.names.index(name)]
        if isinstance(v, (SStr, SList, SDict, SSet, ZVal, LList, LDict, SBytes, STuple, SInt, SFloat, SIterable, SBool)):
            return SBuiltinMethod(v, name)
        if isinstance(v, SOpaque):
            key = ("attr", v.name, name)
            if key not in self.ctx.ghost:
                self.ctx.ghost[key] = SOpaque(f"{v.name}.{name}")
            return self.ctx.ghost[key]
        if getattr(v, "kind", None) == "mappeddict" and name in ("items", "get") and self.codec is not None:
            return SBuiltinMethod(v, name)
        raise Unsupported(f"getattr {v!r}.{name}")

    def obj_getattr(self, o, name, node=None):
        if name in o.fields:
            return o.fields[name]
        if self.codec is not None and name == "write" and o is not self.codec.root and o.live is None:
            return SCodecWrite(o)  # nested serializable object: modular (no split over its classes)
        if self.codec is not None and self.codec.json and name == "serialize" and o is not self.codec.root and o.live is None:
            return SCodecWrite(o)
        if name == "__class__":
            if len(o.cands) == 1:
                return SFunc(o.cands[0])
            raise Unsupported("__class__ of object with several candidate classes")
        if o.live is not None:
            if has_repo_dunder(type(o.live), "__getattribute__") and name != "__class__":
                # e.g. nodes.FakeInfo: every attribute access fails by design
                self.raise_exc(AssertionError, f"attribute {name} of {type(o.live).__name__}", node)
            st = inspect.getattr_static(o.live, name, MISSING)
            if st is MISSING:
                self.raise_exc(AttributeError, name, node)
            if isinstance(st, (pytypes.FunctionType, property, classmethod, staticmethod)):
                return self.class_attr(o, o.cands[0], st, name)
            val = getattr(o.live, name)
            r = self.reflect(val, name)
            o.fields[name] = r
            return r
        # several candidate classes: they must agree on how `name` is found
        sts = []
        for k in o.cands:
            sts.append(inspect.getattr_static(k, name, MISSING))
        first = sts[0]
        if any(s is not first for s in sts[1:]):
            kinds = {_attr_kind(s) for s in sts}
            if kinds <= {"data", "missing"} and o.lazy:
                pass  # plain field, possibly with different class-level defaults
            else:
                groups = {}
                for k, s in zip(o.cands, sts):
                    groups.setdefault(id(s), []).append(k)
                glist = list(groups.values())
                i = self.ctx.choose(len(glist), "class-split")
                o.cands = glist[i]
                return self.obj_getattr(o, name, node)
        if isinstance(first, (pytypes.FunctionType, property, classmethod, staticmethod)) or type(first).__name__ == "_lru_cache_wrapper":
            return self.class_attr(o, o.cands[0], first, name)
        if isinstance(first, pytypes.MemberDescriptorType) or first is MISSING or o.lazy and name in instance_fields(o.cands[0]):
            if o.lazy:
                ft = self.field_type(o, name)
                if ft is None:
                    if first is MISSING:
                        # unknown attribute on every candidate class
                        self.raise_exc(AttributeError, name, node)
                    raise Unsupported(f"no type for field {o.cands[0].__name__}.{name}")
                val = self.make(ft, f"{o.name}.{name}")
                o.fields[name] = val
                o.init[name] = val
                for k in o.cands[0].__mro__:
                    inv = self.field_invs.get((k.__name__, name))
                    if inv is not None:
                        inv(self, o, val)
                return val
            if first is MISSING or isinstance(first, pytypes.MemberDescriptorType):
                self.raise_exc(AttributeError, f"{o.cands[0].__name__}.{name}", node)
        # class-level constant
        return self.reflect(first, name)

    def class_attr(self, o, cls, st, name):
        if isinstance(st, property):
            return self.call_function(st.fget, [o], {})
        if isinstance(st, classmethod):
            return SFunc(st.__func__, self_v=SFunc(cls))
        if isinstance(st, staticmethod):
            return SFunc(st.__func__)
        if type(st).__name__ == "_lru_cache_wrapper":
            st = st.__wrapped__
        return SFunc(st, self_v=o)

    def setattr(self, v, name, val, node=None):
        if isinstance(v, SObj):
            st = inspect.getattr_static(v.cands[0], name, None)
            if isinstance(st, property):
                if st.fset is None:
                    self.raise_exc(AttributeError, name, node)
                self.call_function(st.fset, [v, val], {})
                return
            v.fields[name] = val
            return
        if isinstance(v, SOpaque):
            return
        if isinstance(v, SModule):
            # assignment to a module attribute (sys.stdout = ...): path-local ghost binding
            self.ctx.ghost[("modattr", v.live.__name__, name)] = val
            return
        raise Unsupported(f"setattr on {v!r}")

    def call_method(self, o, name, args, kwargs=None):
        f = self.getattr(o, name)
        return self.call(f, args, kwargs or {})

    # ------------------------------------------------------------------ calls
    def call(self, f, args, kwargs, node=None):
        if isinstance(f, SFunc):
            live = f.live
            if f.self_v is not None:
                args = [f.self_v] + list(args)
            if isinstance(live, pytypes.MethodType):
                args = [self.reflect(live.__self__)] + list(args)
                live = live.__func__
            if live is _object_noop:
                return NONE
            if type(live).__name__ == "_lru_cache_wrapper" and isinstance(getattr(live, "__wrapped__", None), pytypes.FunctionType):
                live = live.__wrapped__  # functools.lru_cache: same result as the wrapped function
            if isinstance(live, pytypes.FunctionType):
                return self.call_function(live, args, kwargs, node)
            if isinstance(live, type):
                return self.instantiate(live, args, kwargs, node)
            from .builtins_model import call_builtin

            return call_builtin(self, live, args, kwargs, node)
        if isinstance(f, SCodecWrite) and self.codec is not None and self.codec.json:
            from .codec import SJsonTok

            return SJsonTok(f.obj, list(args))
        if isinstance(f, SCodecWrite):
            from .codec import SBuf

            if not args or not isinstance(args[0], SBuf):
                raise Unsupported("write() of a nested object without a buffer")
            args[0].put(("obj", f.obj))
            return NONE
        if isinstance(f, SBuiltinMethod):
            from .builtins_model import call_method_model

            return call_method_model(self, f.recv, f.name, args, kwargs, node)
        if isinstance(f, SLambda):
            return self.call_closure(f, args, kwargs)
        if isinstance(f, SOpaque):
            raise Unsupported(f"call of opaque value {f.name}")
        if isinstance(f, SObj) and any(has_repo_dunder(k, "__call__") for k in f.cands):
            return self.call_method(f, "__call__", args, kwargs)
        raise Unsupported(f"call of {f!r}")

    def qualname_of(self, live):
        return f"{live.__module__}:{live.__qualname__}"

    def call_function(self, live, args, kwargs, node=None):
        qn = self.qualname_of(live)
        ov = self.overrides.get(qn)
        if ov is None:
            ov = self.overrides.get(live.__qualname__)
        if self.depth > 0 and (qn + "@rec") in self.overrides:
            ov = self.overrides[qn + "@rec"]
        if self.codec is not None and ov is None:
            r = self.codec_call(live, qn, args, kwargs)
            if r is not None:
                return r
        if ov is not None:
            self.override_calls[qn] = self.override_calls.get(qn, 0) + 1
            try:
                r = ov(self, args, kwargs)
            except PyExc as e:
                from .native import PyExcMarker, make_native_exc

                native_exc = make_native_exc(e.cls, e.msg)
                self.override_log.append((qn, PyExcMarker(native_exc)))
                raise
            self.override_log.append((qn, r))
            return r
        fnode, mod = func_node(live)
        if fnode is None:
            from .builtins_model import call_builtin

            return call_builtin(self, live, args, kwargs, node)
        return self.run_function(fnode, mod, args, kwargs, live=live)

    def codec_call(self, live, qn, args, kwargs):
        """modular treatment of nested serializable objects"""
        from .codec import SBuf

        cd = self.codec
        name = live.__name__
        if cd.json:
            return self.codec_call_json(live, qn, args, kwargs)
        if name == "write" and len(args) >= 2 and isinstance(args[1], SBuf) and isinstance(args[0], SObj):
            if args[0] is cd.root and not cd.root_write_started:
                cd.root_write_started = True
                return None
            args[1].put(("obj", args[0]))
            return NONE
        is_reader = (name == "read" and len(args) >= 2 and isinstance(args[1], SBuf)) or qn in cd.nested_readers
        if is_reader:
            buf = next((a for a in args if isinstance(a, SBuf)), None)
            if buf is None:
                return None
            if name == "read" and not cd.root_read_started:
                cd.root_read_started = True
                return None
            t = buf.peek()
            has_tag_arg = qn in cd.nested_readers and (len(args) >= 2 or "tag" in kwargs) and not isinstance(args[-1], SBuf)
            if t is None or t[0] not in ("obj", "objbody"):
                from .interp import PyExc as _P
                from .codec import LayoutMismatch

                raise _P(LayoutMismatch, None, f"nested reader {qn} where the writer put {t[0] if t else 'nothing'}", "")
            buf.pos += 1
            o = t[1]
            if name == "read" and isinstance(args[0], SFunc) and isinstance(args[0].live, type) and isinstance(o, SObj):
                keep = [k for k in o.cands if issubclass(k, args[0].live)]
                if not keep:
                    from .codec import LayoutMismatch

                    raise PyExc(LayoutMismatch, None, f"{args[0].live.__name__}.read applied to the tokens of {o.cands[0].__name__}", "")
                if len(keep) != len(o.cands):
                    self.ctx.oblige("codec/nested-class-matches-reader", z3.BoolVal(False), kind="codec", where=qn)
            return o
        return None

    def codec_call_json(self, live, qn, args, kwargs):
        """JSON round trip: serialize() of a nested object is an opaque token, the matching deserialize
        (a `deserialize` classmethod or a registered nested reader such as deserialize_type) returns the
        object the token stands for"""
        from .codec import SJsonTok, LayoutMismatch

        cd = self.codec
        name = live.__name__
        if name == "serialize" and args and isinstance(args[0], SObj):
            if args[0] is cd.root and not cd.root_write_started:
                cd.root_write_started = True
                return None
            return SJsonTok(args[0], list(args[1:]))
        is_reader = name == "deserialize" or qn in cd.nested_readers
        if is_reader:
            tok = next((a for a in args if isinstance(a, SJsonTok)), None)
            if name == "deserialize" and not cd.root_read_started and tok is None:
                cd.root_read_started = True
                return None
            if tok is None:
                raise PyExc(LayoutMismatch, None, f"nested reader {qn} applied to a value that is not the output of a nested serialize()", "")
            o = tok.obj
            if name == "deserialize" and args and isinstance(args[0], SFunc) and isinstance(args[0].live, type) and isinstance(o, SObj):
                keep = [k for k in o.cands if issubclass(k, args[0].live)]
                if not keep:
                    raise PyExc(LayoutMismatch, None, f"{args[0].live.__name__}.deserialize applied to the output of {o.cands[0].__name__}.serialize", "")
                if len(keep) != len(o.cands):
                    self.ctx.oblige("codec/nested-class-matches-reader", z3.BoolVal(False), kind="codec", where=qn)
            return o
        return None

    def bind_args(self, fnode, args, kwargs, defaults_from, frame):
        a = fnode.args
        params = a.posonlyargs + a.args
        args = list(args)
        kwargs = dict(kwargs)
        n = len(params)
        for i, p in enumerate(params):
            if i < len(args):
                frame.locals[p.arg] = args[i]
            elif p.arg in kwargs:
                frame.locals[p.arg] = kwargs.pop(p.arg)
            else:
                di = i - (n - len(a.defaults))
                if di < 0:
                    raise Unsupported(f"missing argument {p.arg} calling {fnode.name}")
                frame.locals[p.arg] = defaults_from(a.defaults[di], ("pos", di))
        if len(args) > n:
            if a.vararg is None:
                raise Unsupported(f"too many arguments calling {fnode.name}")
            frame.locals[a.vararg.arg] = STuple(args[n:])
        elif a.vararg is not None:
            frame.locals[a.vararg.arg] = STuple([])
        for j, p in enumerate(a.kwonlyargs):
            if p.arg in kwargs:
                frame.locals[p.arg] = kwargs.pop(p.arg)
            else:
                d = a.kw_defaults[j]
                if d is None:
                    raise Unsupported(f"missing kw argument {p.arg} calling {fnode.name}")
                frame.locals[p.arg] = defaults_from(d, ("kw", p.arg))
        if kwargs:
            if a.kwarg is None:
                raise Unsupported(f"unexpected keyword {list(kwargs)} calling {fnode.name}")
            frame.locals[a.kwarg.arg] = SDict([(SStr(k), v) for k, v in kwargs.items()])
        elif a.kwarg is not None:
            frame.locals[a.kwarg.arg] = SDict([])

    def run_function(self, fnode, mod, args, kwargs, live=None, parent=None):
        if self.depth >= self.max_depth:
            raise Unsupported(f"call depth exceeded at {fnode.name}")
        if any(isinstance(n, (ast.Yield, ast.YieldFrom)) for n in walk_no_nested(fnode)):
            return SGen(self, fnode, mod, args, kwargs, live, parent)
        frame = Frame(mod, fnode.name, parent)
        frame.live = live

        def dflt(dnode, which):
            if live is not None:
                if which[0] == "pos":
                    return self.reflect(live.__defaults__[which[1]])
                return self.reflect(live.__kwdefaults__[which[1]])
            return self.eval(dnode, parent or frame)

        self.bind_args(fnode, args, kwargs, dflt, frame)
        key = f"{mod.__name__}:{getattr(live, '__qualname__', fnode.name)}"
        self.functions_entered[key] = self.functions_entered.get(key, 0) + 1
        body = fnode.body
        if self.depth == 0 and self.cut_at is not None:
            if not any(stmt_matches(n, self.cut_at) for n in walk_no_nested(fnode)):
                raise Unsupported(f"cut point not found in {fnode.name}: {self.cut_at!r}")
            self._cut_frame = frame
        self.depth += 1
        try:
            self.exec_block(body, frame)
        except ReturnSig as r:
            return r.value
        finally:
            self.depth -= 1
        return NONE

    def run_function_from(self, live, start_at, local_values, stop_at=None):
        """execute the tail of a function starting at the statement `start_at` (a top-level
        statement of its body) from the given locals: second half of a cut-point proof"""
        fnode, mod = func_node(live)
        k = find_stmt(fnode.body, start_at)
        body = fnode.body
        if k is None and stop_at is None:
            # nested start point: allowed when every enclosing statement is an `if` that is the last
            # statement of its block (so that nothing follows the region)
            def search(block):
                kk = find_stmt(block, start_at)
                if kk is not None:
                    return block, kk
                last = block[-1] if block else None
                if isinstance(last, ast.If):
                    for sub in (last.body, last.orelse):
                        r = search(sub)
                        if r is not None:
                            return r
                return None
            r = search(fnode.body)
            if r is not None:
                body, k = r
        if k is None:
            raise Unsupported(f"start point not found in {fnode.name}: {start_at!r}")
        frame = Frame(mod, fnode.name, None)
        frame.partial = True
        frame.locals.update(local_values)
        key = f"{mod.__name__}:{live.__qualname__}"
        self.functions_entered[key] = self.functions_entered.get(key, 0) + 1
        stmts = body[k:]
        if stop_at is not None:
            k2 = find_stmt(fnode.body, stop_at)
            if k2 is None or k2 < k:
                raise Unsupported(f"stop point not found in {fnode.name}: {stop_at!r}")
            stmts = fnode.body[k:k2]
        self.depth += 1
        try:
            self.exec_block(stmts, frame)
        except ReturnSig as r:
            return r.value
        finally:
            self.depth -= 1
        if stop_at is not None:
            raise CutReached(frame)
        return NONE

    def run_loop_body(self, live, header, contains, local_values):
        """execute ONE iteration of the body of a `for` loop of the function (found by its
        whitespace-normalised header and, optionally, a statement its body contains) from the given
        locals: the per-iteration half of a loop proof whose other half is the loop's frame"""
        fnode, mod = func_node(live)
        found = []
        for n in ast.walk(fnode):
            if isinstance(n, ast.For) and stmt_matches(n, header):
                if contains is None or any(stmt_matches(x, contains) for b in n.body for x in ast.walk(b) if isinstance(x, ast.stmt)):
                    found.append(n)
        if len(found) != 1:
            raise Unsupported(f"loop {header!r} containing {contains!r}: {len(found)} matches in {fnode.name}")
        frame = Frame(mod, fnode.name, None)
        frame.partial = True
        frame.locals.update(local_values)
        key = f"{mod.__name__}:{live.__qualname__}"
        self.functions_entered[key] = self.functions_entered.get(key, 0) + 1
        self.depth += 1
        try:
            self.exec_block(found[0].body, frame)
        except (ContinueSig, BreakSig):
            pass
        except ReturnSig as r:
            return r.value, frame
        finally:
            self.depth -= 1
        return NONE, frame

    def call_closure(self, f, args, kwargs):
        node = f.node
        if isinstance(node, ast.Lambda):
            frame = Frame(f.module, "<lambda>", f.frame)
            self.bind_args(node, args, kwargs, lambda d, w: self.eval(d, f.frame), frame)
            return self.eval(node.body, frame)
        return self.run_function(node, f.module, args, kwargs, live=None, parent=f.frame)

    def instantiate(self, cls, args, kwargs, node=None):
        qn = f"{cls.__module__}:{cls.__qualname__}"
        ov = self.overrides.get(qn)
        if ov is not None:
            r = ov(self, args, kwargs)
            self.override_log.append((qn, r))
            return r
        if issubclass(cls, BaseException):
            o = self.new_object(cls)
            o.fields["args"] = STuple(list(args))
            init = inspect.getattr_static(cls, "__init__", None)
            if isinstance(init, pytypes.FunctionType) and func_node(init)[0] is not None:
                self.call_function(init, [o] + list(args), kwargs)
            return o
        if issubclass(cls, tuple) and hasattr(cls, "_fields"):
            items = list(args)
            for fname in cls._fields[len(items):]:
                if fname in kwargs:
                    items.append(kwargs[fname])
                else:
                    items.append(self.reflect(cls._field_defaults[fname]))
            v = STuple(items)
            v.names = list(cls._fields)
            v.cls = cls
            return v
        cnode, mod = class_node(cls)
        if cnode is None:
            from .builtins_model import call_builtin

            return call_builtin(self, cls, args, kwargs, node)
        new = inspect.getattr_static(cls, "__new__", None)
        if isinstance(new, staticmethod) and isinstance(new.__func__, pytypes.FunctionType) and func_node(new.__func__)[0] is not None:
            raise Unsupported(f"custom __new__ in {cls.__name__}")
        o = self.new_object(cls)
        init = inspect.getattr_static(cls, "__init__", None)
        if isinstance(init, pytypes.FunctionType):
            self.call_function(init, [o] + list(args), kwargs)
        elif args or kwargs:
            raise Unsupported(f"constructor arguments for {cls.__name__} without repo __init__")
        return o

    # ------------------------------------------------------------------ statements
    def exec_block(self, stmts, frame):
        for s in stmts:
            self.exec(s, frame)

    _cut_frame = None

    def exec(self, s, frame):
        if frame is self._cut_frame and stmt_matches(s, self.cut_at):
            raise CutReached(frame)
        m = getattr(self, "exec_" + type(s).__name__, None)
        if m is None:
            raise Unsupported(f"statement {type(s).__name__} at line {s.lineno}")
        return m(s, frame)

    def exec_Expr(self, s, frame):
        if isinstance(s.value, ast.Constant):
            return
        self.eval(s.value, frame)

    def exec_Pass(self, s, frame):
        pass

    def exec_Import(self, s, frame):
        for a in s.names:
            m = importlib.import_module(a.name)
            if a.asname:
                frame.locals[a.asname] = SModule(m)
            else:
                frame.locals[a.name.split(".")[0]] = SModule(importlib.import_module(a.name.split(".")[0]))

    def exec_ImportFrom(self, s, frame):
        modname = s.module or ""
        if s.level:
            pkg = frame.module.__name__.rsplit(".", s.level)[0]
            modname = pkg + ("." + modname if modname else "")
        m = importlib.import_module(modname)
        for a in s.names:
            frame.locals[a.asname or a.name] = self.reflect(getattr(m, a.name), a.name)

    def exec_Global(self, s, frame):
        frame.globals_decl.update(s.names)

    def exec_Nonlocal(self, s, frame):
        frame.nonlocal_decl.update(s.names)

    def exec_Return(self, s, frame):
        raise ReturnSig(self.eval(s.value, frame) if s.value is not None else NONE)

    def exec_Break(self, s, frame):
        raise BreakSig()

    def exec_Continue(self, s, frame):
        raise ContinueSig()

    def exec_FunctionDef(self, s, frame):
        frame.locals[s.name] = SLambda(s, frame, frame.module)

    def exec_Assert(self, s, frame):
        v = self.eval(s.test, frame)
        if not self.is_truthy(v):
            self.raise_exc(AssertionError, ast.unparse(s.test)[:60], s)

    def exec_Raise(self, s, frame):
        if s.exc is None:
            cur = getattr(frame, "current_exc", None)
            f = frame
            while cur is None and f.parent is not None:
                f = f.parent
                cur = getattr(f, "current_exc", None)
            if cur is None:
                cur = self._active_exc
            if cur is None:
                raise Unsupported("bare raise outside handler")
            raise cur
        v = self.eval(s.exc, frame)
        if isinstance(v, SFunc) and isinstance(v.live, type):
            v = self.instantiate(v.live, [], {}, s)
        if not isinstance(v, SObj):
            raise Unsupported("raise of non-object")
        if len(v.cands) != 1:
            raise Unsupported("raise of object with unknown class")
        raise PyExc(v.cands[0], v, "", f"line {s.lineno}")

    _active_exc = None
    _inflight = None

    def exec_Try(self, s, frame):
        try:
            try:
                self.exec_block(s.body, frame)
            except PyExc as e:
                handled = False
                for h in s.handlers:
                    if self.handler_matches(h, e, frame):
                        handled = True
                        if h.name:
                            frame.locals[h.name] = e.obj
                        saved = self._active_exc
                        self._active_exc = e
                        try:
                            self.exec_block(h.body, frame)
                        finally:
                            self._active_exc = saved
                        break
                if not handled:
                    raise
            else:
                self.exec_block(s.orelse, frame)
        finally:
            if s.finalbody:
                # `finally` runs on every interpreted exit (normal, PyExc, return, break,
                # continue) but NOT on engine-level unwinding (Infeasible / Unsupported / PathEnd)
                et, ev = sys.exc_info()[:2]
                if et is None or issubclass(et, (PyExc, ReturnSig, BreakSig, ContinueSig)):
                    saved_inflight = self._inflight
                    self._inflight = ev if isinstance(ev, PyExc) else None
                    try:
                        self.exec_block(s.finalbody, frame)
                    finally:
                        self._inflight = saved_inflight

    def handler_matches(self, h, e, frame):
        if h.type is None:
            return True
        t = self.eval(h.type, frame)
        classes = []
        if isinstance(t, STuple):
            classes = [x.live for x in t.items if isinstance(x, SFunc)]
        elif isinstance(t, SFunc):
            classes = [t.live]
        else:
            raise Unsupported("except clause type")
        return any(isinstance(k, type) and issubclass(e.cls, k) for k in classes)

    def exec_With(self, s, frame):
        mgrs = []
        for item in s.items:
            m = self.eval(item.context_expr, frame)
            entered = self.call_method(m, "__enter__", [])
            if item.optional_vars is not None:
                self.assign(item.optional_vars, entered, frame)
            mgrs.append(m)
        try:
            self.exec_block(s.body, frame)
        except PyExc as e:
            suppressed = False
            for m in reversed(mgrs):
                r = self.call_method(m, "__exit__", [SFunc(e.cls), e.obj or NONE, NONE])
                if self.is_truthy(r):
                    suppressed = True
                    break
            if not suppressed:
                raise
        except (ReturnSig, BreakSig, ContinueSig):
            for m in reversed(mgrs):
                self.call_method(m, "__exit__", [NONE, NONE, NONE])
            raise
        else:
            for m in reversed(mgrs):
                self.call_method(m, "__exit__", [NONE, NONE, NONE])

    def exec_If(self, s, frame):
        if mergeable_if(s):
            saved = dict(frame.locals)
            ok, t = self.try_nofork(lambda: simp(self.truth(self.eval(s.test, frame))))
            if ok and not z3.is_true(t) and not z3.is_false(t):
                ok1, _ = self.try_nofork(lambda: self.exec_block(s.body, frame), guard=t)
                then_locals = frame.locals
                frame.locals = dict(saved)
                if ok1:
                    ok2, _ = self.try_nofork(lambda: self.exec_block(s.orelse, frame), guard=z3.Not(t))
                    else_locals = frame.locals
                    frame.locals = dict(saved)
                    if ok2:
                        try:
                            merged = dict(saved)
                            for k in set(then_locals) | set(else_locals):
                                a, b = then_locals.get(k), else_locals.get(k)
                                if a is None or b is None:
                                    raise MergeAbort()
                                merged[k] = self.merge_values(t, a, b)
                            frame.locals = merged
                            return
                        except MergeAbort:
                            frame.locals = dict(saved)
            elif ok:
                frame.locals = dict(saved)
                if z3.is_true(t):
                    self.exec_block(s.body, frame)
                else:
                    self.exec_block(s.orelse, frame)
                return
            frame.locals = dict(saved)
        v = self.eval(s.test, frame)
        if self.is_truthy(v):
            self.exec_block(s.body, frame)
        else:
            self.exec_block(s.orelse, frame)

    def exec_Delete(self, s, frame):
        for t in s.targets:
            if isinstance(t, ast.Name):
                frame.locals.pop(t.id, None)
            elif isinstance(t, ast.Subscript):
                base = self.eval(t.value, frame)
                key = self.eval(t.slice, frame)
                from .builtins_model import del_item

                del_item(self, base, key, t)
            elif isinstance(t, ast.Attribute):
                o = self.eval(t.value, frame)
                if not isinstance(o, SObj):
                    raise Unsupported("del attribute of a non-object")
                if t.attr not in o.fields and not o.lazy:
                    self.raise_exc(AttributeError, t.attr, t)
                o.fields.pop(t.attr, None)
                o.lazy = False if not o.lazy else o.lazy
                o.ghost.setdefault("deleted", set()).add(t.attr)
            else:
                raise Unsupported("del target")

    def exec_Assign(self, s, frame):
        v = self.eval(s.value, frame)
        for t in s.targets:
            self.assign(t, v, frame)

    def exec_AnnAssign(self, s, frame):
        if s.value is not None:
            self.assign(s.target, self.eval(s.value, frame), frame)

    def exec_AugAssign(self, s, frame):
        t = s.target
        if isinstance(t, ast.Name):
            cur = self.load_name(t.id, frame, t)
            new = self.aug(s.op, cur, self.eval(s.value, frame), s)
            if new is not cur:
                self.assign(t, new, frame)
        elif isinstance(t, ast.Attribute):
            o = self.eval(t.value, frame)
            cur = self.getattr(o, t.attr, t)
            new = self.aug(s.op, cur, self.eval(s.value, frame), s)
            if new is not cur:
                self.setattr(o, t.attr, new, t)
        elif isinstance(t, ast.Subscript):
            o = self.eval(t.value, frame)
            k = self.eval(t.slice, frame)
            cur = self.subscript(o, k, t)
            new = self.aug(s.op, cur, self.eval(s.value, frame), s)
            if new is not cur:
                self.store_subscript(o, k, new, t)
        else:
            raise Unsupported("augmented assignment target")

    def aug(self, op, cur, val, node):
        # in-place forms for mutable containers
        if isinstance(op, ast.Add) and isinstance(cur, SList) and isinstance(val, (SList, STuple)):
            cur.items.extend(val.items)
            return cur
        if isinstance(op, ast.Add) and isinstance(cur, SBytes) and cur.mutable and isinstance(val, SBytes):
            cur.cell[0] = z3.Concat(cur.t, val.t)
            return cur
        if isinstance(op, ast.Add) and isinstance(cur, ZVal) and isinstance(cur.ty, TSeq) and cur.ty.mutable:
            cur.cell.set(z3.Concat(cur.t, unwrap(cur.ty, val)))
            return cur
        if isinstance(op, ast.BitOr) and isinstance(cur, SSet) and isinstance(val, SSet):
            cur.items.extend(val.items)
            return cur
        return self.binop(op, cur, val, node)

    def assign(self, t, v, frame):
        if isinstance(t, ast.Name):
            if t.id in frame.globals_decl:
                raise Unsupported(f"assignment to global {t.id}")
            if t.id in frame.nonlocal_decl:
                f = frame.parent
                while f is not None:
                    if t.id in f.locals:
                        f.locals[t.id] = v
                        return
                    f = f.parent
                raise Unsupported("nonlocal target not found")
            frame.locals[t.id] = v
        elif isinstance(t, (ast.Tuple, ast.List)):
            stars = [k for k, e in enumerate(t.elts) if isinstance(e, ast.Starred)]
            if stars:
                self.assign_starred(t, stars, v, frame)
                return
            items = self.fixed_items(v, len(t.elts), t)
            for e, x in zip(t.elts, items):
                self.assign(e, x, frame)
        elif isinstance(t, ast.Attribute):
            o = self.eval(t.value, frame)
            self.setattr(o, t.attr, v, t)
        elif isinstance(t, ast.Subscript):
            o = self.eval(t.value, frame)
            k = self.eval_slice(t.slice, frame)
            self.store_subscript(o, k, v, t)
        else:
            raise Unsupported(f"assignment target {type(t).__name__}")

    def assign_starred(self, t, stars, v, frame):
        """`a, *rest, z = v`: the starred name gets a NEW list of the middle items"""
        if len(stars) != 1:
            raise Unsupported("more than one starred target")
        k = stars[0]
        before, after = t.elts[:k], t.elts[k + 1 :]
        fixed = len(before) + len(after)
        if isinstance(v, (STuple, SList)):
            if len(v.items) < fixed:
                self.raise_exc(ValueError, "unpack", t)
            items = v.items
            mid = SList(list(items[len(before) : len(items) - len(after)]))
            heads, tails = items[: len(before)], items[len(items) - len(after) :]
        elif isinstance(v, ZVal) and isinstance(v.ty, TSeq):
            n = z3.Length(v.t)
            self.check_or_raise(n >= fixed, ValueError, "unpack", t)
            heads = [wrap(v.ty.elem, v.t[i]) for i in range(len(before))]
            tails = [wrap(v.ty.elem, v.t[n - len(after) + i]) for i in range(len(after))]
            mty = TSeq(v.ty.elem)
            mid = ZVal(mty, Cell(z3.Extract(v.t, z3.IntVal(len(before)), n - fixed)))
        else:
            raise Unsupported(f"starred unpack of {v!r}")
        for e, x in zip(before, heads):
            self.assign(e, x, frame)
        self.assign(t.elts[k].value, mid, frame)
        for e, x in zip(after, tails):
            self.assign(e, x, frame)

    def fixed_items(self, v, n, node=None):
        if isinstance(v, (STuple, SList)):
            if len(v.items) != n:
                self.raise_exc(ValueError, "unpack", node)
            return v.items
        if isinstance(v, ZVal) and isinstance(v.ty, TSeq):
            self.check_or_raise(z3.Length(v.t) == n, ValueError, "unpack", node)
            return [wrap(v.ty.elem, v.t[i]) for i in range(n)]
        if isinstance(v, SIterable) or isinstance(v, SGen):
            items = self.iter_concrete(v)
            if len(items) != n:
                self.raise_exc(ValueError, "unpack", node)
            return items
        raise Unsupported(f"unpack of {v!r}")

    # ---- loops
    def exec_While(self, s, frame):
        key = loop_key(s)
        spec = self.find_loop_spec(frame, key)
        if spec is not None:
            return self.while_invariant(s, frame, spec, key)
        n = 0
        while True:
            v = self.eval(s.test, frame)
            if not self.is_truthy(v):
                self.exec_block(s.orelse, frame)
                return
            if self.unroll is not None and n >= self.unroll:
                # unwinding bound reached on a feasible path
                self.ctx.ex.bounded_notes.add(f"{frame.name}: `{key}` unrolled {self.unroll}x")
                raise PathEnd()
            if self.unroll is None and n >= 64:
                raise Unsupported(f"loop `{key}` needs an invariant or an unroll bound")
            n += 1
            try:
                self.exec_block(s.body, frame)
            except BreakSig:
                return
            except ContinueSig:
                continue

    def find_loop_spec(self, frame, key):
        for k in (f"{frame.name}:{key}", key):
            if k in self.loops:
                self.used_loops.add(k)
                return self.loops[k]
        return None

    def havoc_for_loop(self, body, frame, spec):
        names = assigned_names(body)
        for n in list(names) + list(spec.extra_havoc):
            cur = frame.locals.get(n)
            if n in spec.havoc_types:
                frame.locals[n] = self.make(spec.havoc_types[n], n + "~")
            elif cur is None:
                continue
            elif isinstance(cur, (SList, SSet, SDict, LList, LDict, SObj)):
                # reference-typed local: the loop may rebind or mutate it
                if n in assigned_names_direct(body):
                    raise Unsupported(f"loop rebinds reference-typed local {n}; give havoc_types")
            else:
                if isinstance(cur, ZVal):
                    cur.cell.set(self.ctx.fresh(n + "~", cur.ty.sort()))
                elif isinstance(cur, SBytes) and cur.mutable:
                    cur.cell[0] = self.ctx.fresh(n + "~", BytesS)
                else:
                    frame.locals[n] = self.make(ty_of_value(cur), n + "~")
        for (local, field) in spec.modifies:
            o = frame.locals.get(local)
            if o is None:
                raise Unsupported(f"loop modifies unknown local {local}")
            self.havoc_field(o, field)

    def havoc_field(self, o, field):
        cur = o.fields.get(field)
        if cur is None:
            cur = self.getattr(o, field)
        if isinstance(cur, ZVal):
            cur.cell.set(self.ctx.fresh(f"{o.name}.{field}~", cur.ty.sort()))
        elif isinstance(cur, SBytes) and cur.mutable:
            cur.cell[0] = self.ctx.fresh(f"{o.name}.{field}~", BytesS)
        elif isinstance(cur, (SInt, SBool, SStr, SFloat)):
            o.fields[field] = self.make(ty_of_value(cur), f"{o.name}.{field}~")
        else:
            ft = self.field_type(o, field)
            if ft is None:
                raise Unsupported(f"cannot havoc field {field}")
            o.fields[field] = self.make(ft, f"{o.name}.{field}~")

    def env_of(self, frame, extra=None):
        env = dict(frame.locals)
        if extra:
            env.update(extra)
        return env

    def while_invariant(self, s, frame, spec, key):
        c = self.ctx
        name = spec.name or key
        c.oblige(f"{frame.name}/{name}/init", spec.inv(self, self.env_of(frame)), kind="invariant-init", where=f"line {s.lineno}")
        self.havoc_for_loop(s.body, frame, spec)
        c.assume(spec.inv(self, self.env_of(frame)))
        which = c.choose(2, "loop")
        v = self.eval(s.test, frame)
        t = self.truth(v)
        if which == 0:
            c.assume(t)
            if not c.is_sat():
                raise Infeasible()
            try:
                self.exec_block(s.body, frame)
            except BreakSig:
                return
            except ContinueSig:
                pass
            c.oblige(f"{frame.name}/{name}/preserve", spec.inv(self, self.env_of(frame)), kind="invariant-preserve", where=f"line {s.lineno}")
            raise PathEnd()
        c.assume(z3.Not(t))
        if not c.is_sat():
            raise Infeasible()
        self.exec_block(s.orelse, frame)

    def exec_For(self, s, frame):
        key = loop_key(s)
        spec = self.find_loop_spec(frame, key)
        if spec is None and getattr(self, "accumulate_rules", False):
            from . import accum

            if accum.applicable(s):
                it0 = self.eval(s.iter, frame)
                if self.try_iter_concrete(it0) is None:
                    return accum.run_for(self, s, frame)
        it = self.eval(s.iter, frame)
        conc = self.try_iter_concrete(it)
        if conc is not None and spec is None:
            for x in conc:
                self.assign(s.target, x, frame)
                try:
                    self.exec_block(s.body, frame)
                except BreakSig:
                    return
                except ContinueSig:
                    continue
            self.exec_block(s.orelse, frame)
            return
        if self.codec is not None and spec is None:
            return self.codec_for(s, frame, it)
        length, elem = self.iter_symbolic(it)
        if spec is not None:
            return self.for_invariant(s, frame, spec, key, length, elem)
        if self.unroll is None:
            raise Unsupported(f"loop `{key}` in {frame.name} over a symbolic collection needs an invariant or unroll bound")
        for i in range(self.unroll + 1):
            if not self.ctx.branch(length > i):
                self.exec_block(s.orelse, frame)
                return
            if i == self.unroll:
                self.ctx.ex.bounded_notes.add(f"{frame.name}: `{key}` unrolled {self.unroll}x")
                raise PathEnd()
            self.assign(s.target, elem(z3.IntVal(i)), frame)
            try:
                self.exec_block(s.body, frame)
            except BreakSig:
                return
            except ContinueSig:
                continue

    def for_invariant(self, s, frame, spec, key, length, elem):
        c = self.ctx
        name = spec.name or key
        zero = SInt(0)
        c.oblige(f"{frame.name}/{name}/init", spec.inv(self, self.env_of(frame, {"__i": zero, "__n": SInt(length)})), kind="invariant-init", where=f"line {s.lineno}")
        self.havoc_for_loop(s.body, frame, spec)
        i = c.fresh(f"{frame.name}.i", IntS)
        c.assume(z3.And(i >= 0, i <= length))
        c.assume(spec.inv(self, self.env_of(frame, {"__i": SInt(i), "__n": SInt(length)})))
        which = c.choose(2, "loop")
        if which == 0:
            c.assume(i < length)
            if not c.is_sat():
                raise Infeasible()
            self.assign(s.target, elem(i), frame)
            try:
                self.exec_block(s.body, frame)
            except BreakSig:
                return
            except ContinueSig:
                pass
            c.oblige(f"{frame.name}/{name}/preserve", spec.inv(self, self.env_of(frame, {"__i": SInt(i + 1), "__n": SInt(length)})), kind="invariant-preserve", where=f"line {s.lineno}")
            raise PathEnd()
        c.assume(i == length)
        if not c.is_sat():
            raise Infeasible()
        self.exec_block(s.orelse, frame)

    def codec_for(self, s, frame, it):
        """lock-step rule for a statement loop over a collection of unknown length"""
        from .codec import SBuf, same_value, DictItems

        cd = self.codec
        if isinstance(it, SIterable) and it.what == "range" and cd.buffers(frame, reading=True):
            # reader loop: `for _ in range(n): <reads>; result.append(v)`
            start, stop, step = it.payload
            before = {n: (v, len(v.items)) for n, v in frame.locals.items() if isinstance(v, SList)}
            # lists held in a field of a local object (`ti.bases = []; for ...: ti.bases.append(...)`)
            owners = {}
            for n, v in frame.locals.items():
                if isinstance(v, SObj):
                    for fn_, fv in v.fields.items():
                        if isinstance(fv, SList):
                            before[(n, fn_)] = (fv, len(fv.items))
                            owners[(n, fn_)] = v

            def body():
                self.assign(s.target, SInt(self.ctx.fresh("loop_ix", IntS)), frame)
                self.exec_block(s.body, frame)
                grown = [(n, v) for n, (v, k) in before.items() if len(v.items) == k + 1]
                if len(grown) != 1 or any(len(v.items) != k for n, (v, k) in before.items() if (n, v) not in grown):
                    raise Unsupported("lock-step reader loop must append exactly one element to one list")
                return grown[0]

            coll, elem, (name, lst) = cd.reader_block(frame, stop.t - start.t, body, s)
            val = lst.items.pop()
            if lst.items:
                raise Unsupported("lock-step reader loop appends to a non-empty list")
            if isinstance(name, tuple):
                owners[name].fields[name[1]] = cd.lift(coll, elem, val)
            else:
                frame.locals[name] = cd.lift(coll, elem, val)
            return
        if cd.buffers(frame, reading=False) and writes_buffer(s.body):
            return cd.writer_loop(s, frame, it)
        # a scan over a collection of unknown length: executed once on the canonical generic element.
        # Allowed effects: raising (asserts), and appending exactly one element per iteration to one
        # list that was empty before the loop (then the list IS the mapped collection).
        coll = cd.as_collection(it, frame)
        k, elem, n = cd.generic_of(coll)
        before = {nm: (v, len(v.items)) for nm, v in frame.locals.items() if isinstance(v, SList)}
        snapshot = dict(frame.locals)
        self.assign(s.target, elem, frame)
        try:
            self.exec_block(s.body, frame)
        except (BreakSig, ContinueSig):
            raise Unsupported("break/continue in a lock-step scan loop")
        grown = [(nm, v) for nm, (v, k0) in before.items() if len(v.items) != k0]
        changed = [nm for nm, v in frame.locals.items() if nm in snapshot and snapshot[nm] is not v and nm not in (getattr(s.target, "id", None),) and nm not in assigned_names_direct([s.target])]
        loop_locals = assigned_names_direct(s.body)
        changed = [nm for nm in changed if nm not in loop_locals or nm in snapshot and not _is_temp(nm, s)]
        if len(grown) == 1 and len(grown[0][1].items) == before[grown[0][0]][1] + 1 and before[grown[0][0]][1] == 0:
            nm, lst = grown[0]
            val = lst.items.pop()
            frame.locals[nm] = cd.lift(coll, elem, val)
        elif grown:
            raise Unsupported("lock-step scan loop with an unsupported list effect")
        if s.orelse:
            self.exec_block(s.orelse, frame)

    # ---- iteration helpers
    def try_iter_concrete(self, it):
        if isinstance(it, (STuple, SList)):
            return list(it.items)
        if isinstance(it, SSet):
            return list(it.items)
        if isinstance(it, SDict):
            return [k for k, _ in it.entries]
        if isinstance(it, SGen):
            return it.run()
        if isinstance(it, SIterable):
            return it.concrete(self)
        if isinstance(it, ZVal) and isinstance(it.ty, TSeq):
            n = concrete_int(z3.Length(it.t))
            if n is not None:
                return [wrap(it.ty.elem, simp(it.t[i])) for i in range(n)]
        if isinstance(it, LList):
            n = concrete_int(self.llist_len(it))
            if n is not None:
                return [self.llist_get(it, i) for i in range(n)]
        if isinstance(it, SStr):
            sv = concrete_str(it.t)
            if sv is not None:
                return [SStr(ch) for ch in sv]
        return None

    def iter_concrete(self, it):
        r = self.try_iter_concrete(it)
        if r is None:
            raise Unsupported(f"iteration over symbolic {it!r} where a concrete shape is needed")
        return r

    def iter_symbolic(self, it):
        """(length term, elem(i_term) -> V)"""
        if isinstance(it, ZVal) and isinstance(it.ty, TSeq):
            t = it.t
            return z3.Length(t), (lambda i: wrap(it.ty.elem, t[i]))
        if isinstance(it, SBytes):
            t = it.t
            return z3.Length(t), (lambda i: SInt(t[i]))
        if isinstance(it, SStr):
            t = it.t
            return z3.Length(t), (lambda i: SStr(z3.SubString(t, i, 1)))
        if isinstance(it, LList):
            return self.llist_len(it), (lambda i: self.llist_get_sym(it, i))
        if isinstance(it, SIterable):
            return it.symbolic(self)
        if isinstance(it, ZVal) and isinstance(it.ty, (TMap, TSet)):
            return SIterable("keys", it).symbolic(self)
        raise Unsupported(f"symbolic iteration over {it!r}")

    # ---- lazy lists
    def llist_len(self, l):
        return l.length + len(l.appended)

    def llist_get(self, l, i):
        """element at concrete index i (i < length assumed by caller)"""
        if l.sym_writes:
            raise Unsupported("read of a lazy list after a store at a symbolic index")
        base = concrete_int(l.length)
        if base is not None and i >= base:
            return l.appended[i - base]
        if i not in l.cells:
            l.cells[i] = self.make(l.elem_ty, f"{l.name}[{i}]")
        return l.cells[i]

    def llist_get_sym(self, l, i):
        ci = concrete_int(i)
        if ci is not None:
            return self.llist_get(l, ci)
        for wi, wv in reversed(l.sym_writes):
            if str(wi) == str(simp(i)):
                return wv
            raise Unsupported("read of a lazy list after a store at a symbolic index")
        key = ("llist-sym", l.name, str(simp(i)))
        if key not in self.ctx.ghost:
            self.ctx.ghost[key] = self.make(l.elem_ty, f"{l.name}[{simp(i)}]")
            self.ctx.ghost[("llist-sym-index",) + key[1:]] = simp(i)
        return self.ctx.ghost[key]

    # ---- lazy dicts
    def ldict_entry(self, d, key):
        for e in d.entries:
            same = self.eq(e[0], key)
            if is_true(same):
                return e
        # not syntactically a known key: fork on aliasing with every known entry
        for e in d.entries:
            if self.ctx.branch(self.eq(e[0], key)):
                return e
        present = self.ctx.fresh(f"{d.name}.has#{len(d.entries)}", BoolS)
        ent = [key, present, None, present, None]  # [key, present now, value, present at creation, value at creation]
        d.entries.append(ent)
        return ent

    def ldict_value(self, d, ent):
        if ent[2] is None:
            ent[2] = self.make(d.vty, f"{d.name}[{len(d.entries)}]")
            if ent[4] is None:
                ent[4] = ent[2]
            if d.value_inv is not None:
                self.ctx.assume(z3.Implies(ent[3], d.value_inv(self, ent[0], ent[2])))
        return ent[2]

    # ------------------------------------------------------------------ expressions
    def eval(self, e, frame):
        m = getattr(self, "eval_" + type(e).__name__, None)
        if m is None:
            raise Unsupported(f"expression {type(e).__name__} at line {getattr(e, 'lineno', '?')}")
        return m(e, frame)

    def eval_Constant(self, e, frame):
        if e.value is Ellipsis:
            return SOpaque("...")
        return self.reflect(e.value)

    def load_name(self, name, frame, node=None):
        v = frame.lookup(name)
        if v is not None:
            return v
        g = frame.module.__dict__
        mk = ("modattr", frame.module.__name__, name)
        if mk in self.ctx.ghost:
            return self.ctx.ghost[mk]
        if name in g:
            return self.reflect(g[name], name)
        if hasattr(builtins, name):
            return self.reflect(getattr(builtins, name), name)
        if frame.partial:
            # not a defect of the code: the region reads a local that is assigned outside it and that the
            # contract does not provide (e.g. after a refactoring hoisted a computation out of the region)
            raise Unsupported(f"the region reads local `{name}` that the contract's setup does not provide")
        self.raise_exc(NameError, name, node)

    def eval_Name(self, e, frame):
        return self.load_name(e.id, frame, e)

    def eval_Attribute(self, e, frame):
        return self.getattr(self.eval(e.value, frame), e.attr, e)

    def eval_Tuple(self, e, frame):
        return STuple(self.eval_elts(e.elts, frame))

    def eval_List(self, e, frame):
        return SList(self.eval_elts(e.elts, frame))

    def eval_Set(self, e, frame):
        return SSet(self.eval_elts(e.elts, frame))

    def eval_elts(self, elts, frame):
        out = []
        for x in elts:
            if isinstance(x, ast.Starred):
                out.extend(self.iter_concrete(self.eval(x.value, frame)))
            else:
                out.append(self.eval(x, frame))
        return out

    def eval_Dict(self, e, frame):
        ents = []
        for k, v in zip(e.keys, e.values):
            if k is None:
                d = self.eval(v, frame)
                if not isinstance(d, SDict):
                    raise Unsupported("** of symbolic dict")
                ents.extend(d.entries)
            else:
                ents.append((self.eval(k, frame), self.eval(v, frame)))
        return SDict(ents)

    def eval_JoinedStr(self, e, frame):
        parts = []
        for p in e.values:
            if isinstance(p, ast.Constant):
                parts.append(z3.StringVal(p.value))
            else:
                v = self.eval(p.value, frame)
                if p.conversion not in (-1, 115) and not (p.conversion == 114):
                    raise Unsupported("f-string conversion")
                if p.format_spec is not None:
                    raise Unsupported("f-string format spec")
                from .builtins_model import to_str

                parts.append(to_str(self, v, repr_=(p.conversion == 114)).t)
        if not parts:
            return SStr("")
        return SStr(parts[0] if len(parts) == 1 else z3.Concat(*parts))

    def eval_Lambda(self, e, frame):
        return SLambda(e, frame, frame.module)

    def eval_IfExp(self, e, frame):
        if is_pure_expr(e):
            def attempt():
                t = simp(self.truth(self.eval(e.test, frame)))
                if z3.is_true(t):
                    return self.eval(e.body, frame)
                if z3.is_false(t):
                    return self.eval(e.orelse, frame)
                c = self.ctx
                c.guards.append(t)
                try:
                    a = self.eval(e.body, frame)
                finally:
                    c.guards.pop()
                c.guards.append(z3.Not(t))
                try:
                    b = self.eval(e.orelse, frame)
                finally:
                    c.guards.pop()
                return self.merge_values(t, a, b)

            ok, r = self.try_nofork(attempt)
            if ok:
                return r
        if self.is_truthy(self.eval(e.test, frame)):
            return self.eval(e.body, frame)
        return self.eval(e.orelse, frame)

    def eval_NamedExpr(self, e, frame):
        v = self.eval(e.value, frame)
        self.assign(e.target, v, frame)
        return v

    def eval_BoolOp(self, e, frame):
        isand = isinstance(e.op, ast.And)
        v = None
        if self.pure_mode:
            ts = [self.truth(self.eval(x, frame)) for x in e.values]
            return SBool(z3.And(ts) if isand else z3.Or(ts))
        if is_pure_expr(e):
            def attempt():
                c = self.ctx
                pushed = 0
                try:
                    vals = []
                    for x in e.values:
                        v = self.eval(x, frame)
                        t = simp(self.truth(v))
                        vals.append((v, t))
                        g = simp(t if isand else z3.Not(t))
                        if z3.is_false(g):
                            break
                        c.guards.append(g)
                        pushed += 1
                finally:
                    for _ in range(pushed):
                        c.guards.pop()
                # value: first operand that decides, else the last
                res = vals[-1][0]
                for v, t in reversed(vals[:-1]):
                    cond = z3.Not(t) if isand else t
                    res = self.merge_values(cond, v, res)
                return res

            ok, r = self.try_nofork(attempt)
            if ok:
                return r
        for i, x in enumerate(e.values):
            v = self.eval(x, frame)
            if i == len(e.values) - 1:
                return v
            t = self.is_truthy(v)
            if isand and not t:
                return v
            if not isand and t:
                return v
        return v

    def eval_UnaryOp(self, e, frame):
        v = self.eval(e.operand, frame)
        if isinstance(e.op, ast.Not):
            return SBool(z3.Not(self.truth(v)))
        if isinstance(e.op, ast.USub):
            if isinstance(v, (SInt, SBool)):
                return SInt(-as_int(v))
            if isinstance(v, SFloat):
                return SFloat(UF_FNEG(v.t), py=(-v.py if v.py is not None else None))
        if isinstance(e.op, ast.UAdd):
            if isinstance(v, (SInt, SBool)):
                return SInt(as_int(v))
            if isinstance(v, SFloat):
                return v
        if isinstance(e.op, ast.Invert):
            if isinstance(v, (SInt, SBool)):
                return SInt(-as_int(v) - 1)
        raise Unsupported(f"unary {type(e.op).__name__} on {v!r}")

    def eval_BinOp(self, e, frame):
        a = self.eval(e.left, frame)
        b = self.eval(e.right, frame)
        return self.binop(e.op, a, b, e)

    def binop(self, op, a, b, node=None):
        from .ops import binop

        return binop(self, op, a, b, node)

    def eval_Compare(self, e, frame):
        left = self.eval(e.left, frame)
        result = None
        for i, (op, rn) in enumerate(zip(e.ops, e.comparators)):
            right = self.eval(rn, frame)
            r = self.compare(op, left, right, e)
            if i == len(e.ops) - 1:
                if result is None:
                    return SBool(r)
                return SBool(z3.And(result, r))
            # chained: short-circuit
            if not self.ctx.branch(r):
                return SBool(False)
            left = right
        return SBool(result)

    def compare(self, op, a, b, node=None):
        from .ops import compare

        return compare(self, op, a, b, node)

    def eval_Subscript(self, e, frame):
        base = self.eval(e.value, frame)
        k = self.eval_slice(e.slice, frame)
        return self.subscript(base, k, e)

    def eval_slice(self, sl, frame):
        if isinstance(sl, ast.Slice):
            lo = self.eval(sl.lower, frame) if sl.lower is not None else NONE
            hi = self.eval(sl.upper, frame) if sl.upper is not None else NONE
            st = self.eval(sl.step, frame) if sl.step is not None else NONE
            return SSlice(lo, hi, st)
        return self.eval(sl, frame)

    def eval_Slice(self, e, frame):
        return self.eval_slice(e, frame)

    def subscript(self, base, k, node=None):
        from .ops import subscript

        return subscript(self, base, k, node)

    def store_subscript(self, base, k, v, node=None):
        from .ops import store_subscript

        return store_subscript(self, base, k, v, node)

    def eval_Call(self, e, frame):
        f = self.eval(e.func, frame)
        args = []
        for a in e.args:
            if isinstance(a, ast.Starred):
                args.extend(self.iter_concrete(self.eval(a.value, frame)))
            else:
                args.append(self.eval(a, frame))
        kwargs = {}
        for kw in e.keywords:
            if kw.arg is None:
                d = self.eval(kw.value, frame)
                if not isinstance(d, SDict):
                    raise Unsupported("** of symbolic mapping")
                for k, v in d.entries:
                    ks = concrete_str(k.t) if isinstance(k, SStr) else None
                    if ks is None:
                        raise Unsupported("** with symbolic key")
                    kwargs[ks] = v
            else:
                kwargs[kw.arg] = self.eval(kw.value, frame)
        # super().__init__ and friends
        if isinstance(f, SFunc) and f.live is super:
            return self.make_super(frame, args)
        return self.call(f, args, kwargs, e)

    def make_super(self, frame, args):
        """zero-argument super() inside a method of a repo class"""
        f = frame
        while f is not None and getattr(f, "live", None) is None:
            f = f.parent
        if f is None or args:
            raise Unsupported("super() outside a method or with arguments")
        live = f.live
        qual = live.__qualname__.split(".")
        if len(qual) < 2:
            raise Unsupported("super() in a plain function")
        owner = sys.modules[live.__module__]
        for part in qual[:-1]:
            owner = getattr(owner, part)
        fnode, _ = func_node(live)
        selfname = fnode.args.args[0].arg
        return SSuper(owner, f.locals[selfname])

    # ---- comprehensions
    def eval_ListComp(self, e, frame):
        return self.comprehension(e, frame, "list")

    def eval_SetComp(self, e, frame):
        return self.comprehension(e, frame, "set")

    def eval_GeneratorExp(self, e, frame):
        return self.comprehension(e, frame, "gen")

    def eval_DictComp(self, e, frame):
        return self.comprehension(e, frame, "dict")

    def comprehension(self, e, frame, kind):
        from .ops import comprehension

        return comprehension(self, e, frame, kind)

    def eval_Starred(self, e, frame):
        raise Unsupported("starred expression")


MISSING = object()


def writes_buffer(body):
    """does the loop body (syntactically) call a write* function / method?"""
    for st in body:
        for n in ast.walk(st):
            if isinstance(n, ast.Call):
                f = n.func
                name = f.id if isinstance(f, ast.Name) else f.attr if isinstance(f, ast.Attribute) else ""
                if name.startswith("write"):
                    return True
    return False


def _is_temp(name, loop):
    return True


def _object_noop(*a, **k):
    """object.__init__ and friends"""
    return None


class SCodecWrite(V):
    """bound `write` of a nested serializable object in a codec proof"""

    kind = "codecwrite"

    def __init__(self, obj):
        self.obj = obj


class SSuper(V):
    kind = "super"

    def __init__(self, cls, obj):
        self.cls = cls
        self.obj = obj


class SSlice(V):
    kind = "slice"

    def __init__(self, lo, hi, step):
        self.lo, self.hi, self.step = lo, hi, step


class SIterable(V):
    """range / enumerate / zip / dict views / reversed"""

    kind = "iterable"

    def __init__(self, what, payload):
        self.what = what
        self.payload = payload

    def concrete(self, I):
        w, p = self.what, self.payload
        if w == "range":
            vals = [concrete_int(x.t) for x in p]
            if None in vals:
                return None
            return [SInt(i) for i in range(*vals)]
        if w == "enumerate":
            inner = I.try_iter_concrete(p[0])
            if inner is None:
                return None
            start = p[1]
            return [STuple([SInt(start.t + i), x]) for i, x in enumerate(inner)]
        if w == "zip":
            inners = [I.try_iter_concrete(x) for x in p]
            if any(x is None for x in inners):
                return None
            return [STuple(list(t)) for t in zip(*inners)]
        if w == "reversed":
            inner = I.try_iter_concrete(p)
            return None if inner is None else list(reversed(inner))
        if w in ("keys", "values", "items"):
            d = p
            if isinstance(d, SDict):
                if w == "keys":
                    return [k for k, _ in d.entries]
                if w == "values":
                    return [v for _, v in d.entries]
                return [STuple([k, v]) for k, v in d.entries]
            if isinstance(d, SSet):
                return list(d.items)
            return None
        if w == "list":
            return list(p)
        return None

    def symbolic(self, I):
        w, p = self.what, self.payload
        c = I.ctx
        if w == "range":
            start, stop, step = p
            st = concrete_int(step.t)
            if st != 1:
                raise Unsupported("symbolic range with step != 1")
            n = z3.If(stop.t > start.t, stop.t - start.t, z3.IntVal(0))
            return n, (lambda i: SInt(start.t + i))
        if w == "enumerate":
            n, el = I.iter_symbolic(p[0])
            start = p[1]
            return n, (lambda i: STuple([SInt(start.t + i), el(i)]))
        if w == "zip":
            parts = [I.iter_symbolic(x) if I.try_iter_concrete(x) is None else _conc_as_sym(I.try_iter_concrete(x)) for x in p]
            n = parts[0][0]
            for m, _ in parts[1:]:
                n = z3.If(m < n, m, n)
            return n, (lambda i: STuple([el(i) for _, el in parts]))
        if w in ("keys", "values", "items"):
            d = p
            if isinstance(d, ZVal) and isinstance(d.ty, TMap):
                # iteration order of a symbolic dict: an arbitrary enumeration of its keys.
                s, mk, accs = d.ty.parts()
                key = ("dict-iter", id(d.cell))
                n = c.ghost.get(key)
                if n is None:
                    n = c.fresh("dictlen", IntS)
                    c.assume(n >= 0)
                    c.ghost[key] = n
                ks = c.fresh("dictkeys", z3.ArraySort(IntS, d.ty.k.sort()))

                def el(i, d=d, ks=ks, accs=accs):
                    k = z3.Select(ks, i)
                    c.assume(z3.Select(accs[0](d.t), k))
                    kv = wrap(d.ty.k, k)
                    if w == "keys":
                        return kv
                    vv = I.subscript(d, kv)
                    return vv if w == "values" else STuple([kv, vv])

                return n, el
            if isinstance(d, ZVal) and isinstance(d.ty, TSet):
                n = c.fresh("setlen", IntS)
                c.assume(n >= 0)
                ks = c.fresh("setelems", z3.ArraySort(IntS, d.ty.elem.sort()))

                def el(i, d=d, ks=ks):
                    k = z3.Select(ks, i)
                    c.assume(z3.Select(d.t, k))
                    return wrap(d.ty.elem, k)

                return n, el
        raise Unsupported(f"symbolic iteration over {w}")


def _conc_as_sym(items):
    def el(i):
        ci = concrete_int(i)
        if ci is None:
            raise Unsupported("symbolic index into concrete list in zip")
        return items[ci]

    return z3.IntVal(len(items)), el


class SGen(V):
    """generator object: executed eagerly when iterated (must have a concrete shape)"""

    kind = "gen"

    def __init__(self, interp, fnode, mod, args, kwargs, live, parent):
        self.interp, self.fnode, self.mod = interp, fnode, mod
        self.args, self.kwargs, self.live, self.parent = args, kwargs, live, parent
        self.items = None

    def run(self):
        if self.items is not None:
            return self.items
        I = self.interp
        frame = Frame(self.mod, self.fnode.name, self.parent)

        def dflt(dnode, which):
            if self.live is not None:
                if which[0] == "pos":
                    return I.reflect(self.live.__defaults__[which[1]])
                return I.reflect(self.live.__kwdefaults__[which[1]])
            return I.eval(dnode, self.parent or frame)

        I.bind_args(self.fnode, self.args, self.kwargs, dflt, frame)
        frame.yields = []
        I.depth += 1
        try:
            I.exec_block(self.fnode.body, frame)
        except ReturnSig:
            pass
        finally:
            I.depth -= 1
        self.items = frame.yields
        return self.items


def _eval_Yield(self, e, frame):
    f = frame
    while not hasattr(f, "yields"):
        f = f.parent
        if f is None:
            raise Unsupported("yield outside generator")
    f.yields.append(self.eval(e.value, frame) if e.value is not None else NONE)
    return NONE


def _eval_YieldFrom(self, e, frame):
    f = frame
    while not hasattr(f, "yields"):
        f = f.parent
        if f is None:
            raise Unsupported("yield outside generator")
    f.yields.extend(self.iter_concrete(self.eval(e.value, frame)))
    return NONE


Interp.eval_Yield = _eval_Yield
Interp.eval_YieldFrom = _eval_YieldFrom


# ----------------------------------------------------------------------------
# helpers


def as_int(v):
    if isinstance(v, SInt):
        return v.t
    if isinstance(v, SBool):
        return z3.If(v.t, z3.IntVal(1), z3.IntVal(0))
    raise Unsupported(f"int expected, got {v!r}")


def is_zero_const(v):
    return isinstance(v, (SInt, SBool)) and concrete_int(as_int(v)) == 0


def scalar_kind(v):
    if isinstance(v, (SInt, SBool)):
        return "int"
    if isinstance(v, SStr):
        return "str"
    if isinstance(v, SNoneT):
        return "none"
    if isinstance(v, SFloat):
        return "float"
    if isinstance(v, SBytes):
        return "bytes"
    if isinstance(v, (STuple,)):
        return "tuple"
    if isinstance(v, (SList,)):
        return "list"
    if isinstance(v, SObj):
        return "obj"
    if isinstance(v, SFunc):
        return "func"
    return None


def kinds_compatible(ty, v):
    if isinstance(ty, (TInt, TBool)):
        return isinstance(v, (SInt, SBool))
    if isinstance(ty, TStr):
        return isinstance(v, SStr)
    if isinstance(ty, TTuple):
        return isinstance(v, STuple)
    return True


def bytes_term(b):
    if not b:
        return z3.Empty(BytesS)
    units = [z3.Unit(z3.IntVal(x)) for x in b]
    return units[0] if len(units) == 1 else z3.Concat(*units)


def has_repo_dunder(cls, name):
    st = inspect.getattr_static(cls, name, None)
    return isinstance(st, pytypes.FunctionType) and func_node(st)[0] is not None


def in_repo_class(cls):
    mod = sys.modules.get(getattr(cls, "__module__", ""), None)
    return mod is not None and in_repo(mod)


def _attr_kind(st):
    if st is MISSING:
        return "missing"
    if isinstance(st, (pytypes.FunctionType, property, classmethod, staticmethod)) or type(st).__name__ == "_lru_cache_wrapper":
        return "code"
    return "data"


def walk_no_nested(fnode):
    """walk a function body without descending into nested function/class definitions"""
    work = list(fnode.body)
    while work:
        n = work.pop()
        yield n
        for ch in ast.iter_child_nodes(n):
            if isinstance(ch, (ast.FunctionDef, ast.AsyncFunctionDef, ast.Lambda, ast.ClassDef)):
                continue
            work.append(ch)


def assigned_names(body):
    """local names (re)bound or mutated via method call anywhere in a loop body"""
    out = set()
    for st in body:
        for n in ast.walk(st):
            if isinstance(n, ast.Name) and isinstance(n.ctx, (ast.Store, ast.Del)):
                out.add(n.id)
            elif isinstance(n, ast.Call) and isinstance(n.func, ast.Attribute) and isinstance(n.func.value, ast.Name):
                if n.func.attr in MUTATORS:
                    out.add(n.func.value.id)
            elif isinstance(n, (ast.Subscript,)) and isinstance(n.ctx, (ast.Store, ast.Del)) and isinstance(n.value, ast.Name):
                out.add(n.value.id)
    return out


def assigned_names_direct(body):
    out = set()
    for st in body:
        for n in ast.walk(st):
            if isinstance(n, ast.Name) and isinstance(n.ctx, (ast.Store, ast.Del)):
                out.add(n.id)
    return out


MUTATORS = {"append", "extend", "add", "update", "remove", "discard", "pop", "clear", "insert", "setdefault", "popitem", "sort", "reverse"}


PURE_CALLS = {"len", "isinstance", "int", "str", "bool", "min", "max", "abs"}


def is_pure_expr(e):
    """syntactically free of side effects (calls limited to a few builtins)"""
    for n in ast.walk(e):
        if isinstance(n, ast.Call):
            if not (isinstance(n.func, ast.Name) and n.func.id in PURE_CALLS):
                return False
        elif isinstance(n, (ast.NamedExpr, ast.Yield, ast.YieldFrom, ast.Await, ast.Lambda, ast.ListComp, ast.SetComp, ast.DictComp, ast.GeneratorExp, ast.Starred, ast.JoinedStr)):
            return False
    return True


def mergeable_block(stmts):
    for st in stmts:
        if isinstance(st, ast.Pass):
            continue
        if isinstance(st, ast.Assign):
            if not all(isinstance(t, ast.Name) for t in st.targets) or not is_pure_expr(st.value):
                return False
        elif isinstance(st, ast.AnnAssign):
            if not isinstance(st.target, ast.Name) or (st.value is not None and not is_pure_expr(st.value)):
                return False
        elif isinstance(st, ast.AugAssign):
            if not isinstance(st.target, ast.Name) or not is_pure_expr(st.value):
                return False
        elif isinstance(st, ast.If):
            if not mergeable_if(st):
                return False
        else:
            return False
    return True


def mergeable_if(s):
    return is_pure_expr(s.test) and mergeable_block(s.body) and mergeable_block(s.orelse)
