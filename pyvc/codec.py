"""pyvc.codec -- relational verification of writer / reader pairs (engine E2).

The real `write(self, buf)` is executed symbolically on a lazily initialised object; the buffer is an
abstract token sequence.  The real `read(cls, buf)` is then executed on exactly those tokens.  The
trusted contract of the librt.internal primitives is the prefix-code law
`read_X(write_X(v) ++ rest) = (v, rest)`; reading kind X where the writer put kind Y is a LayoutMismatch
(an obligation failure).

Loops over collections of unknown length are handled by the *lock-step rule* (sound by induction on the
length): a writer loop over a collection emits one block token holding the tokens written for the
canonical generic element; a reader loop / comprehension positioned at that block must run the same
number of times (obligation) and is executed once on the generic element's tokens; if it yields the
generic element itself, the result IS the source collection.

Nested serializable objects are modular: `other.write(buf)` emits an object token, `read_type(buf)` /
`Other.read(buf)` consume it (their own round trip is proved per class).
"""
from __future__ import annotations

import ast
import inspect
import types as pytypes

import z3

from .ctx import Unsupported
from .sym import *  # noqa: F401,F403
from .types import *  # noqa: F401,F403
from .interp import NONE, PyExc, SIterable, func_node, class_node


class LayoutMismatch(Exception):
    """reader and writer disagree about the layout"""


class SBuf(V):
    kind = "buffer"

    def __init__(self, tokens=None, reading=False):
        self.tokens = list(tokens or [])
        self.pos = 0
        self.reading = reading

    def put(self, tok):
        if self.reading:
            raise Unsupported("write to a read buffer")
        self.tokens.append(tok)

    def peek(self):
        if self.pos >= len(self.tokens):
            return None
        return self.tokens[self.pos]

    def take(self, kind):
        t = self.peek()
        if t is None:
            raise PyExc(LayoutMismatch, None, f"read {kind} past the end of what the writer wrote", "")
        if t[0] != kind:
            raise PyExc(LayoutMismatch, None, f"reader expects {kind} where the writer put {t[0]}", "")
        self.pos += 1
        return t


class SBytesOf(V):
    """the bytes librt.internal.extract_symbol cut out of a buffer: exactly the body of nested object
    `obj` (its class tag already consumed).  ReadBuffer(those bytes) presents that body again."""

    kind = "bytes-of-object"

    def __init__(self, obj):
        self.obj = obj


class SMapped(V):
    """[value(e) for e in src]: a list known only through its source and its generic element"""

    kind = "mapped"

    def __init__(self, src, value):
        self.src = src
        self.value = value


class SJsonTok(V):
    """what a nested object's serialize() returned, in a JSON round-trip proof: an opaque JSON value that
    the matching deserialize turns back into that object (the pair is proved by the nested class's own
    target)"""

    kind = "jsontok"

    def __init__(self, obj, extra=()):
        self.obj = obj
        self.extra = tuple(extra)


class SFlagsTok(V):
    """nodes.get_flags(node, names): the list of those names whose attribute is true, as one opaque JSON
    value; nodes.set_flags(other, tok) sets exactly those attributes to True on `other`"""

    kind = "flagstok"

    def __init__(self, obj, names):
        self.obj = obj
        self.names = list(names)


def json_flag_overrides():
    def get_flags(I, args, kw):
        node, names = args[0], args[1]
        items = I.try_iter_concrete(names)
        if items is None or not all(isinstance(x, SStr) and z3.is_string_value(simp(x.t)) for x in items):
            raise Unsupported("get_flags with a symbolic name list")
        return SFlagsTok(node, [simp(x.t).as_string() for x in items])

    def set_flags(I, args, kw):
        node, tok = args[0], args[1]
        if not isinstance(tok, SFlagsTok):
            raise Unsupported("set_flags applied to a value that is not the output of get_flags")
        for name in tok.names:
            cur = I.getattr(node, name)
            src = I.getattr(tok.obj, name)
            I.setattr(node, name, SBool(z3.Or(I.truth(src), I.truth(cur))), None)
        return NONE

    return {"mypy.nodes:get_flags": get_flags, "mypy.nodes:set_flags": set_flags}


class Codec:
    def __init__(self, I, nested_readers=(), tag_of_class=None):
        self.I = I
        self.json = False
        self.root = None
        self.root_read_started = False
        self.root_write_started = False
        self.generic = {}  # id(collection) -> (index term, generic element, count term)
        self.nested_readers = set(nested_readers)
        self.class_tags = tag_of_class or {}
        self.notes = []
        self.order_events = []  # determinism: iteration over unordered collections inside writers

    # ---- canonical generic element of a collection
    def generic_of(self, coll):
        I = self.I
        key = id(coll)
        if key in self.generic:
            return self.generic[key]
        c = I.ctx
        k = c.fresh("gen_k", IntS)
        if isinstance(coll, ZVal) and isinstance(coll.ty, TSeq):
            n = z3.Length(coll.t)
            elem = wrap(coll.ty.elem, coll.t[k])
        elif isinstance(coll, LList):
            n = I.llist_len(coll)
            elem = I.llist_get_sym(coll, k)
        elif isinstance(coll, SMapped):
            kk, e, n = self.generic_of(coll.src)
            self.generic[key] = (kk, coll.value, n)
            return self.generic[key]
        elif isinstance(coll, SetItems):
            sv = coll.s
            n = c.fresh("set_len", IntS)
            c.assume(n >= 0)
            kt = c.fresh("gen_member", sv.ty.elem.sort())
            c.assume(z3.Select(sv.t, kt))
            elem = wrap(sv.ty.elem, kt)
        elif isinstance(coll, DictItems):
            d = coll.d
            gkey = ("dictgen", id(d))
            if gkey not in self.generic:
                if isinstance(d, ZVal) and isinstance(d.ty, TMap):
                    s, mk, accs = d.ty.parts()
                    n = c.fresh("dict_len", IntS)
                    c.assume(n >= 0)
                    kt = c.fresh("gen_key", d.ty.k.sort())
                    c.assume(z3.Select(accs[0](d.t), kt))
                    kv = wrap(d.ty.k, kt)
                    vv = I.subscript(d, kv)
                elif isinstance(d, LDict):
                    n = c.fresh(f"{d.name}.len", IntS)
                    c.assume(n >= 0)
                    kv = I.make(d.kty, f"{d.name}.genkey")
                    ent = I.ldict_entry(d, kv)
                    ent[1] = z3.BoolVal(True)
                    ent[3] = z3.BoolVal(True)
                    vv = I.ldict_value(d, ent)
                else:
                    raise Unsupported(f"lock-step over items of {d!r}")
                self.generic[gkey] = (k, kv, vv, n)
            k, kv, vv, n = self.generic[gkey]
            elem = kv if coll.what == "keys" else vv if coll.what == "values" else STuple([kv, vv])
            self.generic[key] = (k, elem, n)
            return self.generic[key]
        else:
            raise Unsupported(f"lock-step over {coll!r}")
        c.assume(z3.Implies(n > 0, z3.And(k >= 0, k < n)))
        self.generic[key] = (k, elem, n)
        return self.generic[key]

    # ---- buffers in scope
    def buffers(self, frame, reading):
        out = []
        f = frame
        seen = set()
        while f is not None:
            for v in f.locals.values():
                if isinstance(v, SBuf) and v.reading == reading and id(v) not in seen:
                    seen.add(id(v))
                    out.append(v)
            f = f.parent
        return out

    # ---- writer side: `for x in coll: <writes>`
    def writer_loop(self, s, frame, it):
        I = self.I
        coll = self.as_collection(it, frame)
        bufs = self.buffers(frame, reading=False)
        if not bufs:
            raise Unsupported("lock-step writer loop without a write buffer in scope")
        k, elem, n = self.generic_of(coll)
        saved = [(b, b.tokens) for b in bufs]
        for b in bufs:
            b.tokens = []
        I.assign(s.target, elem, frame)
        I.exec_block(s.body, frame)
        body = [(b, b.tokens) for b in bufs]
        for b, toks in saved:
            b.tokens = toks
        wrote = [(b, toks) for b, toks in body if toks]
        for b, toks in wrote:
            b.put(("rep", coll, n, elem, toks))
        if s.orelse:
            I.exec_block(s.orelse, frame)

    def as_collection(self, it, frame=None):
        if isinstance(it, (LList, SMapped)) or (isinstance(it, ZVal) and isinstance(it.ty, TSeq)):
            return it
        if isinstance(it, SIterable) and it.what in ("items", "keys", "values"):
            d = it.payload
            self.order_events.append(("dict-order", getattr(d, "name", "dict")))
            return self.dict_items(d, it.what)
        if isinstance(it, (LDict,)) or (isinstance(it, ZVal) and isinstance(it.ty, TMap)):
            self.order_events.append(("dict-order", getattr(it, "name", "dict")))
            return self.dict_items(it, "keys")
        if isinstance(it, SortedKeys):
            # the entries leave in key order: the reader can only rebuild the dict in that order, so the
            # insertion order of the original is lost (an obligation failure where that order is observable)
            self.order_events.append(("sorted-keys", it.d))
            return self.dict_items(it.d, "keys")
        if isinstance(it, SIterable) and it.what == "enumerate":
            inner = self.as_collection(it.payload[0], frame)
            k, elem, n = self.generic_of(inner)
            key = ("enum", id(inner))
            if key not in self.generic:
                self.generic[key] = SMapped(inner, STuple([SInt(k + it.payload[1].t), elem]))
            return self.generic[key]
        if isinstance(it, ZVal) and isinstance(it.ty, TSet):
            # iteration order of a set is not a function of its value: recorded (an obligation failure
            # for writers whose bytes must be deterministic); the round trip itself is order-independent
            self.order_events.append(("set-order", "set"))
            return self.set_items(it)
        raise Unsupported(f"lock-step over {it!r}")

    def set_items(self, sv):
        key = ("setitems", id(sv.cell))
        if key not in self.generic:
            self.generic[key] = SetItems(sv)
        return self.generic[key]

    def dict_items(self, d, what):
        key = ("items", id(d), what)
        if key not in self.generic:
            self.generic[key] = DictItems(d, what)
        return self.generic[key]

    # ---- reader side: comprehension / loop over range(n) positioned at a block
    def reader_block(self, frame, count_term, run_body, node=None):
        """run_body() executes the element expression once; returns its value(s)"""
        I = self.I
        bufs = self.buffers(frame, reading=True)
        if len(bufs) != 1:
            raise Unsupported("lock-step reader needs exactly one read buffer in scope")
        b = bufs[0]
        t = b.peek()
        if t is None or t[0] != "rep":
            # the writer wrote nothing for an empty collection only if it wrote no block at all
            raise PyExc(LayoutMismatch, None, f"reader loops where the writer put {t[0] if t else 'nothing'}", "")
        _, coll, n, elem, body = t
        I.ctx.oblige("codec/loop-count-matches", n == count_term, kind="codec", where=f"line {getattr(node, 'lineno', '?')}")
        saved_tokens, saved_pos = b.tokens, b.pos
        b.tokens, b.pos = body, 0
        try:
            val = run_body()
            if b.pos != len(b.tokens):
                raise PyExc(LayoutMismatch, None, "reader consumes fewer tokens per element than the writer wrote", "")
        finally:
            b.tokens, b.pos = saved_tokens, saved_pos
        b.pos += 1
        return coll, elem, val

    def lift(self, coll, elem, val):
        """the collection [val for elem in coll]"""
        I = self.I
        if isinstance(coll, DictItems) and coll.what == "keys" and isinstance(val, STuple) and len(val.items) == 2:
            k, kv, vv, n = self.generic[("dictgen", id(coll.d))]
            if same_value(I, val, STuple([kv, vv])):
                return self.dict_items(coll.d, "items")
        if same_value(I, val, elem):
            return coll
        # a map that undoes an earlier map: [g(f(e)) for ...] with g(f(e)) the source's own element
        src = coll
        while isinstance(src, SMapped):
            src = src.src
            if same_value(I, val, self.generic_of(src)[1]):
                return src
        return SMapped(coll, val)


class DictItems(V):
    kind = "dictitems"

    def __init__(self, d, what):
        self.d = d
        self.what = what


class SetItems(V):
    kind = "setitems"

    def __init__(self, s):
        self.s = s


class SortedKeys(V):
    """sorted(d) for a symbolic dict d"""

    kind = "sortedkeys"

    def __init__(self, d):
        self.d = d


def same_value(I, a, b):
    if a is b:
        return True
    if isinstance(a, STuple) and isinstance(b, STuple) and len(a.items) == len(b.items):
        return all(same_value(I, x, y) for x, y in zip(a.items, b.items))
    try:
        scal = (SInt, SBool, SStr, SFloat, SBytes, SOpt, SNoneT)
        if isinstance(a, scal) and isinstance(b, scal):
            return I.ctx.implied(I.eq(a, b))
    except Unsupported:
        return False
    if isinstance(a, ZVal) and isinstance(b, ZVal) and a.cell is b.cell:
        return True
    return False


# ---------------------------------------------------------------------------- primitives


def prim_overrides():
    def wbuf(args):
        b = args[0]
        if not isinstance(b, SBuf):
            raise Unsupported("buffer primitive on a non-buffer")
        return b

    def write_tag(I, args, kw):
        wbuf(args).put(("tag", SInt(ival(I.unopt(args[1])))))
        return NONE

    def write_bool(I, args, kw):
        v = I.unopt(args[1])
        wbuf(args).put(("tag", SInt(z3.If(I.truth(v), z3.IntVal(1), z3.IntVal(0)))))
        return NONE

    def write_int(I, args, kw):
        v = I.unopt(args[1])
        if not isinstance(v, (SInt, SBool)):
            raise PyExc(TypeError, None, "write_int of non-int", "")
        wbuf(args).put(("int", v if isinstance(v, SInt) else SInt(ival(v))))
        return NONE

    def write_str(I, args, kw):
        v = I.unopt(args[1])
        if not isinstance(v, SStr):
            raise PyExc(TypeError, None, f"write_str of {v!r}", "")
        wbuf(args).put(("str", v))
        return NONE

    def write_bytes(I, args, kw):
        v = I.unopt(args[1])
        if not isinstance(v, SBytes):
            raise PyExc(TypeError, None, "write_bytes of non-bytes", "")
        wbuf(args).put(("bytes", v))
        return NONE

    def write_float(I, args, kw):
        v = I.unopt(args[1])
        wbuf(args).put(("float", v))
        return NONE

    def read_tag(I, args, kw):
        b = wbuf(args)
        t = b.peek()
        if t is not None and t[0] == "obj":
            # the class tag of a nested object, written first by its own write()
            o = t[1]
            b.tokens = list(b.tokens)
            b.tokens[b.pos] = ("objbody", o)
            return tag_of_object(I, o)
        return b.take("tag")[1]

    def read_bool(I, args, kw):
        t = wbuf(args).take("tag")[1]
        I.check_or_raise(z3.Or(t.t == 0, t.t == 1), ValueError, "read_bool on a tag that is not a boolean")
        return SBool(t.t == 1)

    def read_int(I, args, kw):
        return wbuf(args).take("int")[1]

    def read_str(I, args, kw):
        return wbuf(args).take("str")[1]

    def read_bytes(I, args, kw):
        return wbuf(args).take("bytes")[1]

    def read_float(I, args, kw):
        return wbuf(args).take("float")[1]

    def new_wbuf(I, args, kw):
        return SBuf()

    def extract_symbol(I, args, kw):
        """trusted primitive: removes the rest of ONE serialized symbol (whose tag was just read) from
        the buffer and returns it as bytes"""
        b = wbuf(args)
        t = b.peek()
        if t is None or t[0] != "objbody":
            raise PyExc(LayoutMismatch, None, "extract_symbol where no nested symbol body follows", "")
        b.pos += 1
        cache = I.ctx.ghost.setdefault("bytes_of", {})
        if id(t[1]) not in cache:
            cache[id(t[1])] = SBytesOf(t[1])
        return cache[id(t[1])]

    def new_rbuf(I, args, kw):
        v = args[0]
        if isinstance(v, SBytesOf):
            return SBuf([("objbody", v.obj)], reading=True)
        raise Unsupported("ReadBuffer over bytes that are not an extracted symbol")

    def write_flags(I, args, kw):
        """mypy.cache.write_flags / read_flags are a pair proved on their own (target codec.flags):
        inside class proofs the packed integer travels as one token holding the flag list"""
        flags = args[1]
        if not isinstance(flags, SList):
            raise Unsupported("write_flags of a non-literal list")
        I.check_or_raise(z3.BoolVal(len(flags.items) <= 26), AssertionError, "This many flags not supported yet")
        wbuf(args).put(("flags", [SBool(I.truth(f)) for f in flags.items]))
        return NONE

    def read_flags(I, args, kw):
        n = kw.get("num_flags", args[1] if len(args) > 1 else None)
        toks = wbuf(args).take("flags")[1]
        cn = concrete_int(ival(n))
        if cn is None or cn != len(toks):
            raise PyExc(LayoutMismatch, None, f"read_flags({cn}) where {len(toks)} flags were written", "")
        return SList(list(toks))

    out = {"mypy.cache:write_flags": write_flags, "mypy.cache:read_flags": read_flags}
    # only the C primitives of librt.internal are modelled; mypy.cache's tagged helpers
    # (write_int = tag + bare, ...) are ordinary repo code and are executed for real
    for mod in ("librt.internal",):
        out[f"{mod}:write_tag"] = write_tag
        out[f"{mod}:write_bool"] = write_bool
        out[f"{mod}:write_int"] = write_int
        out[f"{mod}:write_str"] = write_str
        out[f"{mod}:write_bytes"] = write_bytes
        out[f"{mod}:write_float"] = write_float
        out[f"{mod}:read_tag"] = read_tag
        out[f"{mod}:read_bool"] = read_bool
        out[f"{mod}:read_int"] = read_int
        out[f"{mod}:read_str"] = read_str
        out[f"{mod}:read_bytes"] = read_bytes
        out[f"{mod}:read_float"] = read_float
        out[f"{mod}:WriteBuffer"] = new_wbuf
        out[f"{mod}:extract_symbol"] = extract_symbol
        out[f"{mod}:ReadBuffer"] = new_rbuf
        out["builtins:ReadBuffer"] = new_rbuf
    return out


def ival(v):
    if isinstance(v, SInt):
        return v.t
    if isinstance(v, SBool):
        return z3.If(v.t, z3.IntVal(1), z3.IntVal(0))
    raise Unsupported(f"int expected: {v!r}")


_tag_cache = {}


def class_tag(cls):
    """the tag constant a class's write() emits first (read from its AST)"""
    if cls in _tag_cache:
        return _tag_cache[cls]
    tag = None
    st = inspect.getattr_static(cls, "write", None)
    if isinstance(st, pytypes.FunctionType):
        fnode, mod = func_node(st)
        if fnode is not None:
            for n in ast.walk(fnode):
                if isinstance(n, ast.Call) and isinstance(n.func, ast.Name) and n.func.id == "write_tag" and len(n.args) == 2 and isinstance(n.args[1], ast.Name):
                    tag = mod.__dict__.get(n.args[1].id)
                    break
    _tag_cache[cls] = tag
    return tag


def tag_of_object(I, o):
    """the tag a nested object's write() starts with"""
    c = I.ctx
    if isinstance(o, SObj):
        cands = [k for k in o.cands if inspect.getattr_static(k, "write", None) is not None and class_tag(k) is not None]
        if 1 <= len(cands) <= 6:
            if len(cands) > 1:
                i = c.choose(len(cands), "nested-class")
                o.cands = [cands[i]]
                cands = o.cands
            return SInt(int(class_tag(cands[0])))
        key = ("tag_of", id(o))
        if key not in c.ghost:
            t = c.fresh(f"tag_of({o.name})", IntS)
            tags = sorted({int(class_tag(k)) for k in cands}) if cands else []
            if tags:
                c.assume(z3.Or([t == v for v in tags]))
            else:
                c.assume(z3.And(t >= 50, t <= 253))
            c.ghost[key] = t
        return SInt(c.ghost[key])
    raise Unsupported("tag of a non-object token")
