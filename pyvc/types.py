"""pyvc.types -- annotations -> type descriptors, symbolic value creation, wrap/unwrap."""
from __future__ import annotations

import ast
import builtins
import collections
import collections.abc
import types as pytypes
import typing

import z3

from .ctx import Unsupported
from .sym import *  # noqa: F401,F403


def all_subclasses(cls):
    out = [cls]
    seen = {cls}
    work = [cls]
    while work:
        c = work.pop()
        try:
            subs = c.__subclasses__()
        except TypeError:
            subs = []
        for s in subs:
            if s not in seen:
                seen.add(s)
                out.append(s)
                work.append(s)
    return out


_SEQ_NAMES = {"list", "List", "Sequence", "Iterable", "Iterator", "Collection", "MutableSequence"}
_SET_NAMES = {"set", "Set", "frozenset", "FrozenSet", "AbstractSet", "MutableSet"}
_MAP_NAMES = {"dict", "Dict", "Mapping", "MutableMapping", "OrderedDict"}


def seq_of(elem, mutable=True):
    if elem.pure:
        return TSeq(elem, mutable)
    return TLList(elem)


def map_of(k, v, default=False):
    if k.pure and v.pure:
        return TMap(k, v, default)
    return TLDict(k, v, default=default or None)


def set_of(elem):
    if elem.pure:
        return TSet(elem)
    raise Unsupported(f"set of impure elements {elem}")


def ty_from_ann(node, globs, overrides=None):
    """annotation AST (or string) -> Ty.  `globs` is the defining module's live __dict__."""
    if isinstance(node, str):
        node = ast.parse(node, mode="eval").body
    if isinstance(node, ast.Constant):
        if node.value is None:
            return TNone()
        if isinstance(node.value, str):
            return ty_from_ann(node.value, globs, overrides)
        raise Unsupported(f"annotation constant {node.value!r}")
    if isinstance(node, ast.BinOp) and isinstance(node.op, ast.BitOr):
        return mk_union([ty_from_ann(node.left, globs, overrides), ty_from_ann(node.right, globs, overrides)])
    if isinstance(node, ast.Name):
        return ty_from_name(node.id, globs, overrides)
    if isinstance(node, ast.Attribute):
        base = resolve_ann_obj(node.value, globs)
        obj = getattr(base, node.attr)
        return ty_from_live(obj, globs, overrides)
    if isinstance(node, ast.Subscript):
        head = node.value
        hname = head.id if isinstance(head, ast.Name) else (head.attr if isinstance(head, ast.Attribute) else None)
        args = node.slice.elts if isinstance(node.slice, ast.Tuple) else [node.slice]
        if hname in ("Final", "ClassVar", "Annotated", "Required", "NotRequired"):
            return ty_from_ann(args[0], globs, overrides)
        if hname == "Optional":
            return mk_union([ty_from_ann(args[0], globs, overrides), TNone()])
        if hname == "Union":
            return mk_union([ty_from_ann(a, globs, overrides) for a in args])
        if hname in _SEQ_NAMES:
            return seq_of(ty_from_ann(args[0], globs, overrides))
        if hname in _SET_NAMES:
            return set_of(ty_from_ann(args[0], globs, overrides))
        if hname in _MAP_NAMES:
            return map_of(ty_from_ann(args[0], globs, overrides), ty_from_ann(args[1], globs, overrides))
        if hname == "defaultdict":
            return map_of(ty_from_ann(args[0], globs, overrides), ty_from_ann(args[1], globs, overrides), default=True)
        if hname in ("tuple", "Tuple"):
            if len(args) == 2 and isinstance(args[1], ast.Constant) and args[1].value is Ellipsis:
                return seq_of(ty_from_ann(args[0], globs, overrides), mutable=False)
            return TTuple([ty_from_ann(a, globs, overrides) for a in args])
        if hname in ("type", "Type", "Callable", "Literal"):
            if hname == "Literal":
                vals = [a.value for a in args if isinstance(a, ast.Constant)]
                if vals and all(isinstance(v, bool) for v in vals):
                    return TBool()
                if vals and all(isinstance(v, int) for v in vals):
                    return TInt()
                if vals and all(isinstance(v, str) for v in vals):
                    return TStr()
            return TAny()
        # generic class: Foo[T]
        return ty_from_ann(head, globs, overrides)
    raise Unsupported(f"annotation {ast.dump(node)[:80]}")


def resolve_ann_obj(node, globs):
    if isinstance(node, ast.Name):
        if node.id in globs:
            return globs[node.id]
        return getattr(builtins, node.id)
    if isinstance(node, ast.Attribute):
        return getattr(resolve_ann_obj(node.value, globs), node.attr)
    raise Unsupported("annotation object")


def mk_union(alts):
    flat = []
    for a in alts:
        if isinstance(a, TUnion):
            flat.extend(a.alts)
        elif isinstance(a, TOpt):
            flat.extend([a.inner, TNone()])
        else:
            flat.append(a)
    # bool is absorbed by int
    out = []
    seen = set()
    for a in flat:
        r = repr(a)
        if r not in seen:
            seen.add(r)
            out.append(a)
    non_none = [a for a in out if not isinstance(a, TNone)]
    if len(non_none) == len(out):
        return out[0] if len(out) == 1 else TUnion(out)
    if len(non_none) == 1:
        return TOpt(non_none[0])
    if not non_none:
        return TNone()
    return TOpt(TUnion(non_none))


def ty_from_name(name, globs, overrides=None):
    if name == "int":
        return TInt()
    if name == "bool":
        return TBool()
    if name == "str":
        return TStr()
    if name == "float":
        return TFloat()
    if name == "bytes":
        return TBytes()
    if name == "bytearray":
        return TBytes(mutable=True)
    if name == "None":
        return TNone()
    if name in ("object", "Any"):
        return TAny()
    if name in ("i64", "i32", "i16", "u8"):
        return TInt()
    obj = globs.get(name)
    if obj is None:
        obj = getattr(builtins, name, None)
    if obj is None:
        for modname in ("typing", "collections.abc"):
            import importlib

            m = importlib.import_module(modname)
            if hasattr(m, name):
                obj = getattr(m, name)
                break
    if obj is None:
        raise Unsupported(f"cannot resolve annotation name {name}")
    return ty_from_live(obj, globs, overrides)


def ty_from_live(obj, globs=None, overrides=None):
    if obj is None or obj is type(None):
        return TNone()
    if obj is int:
        return TInt()
    if obj is bool:
        return TBool()
    if obj is str:
        return TStr()
    if obj is float:
        return TFloat()
    if obj is bytes:
        return TBytes()
    if obj is bytearray:
        return TBytes(mutable=True)
    if obj is object or obj is typing.Any:
        return TAny()
    if isinstance(obj, str):
        return ty_from_ann(obj, globs or {}, overrides)
    if isinstance(obj, typing.ForwardRef):
        return ty_from_ann(obj.__forward_arg__, globs or {}, overrides)
    origin = typing.get_origin(obj)
    if origin is not None:
        args = typing.get_args(obj)
        if origin in (typing.Union, pytypes.UnionType):
            return mk_union([ty_from_live(a, globs, overrides) for a in args])
        if origin in (typing.Final, typing.ClassVar):
            return ty_from_live(args[0], globs, overrides)
        if origin in (list, collections.abc.Sequence, collections.abc.Iterable, collections.abc.Iterator, collections.abc.Collection):
            return seq_of(ty_from_live(args[0], globs, overrides))
        if origin in (set, frozenset, collections.abc.Set):
            return set_of(ty_from_live(args[0], globs, overrides))
        if origin in (dict, collections.abc.Mapping, collections.abc.MutableMapping):
            return map_of(ty_from_live(args[0], globs, overrides), ty_from_live(args[1], globs, overrides))
        if origin is collections.defaultdict:
            return map_of(ty_from_live(args[0], globs, overrides), ty_from_live(args[1], globs, overrides), default=True)
        if origin is tuple:
            if len(args) == 2 and args[1] is Ellipsis:
                return seq_of(ty_from_live(args[0], globs, overrides), mutable=False)
            return TTuple([ty_from_live(a, globs, overrides) for a in args])
        if origin is typing.Literal:
            if all(isinstance(a, bool) for a in args):
                return TBool()
            if all(isinstance(a, int) for a in args):
                return TInt()
            if all(isinstance(a, str) for a in args):
                return TStr()
            return TAny()
        if origin is type or origin is collections.abc.Callable:
            return TAny()
        if isinstance(origin, type):
            return ty_from_live(origin, globs, overrides)
        return TAny()
    if isinstance(obj, typing.TypeVar):
        return TAny()
    if isinstance(obj, type):
        if issubclass(obj, tuple) and hasattr(obj, "_fields"):
            hints = getattr(obj, "__annotations__", {})
            mod = __import__(obj.__module__, fromlist=["x"]).__dict__
            t = TTuple([ty_from_live(hints[f], mod, overrides) for f in obj._fields])
            t.names = list(obj._fields)
            t.cls = obj
            return t
        return TObj(obj)
    return TAny()


# ----------------------------------------------------------------------------
# wrap / unwrap pure values


def wrap(ty, term):
    if isinstance(ty, TInt):
        return SInt(term)
    if isinstance(ty, TBool):
        return SBool(term)
    if isinstance(ty, TStr):
        return SStr(term)
    if isinstance(ty, TFloat):
        return SFloat(term)
    if isinstance(ty, TBytes):
        return SBytes(term, ty.mutable)
    if isinstance(ty, TTuple):
        s, mk, accs = ty.parts()
        t = STuple([wrap(it, acc(term)) for it, acc in zip(ty.items, accs)])
        if hasattr(ty, "names"):
            t.names = ty.names
            t.cls = ty.cls
        return t
    if isinstance(ty, (TSeq, TSet, TMap)):
        return ZVal(ty, Cell(term))
    raise Unsupported(f"wrap {ty}")


def unwrap(ty, v):
    """value -> z3 term of ty.sort()"""
    if isinstance(ty, TInt):
        if isinstance(v, SInt):
            return v.t
        if isinstance(v, SBool):
            return z3.If(v.t, z3.IntVal(1), z3.IntVal(0))
    if isinstance(ty, TBool) and isinstance(v, SBool):
        return v.t
    if isinstance(ty, TStr) and isinstance(v, SStr):
        return v.t
    if isinstance(ty, TFloat) and isinstance(v, SFloat):
        return v.t
    if isinstance(ty, TBytes) and isinstance(v, SBytes):
        return v.t
    if isinstance(ty, TTuple) and isinstance(v, STuple) and len(v.items) == len(ty.items):
        s, mk, accs = ty.parts()
        return mk(*[unwrap(it, x) for it, x in zip(ty.items, v.items)])
    if isinstance(ty, TSeq):
        if isinstance(v, ZVal) and isinstance(v.ty, TSeq):
            return v.t
        if isinstance(v, (SList, STuple)):
            if not v.items:
                return z3.Empty(ty.sort())
            units = [z3.Unit(unwrap(ty.elem, x)) for x in v.items]
            return units[0] if len(units) == 1 else z3.Concat(*units)
    if isinstance(ty, TSet):
        if isinstance(v, ZVal) and isinstance(v.ty, TSet):
            return v.t
        if isinstance(v, SSet):
            t = empty_term(ty)
            for x in v.items:
                t = z3.Store(t, unwrap(ty.elem, x), z3.BoolVal(True))
            return t
    if isinstance(ty, TMap):
        if isinstance(v, ZVal) and isinstance(v.ty, TMap):
            return v.t
        if isinstance(v, SDict):
            s, mk, accs = ty.parts()
            t = empty_term(ty)
            dom, val = accs[0](t), accs[1](t)
            for k, x in v.entries:
                kt = unwrap(ty.k, k)
                dom = z3.Store(dom, kt, z3.BoolVal(True))
                val = z3.Store(val, kt, unwrap(ty.v, x))
            return mk(dom, val)
    raise Unsupported(f"unwrap {ty} from {v!r}")


def ty_of_value(v):
    """best-effort type descriptor of an existing value (for havoc)"""
    if isinstance(v, SBool):
        return TBool()
    if isinstance(v, SInt):
        return TInt()
    if isinstance(v, SStr):
        return TStr()
    if isinstance(v, SFloat):
        return TFloat()
    if isinstance(v, SBytes):
        return TBytes(v.mutable)
    if isinstance(v, SNoneT):
        return TNone()
    if isinstance(v, ZVal):
        return v.ty
    if isinstance(v, STuple):
        t = TTuple([ty_of_value(i) for i in v.items])
        if hasattr(v, "names"):
            t.names = v.names
            t.cls = v.cls
        return t
    raise Unsupported(f"cannot havoc value {v!r}")
