"""debug helper: run one target of a contracts module.  usage: tools/one.py <module> <target-id> [timeout]"""
import importlib, sys
modname, name = sys.argv[1], sys.argv[2]
mod = importlib.import_module("contracts." + modname)
fns = [getattr(mod, n) for n in dir(mod) if n.startswith("targets")]
ts = []
for f in fns:
    try:
        ts += f("quick")
    except TypeError:
        pass
t = [x for x in ts if x.id == name][0]
t.timeout = int(sys.argv[3]) if len(sys.argv) > 3 else 60
r = t.run()
print(r["status"], "paths", r.get("paths"), "obl", len(r["obligations"]), r["unsupported"][:6], r["wall_s"], r["solver_secs"], r.get("bounded_notes"))
for o in r["obligations"]:
    if o["status"] != "discharged":
        print(o["name"], o["status"], o["where"], str(o["model"])[:400], o.get("detail"))
if r.get("engine_error"):
    print(r["engine_error"])
