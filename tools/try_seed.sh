#!/bin/bash
# tools/try_seed.sh <seed-dir-name> <PROP> [--only regex]   : apply the seeded patch to /repo, run the check, undo
set -u
S=/verif/seeded/$1; P=$2; shift 2
cd /repo && git diff --quiet || { echo "/repo not clean"; exit 9; }
git apply "$S/patch.diff" || { echo "patch does not apply"; exit 9; }
cd /verif && VERIF_OUT=/tmp/seed_out ./check $P "$@" | cut -c1-300 | tail -6; rc=${PIPESTATUS[0]}
cd /repo && git checkout -- . 
echo "== $S on $P: exit $rc"
