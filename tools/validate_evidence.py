#!/usr/bin/env python3
"""Validate MANIFEST.json and every evidence/<id>.json against the schemas; for proof-level evidence
also check obligations == discharged.  usage: .venv/bin/python tools/validate_evidence.py"""
import json, os, sys
import jsonschema

V = os.path.dirname(os.path.dirname(os.path.abspath(__file__)))
man = json.load(open(os.path.join(V, "MANIFEST.json")))
jsonschema.validate(man, json.load(open("/root/.vp/MANIFEST.schema.json")))
es = json.load(open("/root/.vp/EVIDENCE.schema.json"))
bad = 0
ids = [c["id"] if "id" in c else c.get("property_id") for c in man.get("properties", man.get("checks", []))]
for f in sorted(os.listdir(os.path.join(V, "evidence"))):
    e = json.load(open(os.path.join(V, "evidence", f)))
    try:
        jsonschema.validate(e, es)
    except jsonschema.ValidationError as x:
        print("INVALID", f, str(x)[:200])
        bad += 1
        continue
    c = e["coverage"]
    ok = c.get("obligations") == c.get("discharged") and e.get("violations", 0) == 0
    print(("ok  " if ok else "BAD "), f, e["tier"], "obligations", c.get("obligations"), "discharged", c.get("discharged"), "bounded", c.get("bounded_standin_obligations"), "known", c.get("known_finding_obligations"))
    bad += not ok
sys.exit(1 if bad else 0)
