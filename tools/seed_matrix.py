#!/usr/bin/env python3
"""Confirm each seeded change and run the checks against it.

For every /verif/seeded/<id>/ :
  1. confirm: in a scratch git worktree of /repo (outside /repo and /verif, removed afterwards) the demo
     must PASS on the clean tree and FAIL with patch.diff applied;
  2. check:   the patch is applied to a scratch COPY of the repository sources and the checks of the
     related properties are run against that copy (VERIF_REPO), never against /repo itself.
Results are written to /verif/seeded/<id>/result.json and summarised on stdout.

usage: tools/seed_matrix.py [regex] [--no-confirm] [--no-check] [-j N]
"""
import glob, json, os, re, shutil, subprocess, sys, tempfile, time
from concurrent.futures import ThreadPoolExecutor

VERIF = os.path.dirname(os.path.dirname(os.path.abspath(__file__)))
REPO = "/repo"
PY = "/venv/bin/python"

# which checks are run for a seed of a given property (its own first)
RELATED = {"C02": ["C02", "C04", "C11"], "C04": ["C04", "C02"], "C09": ["C09", "C02"], "C10": ["C10", "C08"], "C07": ["C07"], "C11": ["C11", "C10"], "C03": ["C03"],
           "C18": ["C18"], "C06": [], "C08": ["C08"]}


def sh(cmd, cwd=None, timeout=1800, env=None):
    p = subprocess.run(cmd, cwd=cwd, capture_output=True, text=True, timeout=timeout, env=env)
    return p.returncode, (p.stdout + p.stderr)[-1500:]


def demo_cmd(wt, sdir):
    for name in ("demo.py", "test_demo.py", "demo.sh"):
        if os.path.exists(os.path.join(sdir, name)):
            rel = os.path.join("_seeded", os.path.basename(sdir), name)
            if name == "demo.sh":
                return ["bash", rel]
            if name == "test_demo.py":
                return [PY, "-m", "pytest", "-q", "-p", "no:cacheprovider", rel]
            return [PY, rel]
    return None


def confirm(sid, sdir):
    wt = tempfile.mkdtemp(prefix=f"seedwt_{sid}_")
    os.rmdir(wt)
    out = {}
    try:
        rc, o = sh(["git", "-C", REPO, "worktree", "add", "--detach", wt, "HEAD"])
        if rc != 0:
            return {"error": "worktree add failed: " + o}
        os.makedirs(os.path.join(wt, "_seeded"), exist_ok=True)
        shutil.copytree(sdir, os.path.join(wt, "_seeded", os.path.basename(sdir)))
        cmd = demo_cmd(wt, sdir)
        if cmd is None:
            return {"error": "no demo"}
        env = dict(os.environ)
        env.pop("PYTHONPATH", None)
        # the demos were written for /tmp/seed/<P>; run them from this worktree instead
        for f in glob.glob(os.path.join(wt, "_seeded", os.path.basename(sdir), "*")):
            if f.endswith((".py", ".sh")):
                txt = open(f).read()
                txt2 = re.sub(r"/tmp/seed/C\d\d", wt, txt)
                if txt2 != txt:
                    open(f, "w").write(txt2)
        t0 = time.time()
        rc_clean, o_clean = sh(cmd, cwd=wt, env=env)
        rc_apply, o_apply = sh(["git", "apply", os.path.join(sdir, "patch.diff")], cwd=wt)
        if rc_apply != 0:
            rc_apply, o_apply = sh(["git", "apply", "-3", os.path.join(sdir, "patch.diff")], cwd=wt)
        if rc_apply != 0:
            return {"error": "patch does not apply to the current tree: " + o_apply[-300:], "clean_exit": rc_clean}
        rc_patched, o_patched = sh(cmd, cwd=wt, env=env)
        out = {"demo": " ".join(cmd), "clean_exit": rc_clean, "patched_exit": rc_patched, "confirmed": rc_clean == 0 and rc_patched != 0,
               "secs": round(time.time() - t0, 1), "patched_tail": o_patched[-400:], "clean_tail": o_clean[-200:] if rc_clean else ""}
    finally:
        sh(["git", "-C", REPO, "worktree", "remove", "--force", wt])
        shutil.rmtree(wt, ignore_errors=True)
    return out


def check(sid, sdir, prop):
    res = {}
    props = RELATED.get(prop, [prop])
    if not props:
        return res
    scratch = tempfile.mkdtemp(prefix=f"seedrepo_{sid}_")
    try:
        for d in ("mypy", "mypyc"):
            shutil.copytree(os.path.join(REPO, d), os.path.join(scratch, d), ignore=shutil.ignore_patterns("__pycache__", "*.so", "test-data"))
        for f in ("mypy_self_check.ini", "pyproject.toml", "setup.py"):
            if os.path.exists(os.path.join(REPO, f)):
                shutil.copy(os.path.join(REPO, f), scratch)
        rc, o = sh(["patch", "-p1", "--no-backup-if-mismatch", "-d", scratch, "-i", os.path.join(sdir, "patch.diff")])
        if rc != 0:
            return {"error": "patch failed on scratch copy: " + o[-300:]}
        for p in props:
            outdir = os.path.join(scratch, "_out_" + p)
            env = dict(os.environ, VERIF_REPO=scratch, VERIF_OUT=outdir)
            t0 = time.time()
            rc, o = sh([os.path.join(VERIF, "check"), p], env=env, timeout=3600)
            lines = [l for l in o.splitlines() if l.startswith(("VIOLATION", "UNDECIDED", "SUMMARY", "BROKEN"))]
            res[p] = {"exit": rc, "verdict": {0: "pass", 1: "violation", 2: "undecided", 3: "broken"}.get(rc, str(rc)), "secs": round(time.time() - t0, 1),
                      "lines": [l[:260] for l in lines[:8]]}
    finally:
        shutil.rmtree(scratch, ignore_errors=True)
    return res


def one(sdir, do_confirm, do_check):
    sid = os.path.basename(sdir)
    meta = json.load(open(os.path.join(sdir, "meta.json")))
    prop = meta.get("property", sid[:3])
    rp = os.path.join(sdir, "result.json")
    result = json.load(open(rp)) if os.path.exists(rp) else {}
    if do_confirm:
        result["confirm"] = confirm(sid, sdir)
    if do_check:
        result["checks"] = check(sid, sdir, prop)
    result["repo_head"] = subprocess.run(["git", "-C", REPO, "rev-parse", "--short", "HEAD"], capture_output=True, text=True).stdout.strip()
    json.dump(result, open(rp, "w"), indent=1)
    c = result.get("confirm", {})
    ch = result.get("checks", {})
    return f"{sid}: confirmed={c.get('confirmed', c.get('error', '-'))} checks=" + ",".join(f"{p}:{v.get('verdict')}" for p, v in ch.items() if isinstance(v, dict))


def main():
    args = [a for a in sys.argv[1:] if not a.startswith("-")]
    pat = args[0] if args else "."
    do_confirm = "--no-confirm" not in sys.argv
    do_check = "--no-check" not in sys.argv
    j = int(sys.argv[sys.argv.index("-j") + 1]) if "-j" in sys.argv else 3
    dirs = sorted(d for d in glob.glob(os.path.join(VERIF, "seeded", "*")) if os.path.isdir(d) and re.search(pat, os.path.basename(d)))
    with ThreadPoolExecutor(max_workers=j) as ex:
        for line in ex.map(lambda d: one(d, do_confirm, do_check), dirs):
            print(line, flush=True)


if __name__ == "__main__":
    main()
