"""prints the task text given to a seeding sub-agent: the property record and a scratch worktree, nothing
from /verif.  usage: seed_prompt.py <property-id> [scratch-root]"""
import json, sys

pid = sys.argv[1]
root = sys.argv[2] if len(sys.argv) > 2 else "/tmp/seed"
d = next(json.loads(l) for l in open("/verif/properties.jsonl") if json.loads(l)["id"] == pid)
print(f"""You are helping to evaluate a verification effort by playing the role of a careless-but-plausible developer of python/mypy.

You have your own scratch git worktree of the mypy repository at {root}/{pid} (a detached checkout of the pinned commit). Work ONLY inside that directory. Do NOT read, list or modify anything under /verif or /repo (those are off limits), and do not commit anything.

Here is a semantic property of mypy that is supposed to hold (this JSON record is all the context you get):

{json.dumps(d, indent=1)}

Your task: produce up to THREE independent, realistic source changes to python/mypy (each a separate small patch against the unmodified worktree) that BREAK this property while
  (a) the code still imports/compiles,
  (b) the existing test suite still passes (at minimum: the test files that exercise the code you touched must pass; say exactly which pytest commands you ran and their result), and
  (c) the breakage needs something specific to manifest — a particular unusual input, boundary operand, a multi-step sequence of operations, a crash/fault at a particular point, a particular interleaving, or two cooperating sites that each look fine alone — NOT something ordinary use would expose at once.
Prefer changes inside the mechanisms/files the property's anchors name, of the kind a real refactoring or 'optimisation' could introduce (off-by-one in a guard, a dropped or reordered step, a field no longer recorded/compared, a condition weakened, a case handled in the wrong branch, a key missing a component...). Make the three changes as different from each other as you can (different functions / different clauses of the property).

For each change i in 1..3 create the directory {root}/{pid}/_seeded/{pid}-<short-slug>/ containing:
  - patch.diff : `git diff` of that single change against the clean worktree (apply-able with `git apply` from the repo root). After saving it, restore the worktree (`git checkout -- .`) before starting the next change.
  - a demonstration: a pytest test file `test_demo.py` or a script `demo.sh`/`demo.py` that FAILS (non-zero exit) with the change applied and PASSES (exit 0) on the clean worktree. It must be runnable from the worktree root with /venv/bin/python (e.g. `cd {root}/{pid} && /venv/bin/python _seeded/<dir>/demo.py`). Running mypy from the worktree: `cd {root}/{pid} && /venv/bin/python -m mypy ...` picks up the worktree's sources. Keep demos fast (< 2 min) and self-contained (temp dirs, no network).
  - meta.json : {{"property": "{pid}", "summary": "...what was changed...", "needs_to_manifest": "...the specific input / sequence / fault...", "files_touched": [...], "tests_run": ["cmd -> result", ...], "demo_cmd": "..."}}

Verify each demonstration yourself both ways (fails with patch, passes without). Do not use `git stash` (the stash is shared with other worktrees of the same repository): to get back to the clean tree use `git diff > file` followed by `git checkout -- .`, and `git apply file` / `git apply -R file` to switch. Use /venv/bin/python for everything (python 3.12 with the repo's dependencies; there is no network). The machine has 16 cores but is shared: use at most `-n 4` for pytest-xdist and keep test runs targeted.

When done, leave the worktree clean (`git status` shows only the untracked _seeded/ directory) and reply with a short list: for each change, its directory, one sentence on what it breaks and what it needs to manifest, and the tests you ran. If you could not find a change satisfying (a)-(c) for some slot, say so rather than padding.""")
