"""E4 -- frame of process-global mutable state in package mypy (C10, history clause).

A build's result may depend on earlier builds in the same process only through state that outlives a
build: module-level mutable containers that functions mutate, `global` rebinding, functools caches,
module-level instances of classes of the same module, and class-level attributes assigned from
functions.  This module enumerates those syntactically from the real source."""
from __future__ import annotations

import ast
import os

REPO = os.environ.get("VERIF_REPO", "/repo")

# not part of a type-checking build: command-line front ends, the daemon client, stub tooling, reports, tests
OUT_OF_SCOPE_PREFIXES = ("mypy/test", "mypy/typeshed", "mypy/dmypy/", "mypy/stubgen", "mypy/stubtest", "mypy/stubdoc", "mypy/stubutil", "mypy/stubgenc",
                         "mypy/xml", "mypy/report.py", "mypy/main.py", "mypy/__main__.py", "mypy/api.py", "mypy/inspections.py", "mypy/suggestions.py",
                         "mypy/moduleinspect.py", "mypy/pyinfo.py", "mypy/gclogger.py", "mypy/memprofile.py", "mypy/dmypy_os.py", "mypy/git.py")
MUTATORS = {"add", "append", "update", "setdefault", "clear", "pop", "extend", "discard", "remove", "insert", "popitem", "appendleft"}
CONTAINER_CALLS = {"dict", "set", "list", "defaultdict", "OrderedDict", "deque", "Counter"}


def iter_modules():
    root = os.path.join(REPO, "mypy")
    for dp, dn, fn in os.walk(root):
        for f in sorted(fn):
            if not f.endswith(".py"):
                continue
            p = os.path.join(dp, f)
            rel = os.path.relpath(p, REPO)
            if rel.startswith(OUT_OF_SCOPE_PREFIXES):
                continue
            yield rel, p


def functions_of(tree):
    for n in ast.walk(tree):
        if isinstance(n, (ast.FunctionDef, ast.AsyncFunctionDef)):
            yield n


def module_level_instances():
    """{name: module} of module-level `NAME = ClassOfSameModule()` bindings"""
    found = {}
    for rel, p in iter_modules():
        tree = ast.parse(open(p).read())
        classes = {c.name for c in tree.body if isinstance(c, ast.ClassDef)}
        for st in tree.body:
            tgt = val = None
            if isinstance(st, ast.Assign) and len(st.targets) == 1 and isinstance(st.targets[0], ast.Name):
                tgt, val = st.targets[0].id, st.value
            elif isinstance(st, ast.AnnAssign) and isinstance(st.target, ast.Name) and st.value is not None:
                tgt, val = st.target.id, st.value
            if tgt and isinstance(val, ast.Call) and isinstance(val.func, ast.Name) and val.func.id in classes and not tgt.isupper():
                found[tgt] = rel
    return found


def scan():
    """-> sorted list of (module, item) with item like 'container:NAME', 'global:NAME', 'cache:func',
    'instance:NAME', 'classattr:Class.attr'"""
    out = set()
    insts = module_level_instances()
    for rel, p in iter_modules():
        tree0 = ast.parse(open(p).read())
        imported = set()
        for n in ast.walk(tree0):
            if isinstance(n, ast.ImportFrom):
                imported.update(a.asname or a.name for a in n.names)
        for fn in functions_of(tree0):
            for n in ast.walk(fn):
                tg = n.targets if isinstance(n, ast.Assign) else [n.target] if isinstance(n, (ast.AugAssign, ast.AnnAssign)) else []
                for x in tg:
                    if isinstance(x, ast.Attribute) and isinstance(x.value, ast.Name) and x.value.id in insts and x.value.id in imported and not shadowed(fn, x.value.id):
                        out.add((insts[x.value.id], f"instance:{x.value.id}"))
    for rel, p in iter_modules():
        tree = ast.parse(open(p).read())
        containers, instances = {}, {}
        classes = {c.name: c for c in tree.body if isinstance(c, ast.ClassDef)}
        for st in tree.body:
            tgt = val = None
            if isinstance(st, ast.Assign) and len(st.targets) == 1 and isinstance(st.targets[0], ast.Name):
                tgt, val = st.targets[0].id, st.value
            elif isinstance(st, ast.AnnAssign) and isinstance(st.target, ast.Name) and st.value is not None:
                tgt, val = st.target.id, st.value
            if tgt is None:
                continue
            if isinstance(val, (ast.Dict, ast.Set, ast.List, ast.DictComp, ast.SetComp, ast.ListComp)):
                containers[tgt] = st.lineno
            elif isinstance(val, ast.Call) and isinstance(val.func, ast.Name):
                if val.func.id in CONTAINER_CALLS:
                    containers[tgt] = st.lineno
                elif val.func.id in classes:
                    instances[tgt] = val.func.id
        class_level = {(c.name, t.target.id if isinstance(t, ast.AnnAssign) else t.targets[0].id)
                       for c in classes.values() for t in c.body
                       if (isinstance(t, ast.AnnAssign) and isinstance(t.target, ast.Name)) or (isinstance(t, ast.Assign) and isinstance(t.targets[0], ast.Name))}
        for fn in functions_of(tree):
            for d in fn.decorator_list:
                s = ast.unparse(d)
                if "lru_cache" in s or s in ("cache", "functools.cache"):
                    out.add((rel, f"cache:{fn.name}"))
            for n in ast.walk(fn):
                if isinstance(n, ast.Global):
                    for nm in n.names:
                        out.add((rel, f"global:{nm}"))
                if isinstance(n, ast.Call) and isinstance(n.func, ast.Attribute) and isinstance(n.func.value, ast.Name) and n.func.attr in MUTATORS:
                    if n.func.value.id in containers and not shadowed(fn, n.func.value.id):
                        out.add((rel, f"container:{n.func.value.id}"))
                tgts = []
                if isinstance(n, (ast.Assign, ast.Delete)):
                    tgts = n.targets
                elif isinstance(n, (ast.AugAssign, ast.AnnAssign)):
                    tgts = [n.target]
                for x in tgts:
                    if isinstance(x, ast.Subscript) and isinstance(x.value, ast.Name) and x.value.id in containers and not shadowed(fn, x.value.id):
                        out.add((rel, f"container:{x.value.id}"))
                    if isinstance(x, ast.Attribute) and isinstance(x.value, ast.Name) and (x.value.id, x.attr) in class_level:
                        out.add((rel, f"classattr:{x.value.id}.{x.attr}"))
        for name, cls in instances.items():
            if class_is_mutable(classes[cls]):
                out.add((rel, f"instance:{name}"))
    return sorted(out)


def class_is_mutable(cls):
    """does a method other than __init__ assign to / mutate an attribute of self"""
    for m in cls.body:
        if not isinstance(m, ast.FunctionDef) or m.name in ("__init__", "__new__"):
            continue
        for n in ast.walk(m):
            tgts = []
            if isinstance(n, (ast.Assign, ast.Delete)):
                tgts = n.targets
            elif isinstance(n, (ast.AugAssign, ast.AnnAssign)):
                tgts = [n.target]
            for x in tgts:
                base = x.value if isinstance(x, ast.Subscript) else x
                if isinstance(base, ast.Attribute) and isinstance(base.value, ast.Name) and base.value.id == "self":
                    return True
            if isinstance(n, ast.Call) and isinstance(n.func, ast.Attribute) and n.func.attr in MUTATORS:
                b = n.func.value
                if isinstance(b, ast.Attribute) and isinstance(b.value, ast.Name) and b.value.id == "self":
                    return True
    return False


def shadowed(fn, name):
    """is `name` a parameter or a local assignment of the function (then it is not the module global)"""
    a = fn.args
    if name in [x.arg for x in a.args + a.kwonlyargs + a.posonlyargs] or (a.vararg and a.vararg.arg == name) or (a.kwarg and a.kwarg.arg == name):
        return True
    for n in ast.walk(fn):
        if isinstance(n, ast.Assign) and any(isinstance(t, ast.Name) and t.id == name for t in n.targets):
            return True
        if isinstance(n, ast.AnnAssign) and isinstance(n.target, ast.Name) and n.target.id == name:
            return True
    return False


def calls_in(rel, qualname):
    """names called (as f(...) or x.f(...), dotted text) in the body of a module-level function or Class.method"""
    tree = ast.parse(open(os.path.join(REPO, rel)).read())
    parts = qualname.split(".")
    body = tree.body
    node = None
    for p in parts:
        node = next((n for n in body if isinstance(n, (ast.FunctionDef, ast.ClassDef)) and n.name == p), None)
        if node is None:
            return None
        body = node.body
    return {ast.unparse(n.func) for n in ast.walk(node) if isinstance(n, ast.Call)}, {ast.unparse(t) for n in ast.walk(node) if isinstance(n, ast.Assign) for t in n.targets}


if __name__ == "__main__":
    for r in scan():
        print(r)
