"""E4 -- order-sensitive consumption of set-valued expressions inside cache writers (C10 hash-seed
clause, C11 'equal interfaces give equal bytes').

For every class of the given modules the set-valued attributes are found from annotations
(`x: set[...]`, `self.x: set[...] = ...`, Optional forms) and from `self.x = set(...)` / set displays;
inside every writer (methods `write` / `serialize`, module functions `write_*` / `serialize_*`) a
set-valued expression may only be consumed by sorted(), len(), membership tests, set()/frozenset(),
or boolean tests.  Iterating it, or handing it to list()/tuple()/join()/enumerate() or to a `write_*`
helper, makes the emitted order depend on the hash seed."""
from __future__ import annotations

import ast
import os

REPO = os.environ.get("VERIF_REPO", "/repo")
MODULES = ["mypy/nodes.py", "mypy/types.py", "mypy/cache.py", "mypy/build.py", "mypy/options.py", "mypy/errors.py"]
SET_NAMES = ("set", "Set", "frozenset", "FrozenSet", "AbstractSet", "MutableSet")
ORDER_FREE = {"sorted", "len", "set", "frozenset", "bool", "any", "all", "min", "max", "sum", "isinstance"}


def ann_is_set(a):
    if a is None:
        return False
    if isinstance(a, ast.Constant) and isinstance(a.value, str):
        try:
            a = ast.parse(a.value, mode="eval").body
        except SyntaxError:
            return False
    if isinstance(a, ast.BinOp) and isinstance(a.op, ast.BitOr):
        return ann_is_set(a.left) or ann_is_set(a.right)
    if isinstance(a, ast.Subscript):
        base = a.value
        if isinstance(base, ast.Name) and base.id in ("Optional", "Final", "ClassVar"):
            return ann_is_set(a.slice)
        return ann_is_set(base)
    if isinstance(a, ast.Name):
        return a.id in SET_NAMES
    if isinstance(a, ast.Attribute):
        return a.attr in SET_NAMES
    return False


def value_is_set(v):
    return isinstance(v, (ast.Set, ast.SetComp)) or (isinstance(v, ast.Call) and isinstance(v.func, ast.Name) and v.func.id in ("set", "frozenset"))


def set_attrs(cls):
    out = set()
    for st in cls.body:
        if isinstance(st, ast.AnnAssign) and isinstance(st.target, ast.Name) and ann_is_set(st.annotation):
            out.add(st.target.id)
    for n in ast.walk(cls):
        if isinstance(n, ast.AnnAssign) and isinstance(n.target, ast.Attribute) and isinstance(n.target.value, ast.Name) and n.target.value.id == "self":
            if ann_is_set(n.annotation) or (n.value is not None and value_is_set(n.value)):
                out.add(n.target.attr)
        if isinstance(n, ast.Assign) and value_is_set(n.value):
            for t in n.targets:
                if isinstance(t, ast.Attribute) and isinstance(t.value, ast.Name) and t.value.id == "self":
                    out.add(t.attr)
    return out


def is_set_expr(e, attrs, local_sets):
    if value_is_set(e):
        return True
    if isinstance(e, ast.Attribute) and isinstance(e.value, ast.Name) and e.value.id == "self" and e.attr in attrs:
        return True
    if isinstance(e, ast.Name) and e.id in local_sets:
        return True
    if isinstance(e, ast.BinOp) and isinstance(e.op, (ast.BitOr, ast.BitAnd, ast.Sub, ast.BitXor)):
        return is_set_expr(e.left, attrs, local_sets) or is_set_expr(e.right, attrs, local_sets)
    return False


def order_leaks(fn, attrs):
    """[(lineno, text)] of order-sensitive uses of set-valued expressions in the function"""
    local_sets = set()
    for n in ast.walk(fn):
        if isinstance(n, ast.Assign) and value_is_set(n.value):
            local_sets.update(t.id for t in n.targets if isinstance(t, ast.Name))
    # set algebra over known sets (`a = set(x) & y`): a second pass so that operands found above count
    for n in ast.walk(fn):
        if isinstance(n, ast.Assign) and isinstance(n.value, ast.BinOp) and is_set_expr(n.value, attrs, local_sets):
            local_sets.update(t.id for t in n.targets if isinstance(t, ast.Name))
    for n in ast.walk(fn):
        if False:
            pass
        if isinstance(n, ast.AnnAssign) and isinstance(n.target, ast.Name) and (ann_is_set(n.annotation) or (n.value is not None and value_is_set(n.value))):
            local_sets.add(n.target.id)
    leaks = []

    def S(e):
        return is_set_expr(e, attrs, local_sets)

    for n in ast.walk(fn):
        if isinstance(n, ast.For) and S(n.iter):
            leaks.append((n.lineno, "for ... in " + ast.unparse(n.iter)))
        if isinstance(n, (ast.ListComp, ast.GeneratorExp, ast.DictComp)):
            for g in n.generators:
                if S(g.iter):
                    leaks.append((n.lineno, "comprehension over " + ast.unparse(g.iter)))
        if isinstance(n, ast.Call):
            fname = n.func.id if isinstance(n.func, ast.Name) else n.func.attr if isinstance(n.func, ast.Attribute) else ""
            if fname in ORDER_FREE:
                continue
            for a in list(n.args) + [k.value for k in n.keywords]:
                if S(a) and (fname in ("list", "tuple", "enumerate", "join", "iter", "next", "zip") or fname.startswith("write_") or fname.startswith("json_") or fname == "dumps"):
                    leaks.append((n.lineno, f"{fname}({ast.unparse(a)})"))
    # sorted(<set comprehension>) etc. are fine: the walk above flags only direct consumption; a
    # comprehension nested in sorted() still iterates a set but its result is re-ordered
    cleaned = []
    for ln, txt in leaks:
        cleaned.append((ln, txt))
    return cleaned


def sorted_wrapped(fn):
    """line numbers of comprehensions that are the direct argument of sorted()/set()/... (their own
    iteration order is erased by the consumer)"""
    ok = set()
    for n in ast.walk(fn):
        if isinstance(n, ast.Call) and isinstance(n.func, ast.Name) and n.func.id in ORDER_FREE:
            for a in n.args:
                if isinstance(a, (ast.ListComp, ast.GeneratorExp, ast.SetComp)):
                    ok.add(id(a))
    return ok


def scan():
    """-> (writers_seen, [(module, qualname, lineno, text)])"""
    found, seen = [], 0
    for rel in MODULES:
        p = os.path.join(REPO, rel)
        if not os.path.exists(p):
            continue
        tree = ast.parse(open(p).read())
        for node in tree.body:
            if isinstance(node, ast.ClassDef):
                attrs = set_attrs(node)
                for m in node.body:
                    if isinstance(m, ast.FunctionDef) and m.name in ("write", "serialize", "select_options_affecting_cache", "dep_import_options"):
                        seen += 1
                        okc = sorted_wrapped(m)
                        for ln, txt in order_leaks(m, attrs):
                            if txt.startswith("comprehension") and any(isinstance(x, (ast.ListComp, ast.GeneratorExp)) and id(x) in okc and x.lineno == ln for x in ast.walk(m)):
                                continue
                            found.append((rel, f"{node.name}.{m.name}", ln, txt))
            elif isinstance(node, ast.FunctionDef) and (node.name.startswith("write_") or node.name.startswith("serialize_") or node.name in ("deps_to_json", "transitive_dep_hash")):
                seen += 1
                okc = sorted_wrapped(node)
                for ln, txt in order_leaks(node, set()):
                    if txt.startswith("comprehension") and any(isinstance(x, (ast.ListComp, ast.GeneratorExp)) and id(x) in okc and x.lineno == ln for x in ast.walk(node)):
                        continue
                    found.append((rel, node.name, ln, txt))
    return seen, found


if __name__ == "__main__":
    s, f = scan()
    print(s, "writers")
    for x in f:
        print(x)


DIAG_MODULES = ["mypy/errors.py", "mypy/messages.py"]


def scan_diagnostics():
    """order-sensitive consumption of set-valued expressions in the functions that build diagnostic
    text (C10: diagnostics do not depend on the hash seed) -> (functions_seen, [(module, qualname, lineno, text)])"""
    found, seen = [], 0
    for rel in DIAG_MODULES:
        p = os.path.join(REPO, rel)
        if not os.path.exists(p):
            continue
        tree = ast.parse(open(p).read())

        def visit(fn, qual, attrs):
            nonlocal seen
            seen += 1
            # the function re-orders something itself: whether the set order survives is not decided here
            resorts = any(isinstance(n, ast.Call) and ((isinstance(n.func, ast.Name) and n.func.id == "sorted") or (isinstance(n.func, ast.Attribute) and n.func.attr == "sort")) for n in ast.walk(fn))
            okc = sorted_wrapped(fn)
            for ln, txt in order_leaks(fn, attrs):
                if txt.startswith("comprehension") and any(isinstance(x, (ast.ListComp, ast.GeneratorExp)) and id(x) in okc and x.lineno == ln for x in ast.walk(fn)):
                    continue
                found.append((rel, qual, ln, txt, resorts))

        for node in tree.body:
            if isinstance(node, ast.ClassDef):
                attrs = set_attrs(node)
                for m in node.body:
                    if isinstance(m, ast.FunctionDef):
                        visit(m, f"{node.name}.{m.name}", attrs)
            elif isinstance(node, ast.FunctionDef):
                visit(node, node.name, set())
    return seen, found
