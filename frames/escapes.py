"""E4 -- an exception that signals a user error must not escape the analysis (C20): TypeTranslationError is
how exprtotype.expr_to_unanalyzed_type says 'this expression is not a type'.  The set F of functions that may
let it propagate is computed as a fixpoint over the sources (a function is in F when it contains a call,
not enclosed by a handler for TypeTranslationError / Exception, to a function whose simple name is in F);
no visitor entry point (`visit_*` method) of the semantic analyzer or the expression checker may be in F."""
from __future__ import annotations

import ast
import glob
import os

REPO = os.environ.get("VERIF_REPO", "/repo")
FILES = ["mypy/exprtotype.py", "mypy/semanal.py", "mypy/semanal_namedtuple.py", "mypy/semanal_newtype.py", "mypy/semanal_typeddict.py", "mypy/semanal_enum.py",
         "mypy/semanal_shared.py", "mypy/checkexpr.py", "mypy/typeanal.py"]
EXC = "TypeTranslationError"
SEED = {"expr_to_unanalyzed_type"}


def _functions(files=None):
    out = []
    for rel in files or FILES:
        p = os.path.join(REPO, rel)
        if not os.path.exists(p):
            continue
        tree = ast.parse(open(p).read())
        parents = {}
        for n in ast.walk(tree):
            for c in ast.iter_child_nodes(n):
                parents[c] = n
        for n in ast.walk(tree):
            if isinstance(n, (ast.FunctionDef, ast.AsyncFunctionDef)):
                out.append((rel, n, parents))
    return out


def _protected(call, fn, parents, exc=EXC):
    cur = call
    while cur is not fn and cur in parents:
        p = parents[cur]
        if isinstance(p, ast.Try) and any(cur is b or _contains(b, cur) for b in p.body):
            for h in p.handlers:
                t = ast.unparse(h.type) if h.type else ""
                if exc in t or t in ("Exception", "BaseException", ""):
                    return True
        cur = p
    return False


def _contains(root, node):
    return any(x is node for x in ast.walk(root))


def _callee_name(call):
    f = call.func
    return f.id if isinstance(f, ast.Name) else f.attr if isinstance(f, ast.Attribute) else None


def scan(exc=EXC, seed=None, files=None):
    """-> (functions_seen, F: {name: [(file, line of an unprotected call, callee)]})"""
    fns = _functions(files)
    seed = set(seed) if seed is not None else set(SEED)
    if seed is not SEED and not seed:
        # seeds: the functions that raise the exception themselves, outside a handler for it
        for rel, fn, parents in fns:
            for r in ast.walk(fn):
                if isinstance(r, ast.Raise) and r.exc is not None and exc in ast.unparse(r.exc) and not _protected(r, fn, parents, exc):
                    seed.add(fn.name)
    F = {n: [] for n in seed}
    SEEDS = seed
    changed = True
    while changed:
        changed = False
        for rel, fn, parents in fns:
            if fn.name in F and fn.name not in SEEDS:
                continue
            for c in ast.walk(fn):
                if isinstance(c, ast.Call) and _callee_name(c) in F and _callee_name(c) != fn.name:
                    # innermost enclosing function must be fn itself
                    cur = c
                    while cur in parents and not isinstance(parents[cur], (ast.FunctionDef, ast.AsyncFunctionDef, ast.Lambda)):
                        cur = parents[cur]
                    if parents.get(cur) is not fn:
                        continue
                    if not _protected(c, fn, parents, exc):
                        if fn.name not in F:
                            F[fn.name] = []
                            changed = True
                        F[fn.name].append((rel, c.lineno, _callee_name(c)))
    return len(fns), F


if __name__ == "__main__":
    n, F = scan()
    print(n)
    for k, v in F.items():
        print(k, v[:3])
