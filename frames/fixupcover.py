"""E4 -- every nested type a cache writer serializes is reached by the fixup pass (C11: 'a loaded tree is
used only after every cross reference in it has been re-linked').

For every class of mypy/nodes.py and mypy/types.py with a `write` method, the attributes written as
nested TYPES are collected syntactically (`self.x.write(data)`, `write_type(data, self.x)`,
`write_type_opt`, `write_type_list`, and loops `for t in self.x: ... t.write(data)`); the fixup visitor
method the class's `accept` dispatches to must mention that attribute of its parameter."""
from __future__ import annotations

import ast
import os

REPO = os.environ.get("VERIF_REPO", "/repo")


def _classes(path):
    tree = ast.parse(open(os.path.join(REPO, path)).read())
    return {n.name: n for n in tree.body if isinstance(n, ast.ClassDef)}


def written_nested(cls):
    """attributes of self written as nested serializable objects / types"""
    w = next((m for m in cls.body if isinstance(m, ast.FunctionDef) and m.name == "write"), None)
    if w is None:
        return None
    out = set()

    def self_attr(e):
        return e.attr if isinstance(e, ast.Attribute) and isinstance(e.value, ast.Name) and e.value.id == "self" else None

    loopvars = {}
    for n in ast.walk(w):
        if isinstance(n, ast.For) and isinstance(n.target, ast.Name):
            it = n.iter
            if isinstance(it, ast.Call) and isinstance(it.func, ast.Attribute) and it.func.attr in ("values", "items"):
                it = it.func.value
            a = self_attr(it)
            if a:
                loopvars[n.target.id] = a
        if isinstance(n, ast.For) and isinstance(n.target, ast.Tuple):
            it = n.iter
            if isinstance(it, ast.Call) and isinstance(it.func, ast.Attribute) and it.func.attr in ("values", "items"):
                it = it.func.value
            a = self_attr(it)
            if a:
                for e in n.target.elts:
                    if isinstance(e, ast.Name):
                        loopvars[e.id] = a
    for n in ast.walk(w):
        if not isinstance(n, ast.Call):
            continue
        f = n.func
        fname = f.attr if isinstance(f, ast.Attribute) else f.id if isinstance(f, ast.Name) else ""
        if fname == "write" and isinstance(f, ast.Attribute):
            a = self_attr(f.value)
            if a:
                out.add(a)
            elif isinstance(f.value, ast.Name) and f.value.id in loopvars:
                out.add(loopvars[f.value.id])
        if fname in ("write_type", "write_type_opt", "write_type_list", "write_type_map") and len(n.args) >= 2:
            a = self_attr(n.args[1])
            if a:
                out.add(a)
            elif isinstance(n.args[1], ast.Name) and n.args[1].id in loopvars:
                out.add(loopvars[n.args[1].id])
    return out


def accept_target(cls):
    a = next((m for m in cls.body if isinstance(m, ast.FunctionDef) and m.name == "accept"), None)
    if a is None:
        return None
    for n in ast.walk(a):
        if isinstance(n, ast.Call) and isinstance(n.func, ast.Attribute) and n.func.attr.startswith("visit_"):
            return n.func.attr
    return None


def fixup_methods():
    cl = _classes("mypy/fixup.py")
    out = {}
    for cname in ("NodeFixer", "TypeFixer"):
        c = cl.get(cname)
        if c is None:
            continue
        for m in c.body:
            if isinstance(m, ast.FunctionDef) and m.name.startswith("visit_") and len(m.args.args) >= 2:
                p = m.args.args[1].arg
                attrs = {n.attr for n in ast.walk(m) if isinstance(n, ast.Attribute) and isinstance(n.value, ast.Name) and n.value.id == p}
                out[m.name] = attrs
    return out


# classes the fixup pass enters through a direct call instead of accept()
MANUAL_VISITOR = {"TypeInfo": "visit_type_info"}


def scan():
    """-> [(class, visitor method or None, attribute, reached: bool)]"""
    fm = fixup_methods()
    rows = []
    for path in ("mypy/nodes.py", "mypy/types.py"):
        for name, cls in _classes(path).items():
            nested = written_nested(cls)
            if not nested:
                continue
            vm = MANUAL_VISITOR.get(name) or accept_target(cls)
            for a in sorted(nested):
                rows.append((name, vm, a, vm in fm and a in fm[vm]))
    return rows


if __name__ == "__main__":
    for r in scan():
        print(r)
