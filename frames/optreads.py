"""E4 -- reads-frame of mypy.options.Options over the real source.

Collects every syntactic read `<options-like receiver>.<attr>` (attr an attribute assigned in
Options.__init__) in package mypy, with the enclosing module / class / function, so that contracts
of the form "the analysis phase reads only attributes in A" can be decided by set inclusion.
Over-approximation: receivers are recognised by name (`options`, `*.options`, `opts`, ...), a read
may be dead code; `getattr(options, <computed>)` is reported as a read of '*'.
"""
from __future__ import annotations

import ast
import os

REPO = os.environ.get("VERIF_REPO", "/repo")

OPTION_RECEIVER_NAMES = {"options", "opts", "global_options", "file_options", "cloned", "new_options", "module_options", "self_options"}


def options_attrs():
    src = open(os.path.join(REPO, "mypy/options.py")).read()
    tree = ast.parse(src)
    attrs = {}
    for node in ast.walk(tree):
        if isinstance(node, ast.ClassDef) and node.name == "Options":
            for fn in node.body:
                if isinstance(fn, ast.FunctionDef) and fn.name == "__init__":
                    for n in ast.walk(fn):
                        t = None
                        if isinstance(n, ast.Assign):
                            t = n.targets[0]
                        elif isinstance(n, ast.AnnAssign):
                            t = n.target
                        if isinstance(t, ast.Attribute) and isinstance(t.value, ast.Name) and t.value.id == "self":
                            attrs[t.attr] = n.lineno
            props = [fn.name for fn in node.body if isinstance(fn, ast.FunctionDef) and any(isinstance(d, ast.Name) and d.id == "property" for d in fn.decorator_list)]
            attrs.update({p: 0 for p in props})
    return attrs


def is_options_receiver(node):
    if isinstance(node, ast.Name):
        return node.id in OPTION_RECEIVER_NAMES
    if isinstance(node, ast.Attribute):
        return node.attr in ("options", "_options", "global_options")
    if isinstance(node, ast.Call) and isinstance(node.func, ast.Attribute) and node.func.attr in ("clone_for_module",):
        return True
    return False


class Reads(ast.NodeVisitor):
    def __init__(self, module, attrs):
        self.module = module
        self.attrs = attrs
        self.scope = []
        self.out = []  # (attr, module, qualname, lineno, kind)

    def qual(self):
        return ".".join(self.scope) or "<module>"

    def visit_ClassDef(self, node):
        self.scope.append(node.name)
        self.generic_visit(node)
        self.scope.pop()

    def visit_FunctionDef(self, node):
        self.scope.append(node.name)
        self.generic_visit(node)
        self.scope.pop()

    visit_AsyncFunctionDef = visit_FunctionDef

    def visit_Attribute(self, node):
        if isinstance(node.ctx, ast.Load) and node.attr in self.attrs and is_options_receiver(node.value):
            self.out.append((node.attr, self.module, self.qual(), node.lineno, "read"))
        self.generic_visit(node)

    def visit_Call(self, node):
        if isinstance(node.func, ast.Name) and node.func.id in ("getattr", "hasattr") and node.args and is_options_receiver(node.args[0]):
            a = node.args[1] if len(node.args) > 1 else None
            if isinstance(a, ast.Constant) and isinstance(a.value, str):
                if a.value in self.attrs:
                    self.out.append((a.value, self.module, self.qual(), node.lineno, "getattr"))
            else:
                self.out.append(("*", self.module, self.qual(), node.lineno, "getattr-computed"))
        self.generic_visit(node)


def scan(package_dirs=("mypy",), skip_dirs=("test", "typeshed", "xml", "__pycache__")):
    attrs = options_attrs()
    reads = []
    files = 0
    for pkg in package_dirs:
        root = os.path.join(REPO, pkg)
        for dp, dns, fns in os.walk(root):
            dns[:] = [d for d in dns if d not in skip_dirs]
            for fn in sorted(fns):
                if not fn.endswith(".py"):
                    continue
                path = os.path.join(dp, fn)
                mod = os.path.relpath(path, REPO)[:-3].replace(os.sep, ".")
                try:
                    tree = ast.parse(open(path, "rb").read())
                except SyntaxError:
                    continue
                files += 1
                v = Reads(mod, attrs)
                v.visit(tree)
                reads.extend(v.out)
    return attrs, reads, files
