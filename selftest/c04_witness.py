#!/usr/bin/env python3
"""Native witness for the C04 known finding 'meta and meta_ex are not tied'.

Run 1 checks m.py (one error) and fills the cache.  The file is edited so that the error is gone; run
2 is a real mypy run whose process DIES (os._exit) immediately before the store operation that would
write m's meta_ex record -- i.e. a kill between two cache-store operations, with the filesystem
store.  Run 3 is an ordinary warm run, compared with a cold run on the same files.
Prints STALE and exits 1 when warm != cold.   usage: PYTHONPATH=<repo> python selftest/c04_witness.py"""
import os, shutil, subprocess, sys, tempfile

KILLER = '''
import os, sys
import mypy.metastore as ms
orig = ms.FilesystemMetadataStore.write
def write(self, name, data, mtime=None):
    if "meta_ex" in name and name.startswith("m."):
        os._exit(9)          # the process is killed between write(m.meta) and write(m.meta_ex)
    return orig(self, name, data, mtime)
ms.FilesystemMetadataStore.write = write
from mypy.__main__ import console_entry
sys.argv = ["mypy"] + sys.argv[1:]
console_entry()
'''


def mypy(args, cwd, killer=False):
    cmd = [sys.executable, "-c", KILLER] if killer else [sys.executable, "-m", "mypy"]
    p = subprocess.run(cmd + ["--no-sqlite-cache", "--no-error-summary"] + args + ["m.py"], cwd=cwd, capture_output=True, text=True)
    return p.returncode, p.stdout


def main():
    d = tempfile.mkdtemp(prefix="c04_")
    try:
        open(os.path.join(d, "m.py"), "w").write("x: int = ''\n")
        r1 = mypy(["--cache-dir", "warm"], d)
        open(os.path.join(d, "m.py"), "w").write("x: int = 1  # fixed\n")
        r2 = mypy(["--cache-dir", "warm"], d, killer=True)
        warm = mypy(["--cache-dir", "warm"], d)
        cold = mypy(["--cache-dir", "cold"], d)
        print("run1", r1, "killed-run exit", r2[0], "warm", warm, "cold", cold)
        if warm != cold:
            print("STALE: warm run after a kill between meta and meta_ex differs from a cold run")
            return 1
        return 0
    finally:
        shutil.rmtree(d, ignore_errors=True)


if __name__ == "__main__":
    sys.exit(main())
