#!/usr/bin/env python3
"""Native witness for the known finding C11 'SymbolTable order' (and regression demo for the repaired
TypedDict item order): a module is checked cold, then its importer is touched and checked warm, and the
two outputs are compared -- for both cache formats.

usage: selftest/c11_order_witness.py [repo]     prints the differing diagnostics; exit 0 always (a witness,
not a check)"""
import os, subprocess, sys, tempfile, shutil

REPO = sys.argv[1] if len(sys.argv) > 1 else os.environ.get("VERIF_REPO", "/repo")
PY = "/venv/bin/python"

CASES = {
    "enum-member-order (SymbolTable)": ("from enum import Enum\nclass Color(Enum):\n    ZED = 1\n    MID = 2\n    ALPHA = 3\n",
                                        "from a import Color\ndef f(c: Color) -> None:\n    if c is Color.MID:\n        return\n    reveal_type(c)\n"),
    "typeddict-item-order (TypedDictType.write)": ("from typing import TypedDict\nclass TD(TypedDict):\n    zeta: int\n    alpha: str\ndef make() -> TD:\n    raise NotImplementedError\n",
                                                   "from a import make\nreveal_type(make())\n"),
}


def run(d, extra):
    env = dict(os.environ, PYTHONPATH=REPO)
    p = subprocess.run([PY, "-m", "mypy", "b.py", "--cache-dir=cache"] + extra, cwd=d, env=env, capture_output=True, text=True)
    return p.stdout


for name, (a, b) in CASES.items():
    for fmt in ([], ["--no-fixed-format-cache"]):
        d = tempfile.mkdtemp(prefix="c11order_")
        try:
            open(os.path.join(d, "a.py"), "w").write(a)
            open(os.path.join(d, "b.py"), "w").write(b)
            cold = run(d, fmt)
            open(os.path.join(d, "b.py"), "a").write("\n")
            warm = run(d, fmt)
            tag = "json" if fmt else "binary"
            print(f"{name} [{tag}]: {'SAME' if cold == warm else 'DIFFERENT'}")
            if cold != warm:
                print("  cold:", cold.splitlines()[0])
                print("  warm:", warm.splitlines()[0])
        finally:
            shutil.rmtree(d, ignore_errors=True)
