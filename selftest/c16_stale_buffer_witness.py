#!/usr/bin/env python3
"""Native witness / regression demo for C16 'an early close in the middle of a frame must not affect the
next client': start a daemon, send the first 10 bytes of a frame announcing 100 bytes, close, then issue
an ordinary `dmypy status`.

usage: selftest/c16_stale_buffer_witness.py [repo]   exit 0 when the second client is served, 1 otherwise"""
import json, os, socket, struct, subprocess, sys, tempfile, time, shutil

REPO = sys.argv[1] if len(sys.argv) > 1 else os.environ.get("VERIF_REPO", "/repo")
PY = "/venv/bin/python"
d = tempfile.mkdtemp(prefix="c16buf_")
env = dict(os.environ, PYTHONPATH=REPO)
status = os.path.join(d, "status.json")


def dmypy(*a):
    return subprocess.run([PY, "-m", "mypy.dmypy", "--status-file", status] + list(a), cwd=d, env=env, capture_output=True, text=True, timeout=120)


try:
    open(os.path.join(d, "m.py"), "w").write("x: int = 1\n")
    r = dmypy("start", "--", "--cache-dir", os.path.join(d, "cache"))
    assert r.returncode == 0, r.stdout + r.stderr
    name = json.load(open(status))["connection_name"]
    # client A: a header announcing 100 bytes, 6 bytes of payload, then close
    s = socket.socket(socket.AF_UNIX)
    s.connect(name)
    s.sendall(struct.pack("!L", 100) + b'{"comm')
    s.close()
    time.sleep(0.5)
    # client B: an ordinary, well-formed request
    r = dmypy("status")
    print("second client:", r.returncode, (r.stdout + r.stderr).strip()[:300])
    ok = r.returncode == 0 and "Daemon is up and running" in r.stdout
    r2 = dmypy("check", "m.py")
    print("check after that:", r2.returncode, (r2.stdout + r2.stderr).strip()[:200])
    ok = ok and r2.returncode == 0
    sys.exit(0 if ok else 1)
finally:
    try:
        dmypy("kill")
    except Exception:
        pass
    shutil.rmtree(d, ignore_errors=True)
