#!/usr/bin/env python3
"""Warm-after-toggle vs cold, for options the C09 reads-frame flags.  Prints STALE <option> when the
second run (same cache dir, option toggled) differs from a cold run with the second run's options.
usage: PYTHONPATH=<repo> python selftest/c09_witness.py [option ...]"""
import os, shutil, subprocess, sys, tempfile

WITNESS = {
    "warn_redundant_casts": ("from typing import cast\nx: int = 1\ny = cast(int, x)\n", ["--warn-redundant-casts"]),
    "show_error_context": ("def f() -> None:\n    x: int = ''\n", ["--show-error-context"]),
    "show_absolute_path": ("x: int = ''\n", ["--show-absolute-path"]),
    "report_deprecated_as_note": ("from typing_extensions import deprecated\n@deprecated('no')\ndef f() -> None: ...\nf()\n", ["--enable-error-code=deprecated", "--report-deprecated-as-note"]),
    "allow_empty_bodies": ("def f() -> int:\n    ...\n", ["--allow-empty-bodies"]),
    "hide_error_codes": ("x: int = ''\n", ["--show-error-code-links", "--hide-error-codes"]),
    "show_error_code_links": ("x: int = ''\n", ["--show-error-code-links"]),
    "reveal_verbose_types": ("from typing import TypeVar\nT = TypeVar('T')\ndef f(x: T) -> T: return x\nreveal_type(f)\n", ["--reveal-verbose-types"]),
}


def run(args, cwd, cache):
    p = subprocess.run([sys.executable, "-m", "mypy", "--cache-dir", cache, "--no-error-summary"] + args + ["m.py"], cwd=cwd, capture_output=True, text=True,
                       env=dict(os.environ))
    return p.returncode, p.stdout


def main():
    names = sys.argv[1:] or list(WITNESS)
    stale = 0
    for n in names:
        src, flags = WITNESS[n]
        d = tempfile.mkdtemp(prefix="c09_")
        try:
            open(os.path.join(d, "m.py"), "w").write(src)
            base = [f for f in flags[:-1]]
            run(base, d, os.path.join(d, "warm"))            # warm the cache without the option
            second = run(flags, d, os.path.join(d, "warm"))  # same cache, option toggled
            cold = run(flags, d, os.path.join(d, "cold"))
            if second != cold:
                stale += 1
                print(f"STALE {n}: warm-after-toggle {second!r} != cold {cold!r}")
            else:
                print(f"ok    {n}")
        finally:
            shutil.rmtree(d, ignore_errors=True)
    return 1 if stale else 0


if __name__ == "__main__":
    sys.exit(main())
