#!/usr/bin/env python3
"""Native witness / regression demo for C07 'a parallel build reports what the sequential build reports':
program text passed with -c has no cache record; its function bodies must still be checked with -n 2.

usage: selftest/c07_nocache_witness.py [repo]    exit 0 when both runs agree, 1 otherwise"""
import os, subprocess, sys, tempfile, shutil

REPO = sys.argv[1] if len(sys.argv) > 1 else os.environ.get("VERIF_REPO", "/repo")
PROG = 'def f() -> int:\n    return "x"\n'
d = tempfile.mkdtemp(prefix="c07c_")
try:
    env = dict(os.environ, PYTHONPATH=REPO)
    outs = []
    for extra in ([], ["-n", "2"]):
        p = subprocess.run(["/venv/bin/python", "-m", "mypy"] + extra + ["-c", PROG, "--cache-dir", os.path.join(d, "c" + str(len(extra)))], cwd=d, env=env, capture_output=True, text=True)
        outs.append((p.returncode, p.stdout))
        print(extra or "sequential", p.returncode, p.stdout.strip().splitlines()[:1])
    sys.exit(0 if outs[0] == outs[1] else 1)
finally:
    shutil.rmtree(d, ignore_errors=True)
