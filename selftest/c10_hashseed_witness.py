#!/usr/bin/env python3
"""Native witness / regression demo for C10 'diagnostics do not depend on the hash seed': an unused
`# type: ignore[import]` on a line with both an import-not-found and an import-untyped error; the
narrower-code hint lists the two codes.  Run under many PYTHONHASHSEED values.

usage: selftest/c10_hashseed_witness.py [repo]    exit 0 when every seed prints the same text, else 1"""
import os, subprocess, sys, tempfile, shutil

REPO = sys.argv[1] if len(sys.argv) > 1 else os.environ.get("VERIF_REPO", "/repo")
d = tempfile.mkdtemp(prefix="c10seed_")
try:
    open(os.path.join(d, "t.py"), "w").write("import nosuchmod_xyz, xdist  # type: ignore[import]\n")
    seen = {}
    for seed in range(0, 24):
        env = dict(os.environ, PYTHONPATH=REPO, PYTHONHASHSEED=str(seed))
        p = subprocess.run(["/venv/bin/python", "-m", "mypy", "t.py", "--warn-unused-ignores", "--cache-dir=/dev/null"], cwd=d, env=env, capture_output=True, text=True)
        seen.setdefault(p.stdout, []).append(seed)
    for text, seeds in seen.items():
        print(seeds, text.splitlines()[0] if text else "")
    sys.exit(0 if len(seen) == 1 else 1)
finally:
    shutil.rmtree(d, ignore_errors=True)
