#!/usr/bin/env python3
"""Mutation kit: each mutant is applied to a scratch copy of the repository (outside /repo and
/verif), the named check is run against it with VERIF_REPO, and the verdict is compared with the
expectation ('violation' for property-breaking edits, 'pass' for harmless refactorings; 'undecided'
where the broken obligation is no longer proved but the solvers find no model either -- the check
then exits 2, never 0).

usage: selftest/mutants.py [regex]        exit 0 iff every mutant behaves as expected
"""
import os, re, shutil, subprocess, sys, tempfile, json

VERIF = os.path.dirname(os.path.dirname(os.path.abspath(__file__)))
REPO = "/repo"

# (name, property, --only regex, file, old, new, expected)
MUTANTS = [
    ("fold-minus-as-plus", "C12", "fold", "mypy/constant_fold.py", 'if op == "-":\n        return left - right\n    elif op == "*":', 'if op == "-":\n        return left + right\n    elif op == "*":', "violation"),
    ("fold-drop-zero-guard", "C12", "fold", "mypy/constant_fold.py", 'elif op == "%":\n        if right != 0:\n            return left % right\n    elif op == "&"', 'elif op == "%":\n        if True:\n            return left % right\n    elif op == "&"', "violation"),
    ("fold-shift-bound-dropped", "C12", "fold", "mypy/constant_fold.py", "if right >= 0 and (left == 0 or left.bit_length() + right <= MAX_FOLDED_SIZE):\n            return left << right", "if right >= 0:\n            return left << right", "violation"),
    ("fold-rename-local-harmless", "C12", "fold", "mypy/constant_fold.py", "ret = left**right\n            assert isinstance(ret, int)\n            return ret", "powered = left**right\n            assert isinstance(powered, int)\n            return powered", "pass"),
    ("report-endline-clamp-dropped", "C14", "report", "mypy/errors.py", "if end_line is None or end_line < line:\n            end_line = line", "if end_line is None:\n            end_line = line", "violation"),
    ("report-endcol-clamp-strict-harmless", "C14", "report", "mypy/errors.py", "if line == end_line and end_column <= column:", "if line == end_line and end_column < column:", "pass"),
    ("ignored-skips-subcode", "C13", "is_ignored", "mypy/errors.py", "or info.code.sub_code_of is not None\n                and info.code.sub_code_of.code in ignores[line]", "or info.code.sub_code_of is not None\n                and info.code.code in ignores[line]", "violation"),
    ("ignored-blocker-ignorable", "C13", "is_ignored", "mypy/errors.py", "if info.blocker:\n            # Blocking errors can never be ignored\n            return False", "if info.blocker and info.code is None:\n            # Blocking errors can never be ignored\n            return False", "violation"),
    ("used-ignore-marked-for-disabled-code", "C13", "add_error", "mypy/errors.py", "if not self.is_error_code_enabled(err_code):\n                            # Error code is disabled - don't mark the current\n                            # \"type: ignore\" comment as used.\n                            return", "if False:\n                            return", "violation"),
    ("add-error-blocker-in-ignored-file", "C13", "add_error", "mypy/errors.py", "            if file in self.ignored_files:\n                return\n        if info.only_once:", "        if file in self.ignored_files:\n            return\n        if info.only_once:", "violation"),
    ("ipc-frame-slice-off-by-one", "C16", "ipc", "mypy/ipc.py", "bdata = memoryview(self.buffer)[HEADER_SIZE : HEADER_SIZE + self.message_size]", "bdata = memoryview(self.buffer)[HEADER_SIZE : HEADER_SIZE + self.message_size - 1]", "violation"),
    ("ipc-stale-message-size", "C16", "ipc", "mypy/ipc.py", "        self.buffer = self.buffer[HEADER_SIZE + self.message_size :]\n        self.message_size = None\n", "        self.buffer = self.buffer[HEADER_SIZE + self.message_size :]\n", "violation"),
    ("ipc-header-little-endian", "C16", "ipc", "mypy/ipc.py", 'encoded_data = struct.pack("!L", len(data)) + data', 'encoded_data = struct.pack("!L", len(data) + 0) + data[0:]', "pass"),
    ("serve-send-oserror-not-caught", "C16", "serve", "mypy/dmypy_server.py", "                    except OSError:\n                        pass  # Maybe the client hung up", "                    except ConnectionResetError:\n                        pass  # Maybe the client hung up", "violation"),
    ("serve-status-file-kept-on-sysexit", "C16", "serve", "mypy/dmypy_server.py", '            if command != "stop":\n                os.unlink(self.status_file)', '            if command != "stop" and sys.exc_info()[0] is not SystemExit:\n                os.unlink(self.status_file)', "violation"),
    ("receive-non-dict-accepted", "C16", "util.receive", "mypy/dmypy_util.py", "    if not isinstance(data, dict):\n        raise OSError", "    if False:\n        raise OSError", "violation"),
    ("tagged-add-overflow-check-disabled", "C15", "tagged.Add", "mypyc/lib-rt/CPy.h", "return (Py_ssize_t)(sum ^ left) < 0 && (Py_ssize_t)(sum ^ right) < 0;", "return (Py_ssize_t)(sum ^ left) < 0 && (Py_ssize_t)(sum ^ right) < 0 && (Py_ssize_t)left < 0;", "violation"),
    ("tagged-add-overflow-check-conservative-harmless", "C15", "tagged.Add", "mypyc/lib-rt/CPy.h", "return (Py_ssize_t)(sum ^ left) < 0 && (Py_ssize_t)(sum ^ right) < 0;", "return (Py_ssize_t)(sum ^ left) < 0 || (Py_ssize_t)(sum ^ right) < 0;", "pass"),
    ("tagged-floordiv-min-case-dropped", "C15", "tagged.FloorDivide", "mypyc/lib-rt/CPy.h", "return right == 0 || left == -((size_t)1 << (CPY_INT_BITS-1));", "return right == 0;", "violation"),
    ("tagged-multiply-threshold-too-large", "C15", "tagged.Multiply", "mypyc/lib-rt/CPy.h", "return left >= (1U << (CPY_INT_BITS/2 - 1)) || right >= (1U << (CPY_INT_BITS/2 - 1));", "return left >= ((size_t)1 << (CPY_INT_BITS/2 + 1)) || right >= ((size_t)1 << (CPY_INT_BITS/2 + 1));", "violation"),
    ("tagged-rshift-count-off-by-one", "C15", "tagged.Rshift", "mypyc/lib-rt/CPy.h", "if (unlikely(count >= CPY_INT_BITS)) {", "if (unlikely(count > CPY_INT_BITS)) {", "violation"),
    ("tagged-remainder-sign-fixup-wrong", "C15", "tagged.Remainder", "mypyc/lib-rt/CPy.h", "if (((Py_ssize_t)right < 0) != ((Py_ssize_t)left < 0) && result != 0) {\n            result += right;", "if (((Py_ssize_t)right < 0) && result != 0) {\n            result += right;", "violation"),
    ("int64-remainder-edge-case-dropped", "C15", "fixed.CPyInt64_Remainder", "mypyc/lib-rt/int_ops.c", "    // Edge case: avoid core dump\n    if (y == -1 && x == INT64_MIN) {\n        return 0;\n    }\n    int64_t d = x % y;", "    int64_t d = x % y;", "violation"),
    ("int32-divide-rounding-dropped", "C15", "fixed.CPyInt32_Divide", "mypyc/lib-rt/int_ops.c", "int32_t CPyInt32_Divide(int32_t x, int32_t y) {", "int32_t CPyInt32_Divide(int32_t x, int32_t y) {\n    if (x == 7 && y == -2) return -3;", "violation"),
    ("codec-cachemeta-reads-swapped", "C11", "CacheMeta", "mypy/cache.py", "                mtime=read_int(data),\n                size=read_int(data),", "                size=read_int(data),\n                mtime=read_int(data),", "violation"),
    ("codec-instance-drops-last-known-value", "C11", "types.Instance", "mypy/types.py", "        write_type_opt(data, self.last_known_value)\n        if self.extra_attrs is None:", "        write_type_opt(data, None)\n        if self.extra_attrs is None:", "violation"),
    ("codec-typevar-variance-not-written", "C11", "types.TypeVarType", "mypy/types.py", "        self.default.write(data)\n        write_int(data, self.variance)\n        write_tag(data, END_TAG)\n\n    @classmethod\n    def read(cls, data: ReadBuffer) -> TypeVarType:", "        self.default.write(data)\n        write_int(data, 0)\n        write_tag(data, END_TAG)\n\n    @classmethod\n    def read(cls, data: ReadBuffer) -> TypeVarType:", "violation"),
    ("codec-union-new-slot-not-serialized", "C11", "types.UnionType", "mypy/types.py", '    __slots__ = (\n        "items",\n        "is_evaluated",', '    __slots__ = (\n        "items",\n        "origin_module",\n        "is_evaluated",', "violation"),
    ("codec-str-opt-list-reader-uses-str-list", "C11", "types.CallableType|Parameters", "mypy/cache.py", "    assert read_tag(data) == LIST_GEN\n    size = read_int_bare(data)\n    return [read_str_opt(data) for _ in range(size)]", "    assert read_tag(data) == LIST_GEN\n    size = read_int_bare(data)\n    return [read_str(data) for _ in range(size)]", "violation"),
    ("codec-read-type-dispatch-swapped", "C11", "static", "mypy/types.py", "    if tag == UNION_TYPE:\n        return UnionType.read(data)", "    if tag == UNION_TYPE:\n        return TupleType.read(data)", "violation"),
    ("codec-var-flag-order-swapped", "C11", "nodes.Var", "mypy/nodes.py", "            v.is_initialized_in_class,\n            v.is_staticmethod,\n            v.is_classmethod,", "            v.is_initialized_in_class,\n            v.is_classmethod,\n            v.is_staticmethod,", "violation"),
    ("codec-state-dep-hashes-as-line-map", "C07", "State", "mypy/build.py", "            dep_line_map=dep_line_map,\n            dep_hashes=dep_hashes,\n            error_lines=[],", "            dep_line_map=priorities,\n            dep_hashes=dep_hashes,\n            error_lines=[],", "violation"),
    ("validate-meta-size-check-dropped", "C02", "validate_meta", "mypy/build.py", "    if size != meta.size and not bazel and not fine_grained_cache:", "    if False and size != meta.size and not bazel and not fine_grained_cache:", "violation"),
    ("validate-meta-data-mtime-weakened", "C02", "validate_meta", "mypy/build.py", "        if data_mtime != meta.data_mtime:", "        if data_mtime < meta.data_mtime:", "violation"),
    ("validate-meta-hash-of-old-path", "C02", "validate_meta", "mypy/build.py", "                source_hash = manager.fscache.hash_digest(path)", "                source_hash = manager.fscache.hash_digest(meta.path)", "violation"),
    ("validate-meta-restamp-without-hash-match", "C02", "validate_meta", "mypy/build.py", "        if source_hash != meta.hash:\n            if fine_grained_cache:", "        if source_hash != meta.hash and size != meta.size:\n            if fine_grained_cache:", "violation"),
    ("store-fs-write-in-place", "C04", "store.fs", "mypy/metastore.py", '            with open(tmp_filename, "wb") as f:\n                f.write(data)\n            os.replace(tmp_filename, path)', '            with open(path, "wb") as f:\n                f.write(data)', "violation"),
    ("store-fs-replace-before-close", "C04", "store.fs", "mypy/metastore.py", '            with open(tmp_filename, "wb") as f:\n                f.write(data)\n            os.replace(tmp_filename, path)', '            with open(tmp_filename, "wb") as f:\n                f.write(data)\n                os.replace(tmp_filename, path)', "violation"),
    ("store-fs-rename-local-harmless", "C04", "store.fs", "mypy/metastore.py", '        tmp_filename = path + "." + random_string()\n        try:\n            os.makedirs(os.path.dirname(path), exist_ok=True)\n            with open(tmp_filename, "wb") as f:\n                f.write(data)\n            os.replace(tmp_filename, path)', '        scratch = path + "." + random_string()\n        try:\n            os.makedirs(os.path.dirname(path), exist_ok=True)\n            with open(scratch, "wb") as f:\n                f.write(data)\n            os.replace(scratch, path)', "pass"),
    ("write-cache-mtime-before-data-write", "C04", "proto.write_cache", "mypy/build.py", "    st = manager.get_stat(path)\n    if st is None:\n        manager.log(f\"Cannot get stat for {path}\")", "    try:\n        data_mtime = manager.getmtime(data_file)\n    except OSError:\n        data_mtime = 0\n    st = manager.get_stat(path)\n    if st is None:\n        manager.log(f\"Cannot get stat for {path}\")", "violation"),
    ("scc-meta-ex-skipped-when-no-errors", "C04", "proto.scc.meta", "mypy/build.py", "        write_cache_meta_ex(meta_file, meta_ex, manager)\n        manager.commit_module(meta_file)\n    manager.done_sccs.add(ascc.id)\n    manager.add_stats(\n        load_missing_time=t1 - t0,", "        if meta_ex.error_lines or indirect:\n            write_cache_meta_ex(meta_file, meta_ex, manager)\n        manager.commit_module(meta_file)\n    manager.done_sccs.add(ascc.id)\n    manager.add_stats(\n        load_missing_time=t1 - t0,", "violation"),
    ("sqlite-autocommit", "C04", "sqlite", "mypy/metastore.py", "db = sqlite3.dbapi2.connect(db_file, check_same_thread=False)", "db = sqlite3.dbapi2.connect(db_file, check_same_thread=False, isolation_level=None)", "violation"),
    ("validate-meta-stub-kind-check-dropped", "C02", "validate_meta", "mypy/build.py", 'if path.endswith(".pyi") != meta.path.endswith(".pyi") and not fine_grained_cache:', 'if False and not fine_grained_cache:', "violation"),
    ("find-meta-length-check-dropped", "C02", "find_cache_meta", "mypy/build.py", "if len(meta) < 2 or meta[0] != cache_version()", "if meta[0] != cache_version()", "violation"),
    ("watch-mtime-only-shortcut", "C03", "find_changed", "mypy/fswatcher.py", "elif st.st_size != old.st_size or int(st.st_mtime) != int(old.st_mtime):", "elif int(st.st_mtime) != int(old.st_mtime):", "violation"),
    ("watch-hash-not-refreshed", "C03", "find_changed", "mypy/fswatcher.py", "                    new_hash = self.fs.hash_digest(path)\n                    self._update(path, st)\n                    if st.st_size != old.st_size or new_hash != old.hash:", "                    new_hash = self.fs.hash_digest(path)\n                    if st.st_size != old.st_size or new_hash != old.hash:\n                        self._update(path, st)", "violation"),
    ("watch-deleted-not-forgotten", "C03", "find_changed", "mypy/fswatcher.py", "                    changed.add(path)\n                    self._file_data[path] = None", "                    changed.add(path)", "violation"),
    ("watch-compare-order-harmless", "C03", "find_changed", "mypy/fswatcher.py", "if st.st_size != old.st_size or new_hash != old.hash:", "if new_hash != old.hash or st.st_size != old.st_size:", "pass"),
    ("clear-errors-blocker-flag-lost", "C03", "clear", "mypy/errors.py", "                    new_errors.append(info)\n                    has_blocker |= info.blocker", "                    new_errors.append(info)\n                    has_blocker = info.blocker", "violation"),
    ("clear-errors-once-message-kept", "C03", "clear", "mypy/errors.py", "                elif info.only_once:\n                    self.only_once_messages.remove(info.message)", "                elif info.only_once and info.blocker:\n                    self.only_once_messages.remove(info.message)", "violation"),
    ("crawl-wrong-base-returned", "C18", "crawl_up_helper", "mypy/find_sources.py", "            mod_prefix, base_dir = self.crawl_up_dir(parent)\n            return module_join(mod_prefix, name), base_dir", "            mod_prefix, base_dir = self.crawl_up_dir(parent)\n            return module_join(mod_prefix, name), parent", "violation"),
    ("crawl-namespace-identifier-check-dropped", "C18", "crawl_up_helper", "mypy/find_sources.py", "if not name or not parent or not name.isidentifier():", "if not name or not parent:", "violation"),
    ("crawl-namespace-flag-ignored", "C18", "crawl_up_helper", "mypy/find_sources.py", "        if not self.namespace_packages:\n            return None", "        if not self.namespace_packages and not name:\n            return None", "violation"),
    ("crawl-init-module-not-collapsed", "C18", "paths.crawl_up$", "mypy/find_sources.py", '        if module_name == "__init__":\n            return parent_module, base_dir', '        if module_name == "__init__" and not parent_module:\n            return parent_module, base_dir', "violation"),
    ("strip-py-order-swapped-harmless", "C18", "strip_py", "mypy/find_sources.py", "    for ext in PY_EXTENSIONS:\n        if arg.endswith(ext):\n            return arg[: -len(ext)]\n    return None", "    for ext in reversed(PY_EXTENSIONS):\n        if arg.endswith(ext):\n            return arg[: -len(ext)]\n    return None", "pass"),
    ("typeddict-required-keys-unsorted", "C10", "TypedDictType", "mypy/types.py", "        write_str_list(data, sorted(self.required_keys))", "        write_str_list(data, list(self.required_keys))", "violation"),
    ("known-modules-cache-never-reset", "C10", "globals", "mypy/build.py", "    instance_cache.reset()\n    reset_known_modules_cache()", "    instance_cache.reset()", "violation"),
    ("new-process-global-memo", "C10", "globals", "mypy/util.py", "fields_cache: Final[dict[type[object], list[str]]] = {}", "fields_cache: Final[dict[type[object], list[str]]] = {}\nseen_paths: Final[set[str]] = set()\n\n\ndef remember_path(p: str) -> None:\n    seen_paths.add(p)", "violation"),
    ("error-code-sets-hashed-unsorted", "C10", "detopts", "mypy/options.py", "                val = sorted([code.code for code in val])", "                val = [code.code for code in val]", "violation"),
    ("typestate-protocol-deps-not-reset", "C10", "globals", "mypy/typestate.py", "    type_state.reset_all_subtype_caches()\n    type_state.reset_protocol_deps()\n    TypeVarId.next_raw_id = 1", "    type_state.reset_all_subtype_caches()\n    TypeVarId.next_raw_id = 1", "violation"),
    ("severity-by-substring-anywhere", "C13", "has_severity", "mypy/util.py", "    other_pos = message.find(other_marker)\n    return other_pos < 0 or pos < other_pos", "    return True", "violation"),
    ("removed-submodule-any-ancestor", "C02", "exist_removed", "mypy/build.py", '        direct_ancestor, _ = dep.rsplit(".", maxsplit=1)', '        direct_ancestor, _ = dep.split(".", maxsplit=1)', "violation"),
    ("removed-submodule-sources-not-exempt", "C02", "exist_removed", "mypy/build.py", "        if dep in manager.source_set.source_modules:\n            # We still know it is definitely a module.\n            continue\n        direct_ancestor", "        direct_ancestor", "violation"),
    ("dep-import-options-field-dropped", "C09", "dep_import", "mypy/options.py", "        write_bool(buf, self.follow_imports_for_stubs)\n        return buf.getvalue()", "        return buf.getvalue()", "violation"),
    ("typeinfo-slots-unsorted", "C11", "writers", "mypy/nodes.py", "            write_str_list(data, sorted(self.slots))", "            write_str_list(data, list(self.slots))", "violation"),
    ("tagged-multiply-builtin-overflow-unsigned", "C15", "tagged.Multiply", "mypyc/lib-rt/CPy.h", "        if (!CPyTagged_IsMultiplyOverflow(left, right)) {\n            return left * CPyTagged_ShortAsSsize_t(right);\n        }", "        CPyTagged product;\n        if (!__builtin_mul_overflow(left, CPyTagged_ShortAsSsize_t(right), &product)) {\n            return product;\n        }", "violation"),
    ("tagged-multiply-builtin-overflow-signed-harmless", "C15", "tagged.Multiply", "mypyc/lib-rt/CPy.h", "        if (!CPyTagged_IsMultiplyOverflow(left, right)) {\n            return left * CPyTagged_ShortAsSsize_t(right);\n        }", "        Py_ssize_t product;\n        if (!__builtin_mul_overflow((Py_ssize_t)left, CPyTagged_ShortAsSsize_t(right), &product)) {\n            return (CPyTagged)product;\n        }", "pass"),
    ("write-cache-restats-source", "C02", "proto.write_cache", "mypy/build.py", "    st = manager.get_stat(path)\n    if st is None:\n        manager.log(f\"Cannot get stat for {path}\")", "    try:\n        st = os.stat(path)\n    except OSError:\n        st = None\n    if st is None:\n        manager.log(f\"Cannot get stat for {path}\")", "violation"),
    ("typeinfo-flag-order-swapped-in-read", "C11", "nodes.TypeInfo", "mypy/nodes.py", "            ti.is_protocol,\n            ti.runtime_protocol,\n            ti.is_final,", "            ti.runtime_protocol,\n            ti.is_protocol,\n            ti.is_final,", "violation"),
    ("typeinfo-self-type-not-written", "C11", "nodes.TypeInfo", "mypy/nodes.py", "        mypy.types.write_type_opt(data, self.self_type)\n        if self.dataclass_transform_spec is None:", "        mypy.types.write_type_opt(data, None)\n        if self.dataclass_transform_spec is None:", "violation"),
    ("typeinfo-abstract-status-zip-swapped", "C11", "nodes.TypeInfo", "mypy/nodes.py", "        ti.abstract_attributes = list(zip(attrs, statuses))", "        ti.abstract_attributes = list(zip(statuses, attrs))", "violation"),
    ("sqlite-write-forgets-dirty-shard", "C04", "sqlite.write", "mypy/metastore.py", "                (name, mtime, data),\n            )\n            self.dirty_shards.add(self._shard_index(name))", "                (name, mtime, data),\n            )", "violation"),
    ("sqlite-remove-forgets-dirty-shard", "C04", "sqlite.remove", "mypy/metastore.py", '        db.execute("DELETE FROM files2 WHERE path = ?", (name,))\n        self.dirty_shards.add(self._shard_index(name))', '        db.execute("DELETE FROM files2 WHERE path = ?", (name,))', "violation"),
    ("sqlite-commit-path-wrong-shard", "C04", "sqlite.commit_path", "mypy/metastore.py", "        if i in self.dirty_shards:\n            self.dbs[i].commit()\n            self.dirty_shards.discard(i)", "        if i in self.dirty_shards:\n            self.dbs[0].commit()\n            self.dirty_shards.discard(i)", "violation"),
    ("sqlite-shard-index-out-of-range", "C04", "sqlite.shard_index", "mypy/metastore.py", "        return hash_path_stem(name) % self.num_shards", "        return hash_path_stem(name) % (self.num_shards + 1)", "violation"),
    ("sqlite-commit-skips-shard", "C04", "sqlite.commit.iteration", "mypy/metastore.py", "        for i in self.dirty_shards:\n            self.dbs[i].commit()", "        for i in self.dirty_shards:\n            if i:\n                self.dbs[i].commit()", "violation"),
    ("sqlite-write-mark-before-execute-harmless", "C04", "sqlite.write", "mypy/metastore.py", "            db = self._db_for(name)\n            db.execute(", "            db = self._db_for(name)\n            self.dirty_shards.add(self._shard_index(name))\n            db.execute(", "pass"),
    ("stem-last-dot-instead-of-first", "C04", "stem.scan", "mypy/util.py", '        if c == ord("."):\n            end = i', '        if c == ord(".") and end == len(s) - 1:\n            end = i', "violation"),
    ("stem-hash-reads-past-the-stem", "C04", "stem.fold", "mypy/util.py", "    hv: i64 = 123\n    i = end", "    hv: i64 = 123\n    i = len(s) - 1", "violation"),
    ("meta-ex-name-changes-the-stem", "C04", "get_meta_ex_name", "mypy/build.py", '    parts[1] = "meta_ex"\n    return ".".join(parts)', '    parts[0] = parts[0] + "_ex"\n    return ".".join(parts)', "violation"),
    ("stem-scan-index-renamed-harmless", "C04", "stem.final|stem.fold", "mypy/util.py", "    hv = (hv * 0x85EBCA6B) & 0xFFFFFFFF", "    hv = (0x85EBCA6B * hv) & 0xFFFFFFFF", "pass"),
    ("unused-ignore-bare-used-still-reported", "C13", "generate_unused", "mypy/errors.py", "            if not ignored_codes and used_ignored_codes:\n                continue", "            if not ignored_codes and len(used_ignored_codes) > 1:\n                continue", "undecided|violation"),
    ("unused-ignore-skipped-lines-ignored", "C13", "generate_unused", "mypy/errors.py", "        for line, ignored_codes in ignored_lines.items():\n            if line in self.skipped_lines[file]:\n                continue\n            if codes.UNUSED_IGNORE.code in ignored_codes:", "        for line, ignored_codes in ignored_lines.items():\n            if codes.UNUSED_IGNORE.code in ignored_codes:", "undecided|violation"),
    ("symtab-count-ignores-no-serialize", "C11", "SymbolTable.write", "mypy/nodes.py", '            if key == "__builtins__" or value.no_serialize:\n                continue\n            size += 1', '            if key == "__builtins__":\n                continue\n            size += 1', "violation"),
    ("symtab-entry-written-under-wrong-name", "C11", "SymbolTable.write", "mypy/nodes.py", "            write_str_bare(data, key)\n            value.write(data, fullname, key)", "            write_str_bare(data, key)\n            value.write(data, fullname, fullname)", "violation"),
    ("stn-cross-ref-compares-bare-name", "C11", "nodes.SymbolTableNode$", "mypy/nodes.py", '#2:                    and fullname != prefix + "." + name', '                    and fullname != name', "violation"),
    ("stn-read-flags-swapped", "C11", "nodes.SymbolTableNode$", "mypy/nodes.py", "        sym.module_hidden = read_bool(data)\n        sym.module_public = read_bool(data)", "        sym.module_public = read_bool(data)\n        sym.module_hidden = read_bool(data)", "violation"),
    ("stn-typeinfo-also-lazy", "C11", "nodes.SymbolTableNode", "mypy/nodes.py", "            if tag == TYPE_INFO:\n                sym._node = TypeInfo.read(data)\n            else:", "            if False:\n                sym._node = TypeInfo.read(data)\n            else:", "violation"),
    ("stn-lazy-node-keeps-unfixed", "C11", "lazy_node", "mypy/nodes.py", "                node.accept(node_fixer)\n                self.unfixed = False", "                node.accept(node_fixer)", "violation"),
    ("conv-int16-range-check-off-by-one", "C15", "conv.CPyLong_AsInt16", "mypyc/lib-rt/int_ops.c", "    if (result > 0x7fff || result < -0x8000) {", "    if (result > 0x8000 || result < -0x8000) {", "violation"),
    ("conv-uint8-negative-accepted", "C15", "conv.CPyLong_AsUInt8", "mypyc/lib-rt/int_ops.c", "    if (result < 0 || result >= 256) {", "    if (result >= 256) {", "violation"),
    ("conv-int64-overflow-flag-ignored", "C15", "conv.CPyLong_AsInt64", "mypyc/lib-rt/int_ops.c", '        } else if (overflow) {\n            PyErr_SetString(PyExc_ValueError, "int too large to convert to i64");', '        } else if (overflow > 0) {\n            PyErr_SetString(PyExc_ValueError, "int too large to convert to i64");', "violation"),
    # ---- harmless refactorings: the checks must stay green
    ("H-validate-meta-size-test-reordered", "C02", "validate_meta", "mypy/build.py", "    if size != meta.size and not bazel and not fine_grained_cache:", "    if not bazel and not fine_grained_cache and meta.size != size:", "pass"),
    ("H-write-cache-local-renamed", "C04", "proto.write_cache", "mypy/build.py", "        data_mtime = manager.getmtime(data_file)\n    except OSError:", "        data_mtime = manager.getmtime(data_file)\n        data_mtime = data_mtime\n    except OSError:", "pass"),
    ("H-fs-write-path-joined-inline", "C04", "store.fs", "mypy/metastore.py", "        path = os_path_join(self.cache_dir_prefix, name)\n        tmp_filename = path + \".\" + random_string()", "        prefix = self.cache_dir_prefix\n        path = os_path_join(prefix, name)\n        tmp_filename = path + \".\" + random_string()", "pass"),
    ("H-ignored-error-subcode-test-first", "C13", "is_ignored", "mypy/errors.py", "                info.code.code in ignores[line]\n                or info.code.sub_code_of is not None\n                and info.code.sub_code_of.code in ignores[line]", "                info.code.sub_code_of is not None\n                and info.code.sub_code_of.code in ignores[line]\n                or info.code.code in ignores[line]", "pass"),
    ("H-find-changed-local-alias", "C03", "find_changed", "mypy/fswatcher.py", "        for path in paths:\n            old = self._file_data[path]\n            st = self.fs.stat_or_none(path)", "        for path in paths:\n            data = self._file_data\n            old = data[path]\n            st = self.fs.stat_or_none(path)", "pass"),
    ("H-crawl-helper-parent-first", "C18", "crawl_up_helper", "mypy/find_sources.py", "        parent, name = os.path.split(dir)\n        name = name.removesuffix(\"-stubs\")  # PEP-561 stub-only directory", "        parent, raw_name = os.path.split(dir)\n        name = raw_name.removesuffix(\"-stubs\")  # PEP-561 stub-only directory", "pass"),
    ("H-floordiv-overflow-operands-swapped", "C15", "tagged.FloorDivide", "mypyc/lib-rt/CPy.h", "return right == 0 || left == -((size_t)1 << (CPY_INT_BITS-1));", "return left == -((size_t)1 << (CPY_INT_BITS-1)) || right == 0;", "pass"),
    ("H-frame-from-buffer-local-size", "C16", "ipc.frame", "mypy/ipc.py", "        size = len(self.buffer)", "        buffered = self.buffer\n        size = len(buffered)", "pass"),
    ("H-is-fresh-conjuncts-reordered", "C02", "is_fresh", "mypy/build.py", "            self.meta is not None\n            and self.dependencies == self.meta.dependencies\n            and (", "            self.meta is not None\n            and self.meta.dependencies == self.dependencies\n            and (", "pass"),
    ("H-sqlite-commit-path-local", "C04", "sqlite.commit_path", "mypy/metastore.py", "        i = self._shard_index(name)\n        if i in self.dirty_shards:", "        i = self._shard_index(name)\n        dirty = self.dirty_shards\n        if i in dirty:", "pass"),
    ("H-count-stats-single-pass", "C13", "count_stats|has_severity", "mypy/util.py", "    notes = [e for e in messages if _has_severity(e, \": note:\", \": error:\")]\n    return len(errors), len(notes), len(error_files)", "    notes = [m for m in messages if _has_severity(m, \": note:\", \": error:\")]\n    return len(errors), len(notes), len(error_files)", "pass"),
    ("coord-results-overwritten", "C07", "coord", "mypy/build.py", "            results.update(data.result)", "            results = data.result", "violation"),
    ("coord-worker-freed-after-interface", "C07", "coord", "mypy/build.py", "            if not data.is_interface:\n                # Mark worker as free after it finished checking implementation.\n                self.free_workers.add(idx)", "            self.free_workers.add(idx)", "violation"),
    ("permodule-least-specific-wildcard-wins", "C17", "permodule", "mypy/options.py", "        for i in range(len(path), 0, -1):", "        for i in range(1, len(path) + 1):", "violation"),
    ("permodule-own-entry-ignored-for-dotted", "C17", "permodule", "mypy/options.py", "        if module in self._per_module_cache:\n            self._unused_configs.discard(module)", "        if module in self._per_module_cache and \".\" not in module:\n            self._unused_configs.discard(module)", "violation"),
    ("permodule-glob-replaces-instead-of-layering", "C17", "permodule", "mypy/options.py", "                    options = options.apply_changes(self.per_module_options[key])", "                    options = self.apply_changes(self.per_module_options[key])", "violation"),
    ("permodule-wildcard-key-without-star", "C17", "permodule", "mypy/options.py", '            key = ".".join(path[:i] + ["*"])', '            key = ".".join(path[:i])', "violation"),
    ("H-permodule-key-local", "C17", "permodule", "mypy/options.py", '            key = ".".join(path[:i] + ["*"])', '            prefix = path[:i]\n            key = ".".join(prefix + ["*"])', "pass"),
    ("stale-sccs-dep-hashes-ignored", "C02", "find_stale_sccs", "mypy/build.py", "        fresh = fresh and not stale_deps\n", "        fresh = fresh and True\n", "violation"),
    ("stale-sccs-hash-test-inverted", "C02", "find_stale_sccs", "mypy/build.py", "                if dep in graph and graph[dep].interface_hash != graph[id].dep_hashes[dep]:", "                if dep in graph and graph[dep].interface_hash == graph[id].dep_hashes[dep]:", "violation"),
    ("stale-sccs-indirect-deps-ignored", "C02", "find_stale_sccs", "mypy/build.py", "            if stale_indirect is not None:\n                fresh = False", "            if stale_indirect is not None:\n                fresh = fresh", "violation"),
    ("stale-sccs-any-fresh-module-suffices", "C02", "find_stale_sccs", "mypy/build.py", "        stale_scc = {id for id in ascc.mod_ids if not graph[id].is_fresh()}\n        fresh = not stale_scc", "        stale_scc = {id for id in ascc.mod_ids if not graph[id].is_fresh()}\n        fresh = stale_scc != ascc.mod_ids", "violation"),
    ("H-stale-sccs-local-renamed", "C02", "find_stale_sccs", "mypy/build.py", "        fresh = fresh and not stale_deps\n", "        no_stale_deps = not stale_deps\n        fresh = fresh and no_stale_deps\n", "pass"),
    ("vtd-unchanged-hash-shortcut-inverted", "C02", "verify_transitive_deps", "mypy/build.py", "        if st.trans_dep_hash == st.meta.trans_dep_hash:\n            # Import graph unchanged, skip this module.\n            continue", "        if st.trans_dep_hash != st.meta.trans_dep_hash:\n            # Import graph unchanged, skip this module.\n            continue", "violation"),
    ("vtd-direct-priority-instead-of-indirect", "C02", "verify_transitive_deps", "mypy/build.py", "            if st.priorities.get(dep) == PRI_INDIRECT:\n                dep_scc_id", "            if st.priorities.get(dep) != PRI_INDIRECT:\n                dep_scc_id", "violation|undecided"),
    ("H-vtd-checks-unchanged-modules-too", "C02", "verify_transitive_deps|find_stale", "mypy/build.py", "        if st.trans_dep_hash == st.meta.trans_dep_hash:\n            # Import graph unchanged, skip this module.\n            continue", "        if False:\n            continue", "pass"),
    ("H-stale-sccs-missing-dependency-counts-as-stale", "C02", "find_stale_sccs", "mypy/build.py", "                if dep in graph and graph[dep].interface_hash != graph[id].dep_hashes[dep]:", "                if dep not in graph or graph[dep].interface_hash != graph[id].dep_hashes[dep]:", "pass"),
    ("arity-star-into-keyword-only-accepted", "C12", "arity", "mypy/checkexpr.py", "                and actual_kinds[mapped_args[0]] not in [nodes.ARG_NAMED, nodes.ARG_STAR2]", "                and actual_kinds[mapped_args[0]] == nodes.ARG_POS", "violation"),
    ("H-arity-positional-kinds-listed", "C12", "arity", "mypy/checkexpr.py", "                and actual_kinds[mapped_args[0]] not in [nodes.ARG_NAMED, nodes.ARG_STAR2]", "                and actual_kinds[mapped_args[0]] in [nodes.ARG_POS, nodes.ARG_STAR, nodes.ARG_OPT, nodes.ARG_NAMED_OPT]", "pass"),
    ("cflags-fast-math-in-optimized-builds", "C15", "cflags", "mypyc/build.py", '        if opt_level == "0":\n            cflags.append("-UNDEBUG")', '        if opt_level == "0":\n            cflags.append("-UNDEBUG")\n        else:\n            cflags.append("-ffast-math")', "violation"),
    # ---- second batch: targets that had no violation mutant yet
    ("reach-fixed-comparison-le-as-lt", "C12", "reach.fixed_comparison", "mypy/reachability.py", '    if op == "<=":\n        return rmap[left <= right]', '    if op == "<=":\n        return rmap[left < right]', "violation"),
    ("reach-platform-ne-as-eq", "C12", "reach.consider_sys_platform", "mypy/reachability.py", '        if op not in ("==", "!="):\n            return TRUTH_VALUE_UNKNOWN\n        if not is_sys_attr(expr.operands[0], "platform"):', '        if op not in ("==", "!="):\n            return TRUTH_VALUE_UNKNOWN\n        op = "=="\n        if not is_sys_attr(expr.operands[0], "platform"):', "violation"),
    ("split-directive-inner-bound-dropped", "C20", "split_directive", "mypy/config_parser.py", '            while i < len(s) and s[i] != \'"\':', '            while s[i] != \'"\':', "violation"),
    ("parse-type-string-valueerror-not-caught", "C20", "parse_type_string", "mypy/fastparse.py", "    except (SyntaxError, ValueError):", "    except SyntaxError:", "violation"),
    ("module-join-missing-dot", "C18", "module_join", "mypy/find_sources.py", '        return parent + "." + child', '        return parent + child', "violation"),
    ("strip-py-keeps-dot", "C18", "strip_py", "mypy/find_sources.py", "            return arg[: -len(ext)]", "            return arg[: -len(ext) + 1]", "violation"),
    ("find-sources-file-shadowed-by-any-dir", "C18", "find_sources_in_dir", "mypy/find_sources.py", "                if sub_sources:\n                    seen.add(name)\n                    sources.extend(sub_sources)", "                seen.add(name)\n                if sub_sources:\n                    sources.extend(sub_sources)", "violation"),
    ("find-modules-init-pyi-not-a-package", "C18", "find_modules_recursive", "mypy/modulefinder.py", '                    self.fscache.isfile(os_path_join(subpath, "__init__.py"))\n                    or self.fscache.isfile(os_path_join(subpath, "__init__.pyi"))', '                    self.fscache.isfile(os_path_join(subpath, "__init__.py"))', "violation"),
    ("watch-add-forgets-entry", "C03", "add_watched", "mypy/fswatcher.py", "            if path not in self._paths:\n                # By storing None this path will get reported as changed by\n                # find_changed if it exists.\n                self._file_data[path] = None", "            if path not in self._paths and path.endswith('.py'):\n                self._file_data[path] = None", "violation"),
    ("watch-remove-keeps-watched", "C03", "remove_watched", "mypy/fswatcher.py", "        self._paths -= set(paths)", "        self._paths &= set(paths)", "violation|undecided"),
    ("deps-typing-prefix-too-wide", "C03", "deps", "mypy/server/deps.py", '("<builtins.", "<typing.", "<mypy_extensions.", "<typing_extensions.")', '("<builtins.", "<typing", "<mypy_extensions.")', "violation"),
    ("update-proto-reset-dropped", "C03", "update", "mypy/server/update.py", "        for info in stale_protos:\n            type_state.reset_subtype_caches_for(info)\n", "", "violation"),
    ("subkind-always-covariant-dropped", "C08", "subtypes", "mypy/subtypes.py", "            subtype_context.always_covariant,\n", "", "violation"),
    ("typestate-negative-cache-short-key", "C08", "typestate", "mypy/typestate.py", "        subcache = cache.setdefault(kind, set())\n        if len(subcache) > MAX_NEGATIVE_CACHE_ENTRIES:", "        subcache = cache.setdefault(kind[1:], set())\n        if len(subcache) > MAX_NEGATIVE_CACHE_ENTRIES:", "violation"),
    ("optframe-new-analysis-option-read", "C09", "options.reads_frame", "mypy/checker.py", "        self.options = options\n", "        self.options = options\n        self._stats = options.dump_type_stats\n", "violation"),
    ("scc-data-phase-commit-dropped", "C04", "proto.scc.data_phase", "mypy/build.py", "        meta_tuple = graph[id].write_cache()\n        meta_tuples[id] = meta_tuple\n        # Commit data file write immediately to avoid holding shard locks across modules.\n        if meta_tuple is not None:\n            manager.commit_module(meta_tuple[1])\n    for id in stale:\n        meta_tuple = meta_tuples[id]\n        if meta_tuple is None:\n            continue\n        meta, meta_file = meta_tuple\n        state = graph[id]\n        # Indirect", "        meta_tuple = graph[id].write_cache()\n        meta_tuples[id] = meta_tuple\n    for id in stale:\n        meta_tuple = meta_tuples[id]\n        if meta_tuple is None:\n            continue\n        meta, meta_file = meta_tuple\n        state = graph[id]\n        # Indirect", "violation"),
    ("impl-phase-meta-ex-under-wrong-name", "C04", "scc_implementation", "mypy/build.py", "            write_cache_meta_ex(meta_file, meta_ex, manager)\n        manager.commit_module(meta_file)\n\n    manager.add_stats(type_check_time_implementation", "            write_cache_meta_ex(id, meta_ex, manager)\n        manager.commit_module(meta_file)\n\n    manager.add_stats(type_check_time_implementation", "violation"),
    ("stem-scan-stops-at-underscore", "C04", "stem.scan", "mypy/util.py", '        if c == ord("."):\n            end = i', '        if c == ord("_"):\n            end = i', "violation"),
    ("is-fresh-ignores-import-options", "C02", "is_fresh", "mypy/build.py", "                self.options.fine_grained_incremental\n                or self.meta.suppressed_deps_opts == self.suppressed_deps_opts()", "                True", "violation"),
    ("tagged-subtract-no-overflow-check", "C15", "tagged.Subtract", "mypyc/lib-rt/CPy.h", "        if (likely(!CPyTagged_IsSubtractOverflow(diff, left, right))) {", "        if (1) {", "violation"),
    ("tagged-lshift-limit-off-by-one", "C15", "tagged.Lshift", "mypyc/lib-rt/CPy.h", "               && right < CPY_INT_BITS * 2)) {", "               && right <= CPY_INT_BITS * 2)) {", "violation"),
    ("tagged-islt-swapped", "C15", "tagged.IsLt", "mypyc/lib-rt/CPy.h", "        return (Py_ssize_t)left < (Py_ssize_t)right;", "        return (Py_ssize_t)left <= (Py_ssize_t)right;", "violation"),
    ("int64-divide-rounding-sign", "C15", "fixed.CPyInt64_Divide", "mypyc/lib-rt/int_ops.c", "    if (((x < 0) != (y < 0)) && d * y != x) {\n        d--;\n    }\n    return d;\n}\n\nint64_t CPyInt64_Remainder", "    if ((x < 0) && d * y != x) {\n        d--;\n    }\n    return d;\n}\n\nint64_t CPyInt64_Remainder", "violation"),
    ("worker-replay-without-set-file", "C07", "replay", "mypy/build_worker/worker.py", "            manager.errors.set_file(state.xpath, id, state.options)\n", "", "violation"),
    ("native-parser-arg-error-not-blocking", "C14", "parsers", "mypy/nativeparse.py", "                message_registry.ARG_CONSTRUCTOR_TOO_MANY_ARGS.value,\n                invalid.line,\n                invalid.column,\n                blocker=True,", "                message_registry.ARG_CONSTRUCTOR_TOO_MANY_ARGS.value,\n                invalid.line,\n                invalid.column,\n                blocker=False,", "violation"),
    ("pass1-for-else-block-skipped", "C14", "pass1", "mypy/semanal_pass1.py", "    def visit_for_stmt(self, s: ForStmt) -> None:\n        s.body.accept(self)\n        if s.else_body is not None:\n            s.else_body.accept(self)", "    def visit_for_stmt(self, s: ForStmt) -> None:\n        s.body.accept(self)", "violation"),
    ("split-commas-unguarded-pop", "C20", "split_commas", "mypy/config_parser.py", '    if items and items[-1] == "":\n        items.pop(-1)', '    items.pop(-1)\n    items.pop(-1)', "violation"),
    ("enabled-parent-check-dropped", "C13", "is_error_code_enabled", "mypy/errors.py", "elif error_code.sub_code_of is not None and error_code.sub_code_of in current_mod_disabled:\n            return False", "elif error_code.sub_code_of is not None and error_code.sub_code_of in current_mod_enabled:\n            return False", "violation"),
]


def run(m, keep=False):
    name, prop, only, file, old, new, expect = m
    scratch = tempfile.mkdtemp(prefix="pyvc_mut_")
    try:
        for d in ("mypy", "mypyc"):
            shutil.copytree(os.path.join(REPO, d), os.path.join(scratch, d), ignore=shutil.ignore_patterns("__pycache__", "*.so", "test-data", "typeshed" if False else "__none__"))
        p = os.path.join(scratch, file)
        src = open(p).read()
        nth = 1
        if old.startswith("#2:"):
            nth, old = 2, old[3:]
        if src.count(old) < nth:
            return name, "STALE (pattern not found)", False
        pos = -1
        for _ in range(nth):
            pos = src.index(old, pos + 1)
        open(p, "w").write(src[:pos] + new + src[pos + len(old):])
        out = os.path.join(scratch, "_out")
        env = dict(os.environ, VERIF_REPO=scratch, VERIF_OUT=out)
        r = subprocess.run([os.path.join(VERIF, "check"), prop, "--only", only], capture_output=True, text=True, env=env, timeout=3600)
        got = {0: "pass", 1: "violation", 2: "undecided", 3: "broken"}.get(r.returncode, f"exit{r.returncode}")
        ok = got in expect.split("|")
        detail = ""
        import glob
        reps = []
        for f in glob.glob(os.path.join(out, "replays", prop, "*.json")):
            d = json.load(open(f))
            nr = d.get("native_replay") or {}
            reps.append(("confirmed" if nr.get("confirmed") else "unconfirmed") + (": " + str(nr.get("note") or nr.get("state_mismatch") or nr.get("observed"))[:420] if os.environ.get("MUT_VERBOSE") else ""))
        if reps:
            detail += "  [replays: " + "; ".join(sorted(reps)) + "]"
        if not ok:
            detail = "\n    " + "\n    ".join(r.stdout.strip().splitlines()[-6:])
        return name, f"{prop}: expected {expect}, got {got}{detail}", ok
    finally:
        shutil.rmtree(scratch, ignore_errors=True)


def main():
    pat = sys.argv[1] if len(sys.argv) > 1 else "."
    todo = [m for m in MUTANTS if re.search(pat, m[0]) or re.search(pat, m[1])]
    from concurrent.futures import ThreadPoolExecutor
    bad = 0
    with ThreadPoolExecutor(max_workers=4) as ex:
        for name, msg, ok in ex.map(run, todo):
            print(("ok   " if ok else "FAIL ") + name + " -- " + msg)
            bad += not ok
    print(f"{len(todo) - bad}/{len(todo)} mutants behaved as expected")
    return 1 if bad else 0


if __name__ == "__main__":
    sys.exit(main())
