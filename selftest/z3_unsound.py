#!/usr/bin/env python3
"""Witness for the solver soundness issue the engine guards against (DESIGN.md sections 2 and 7).

selftest/z3_unsound_query.smt2 is a path condition + negated goal produced by pyvc (quantified axioms
over sequences and arrays).  It is SATISFIABLE: with the witness below pinned, z3 answers `sat` and the
model evaluates every assertion to true.  Yet the z3-solver 5.1.0 wheel answers `unsat` on the unpinned
query under several random seeds.  Prints what this machine answers.
usage: .venv/bin/python selftest/z3_unsound.py"""
import os, z3

here = os.path.dirname(os.path.abspath(__file__))
fs = z3.parse_smt2_file(os.path.join(here, "z3_unsound_query.smt2"))
consts = {}


def walk(e):
    if z3.is_const(e) and e.decl().kind() == z3.Z3_OP_UNINTERPRETED:
        consts[e.decl().name()] = e
    for c in e.children():
        walk(c)
    if z3.is_quantifier(e):
        walk(e.body())


for f in fs:
    walk(f)
print("z3 version", z3.get_version_string())
for seed in range(6):
    s = z3.Solver()
    s.set("timeout", 20000)
    s.set("random_seed", seed)
    s.add(fs)
    print("seed", seed, "->", s.check())
S = z3.StringSort()
SeqS = z3.SeqSort(S)
c = consts
s = z3.Solver()
s.set("timeout", 60000)
s.add(fs)
s.add(c["ignored_codes"] == z3.Empty(SeqS), c["comp_919"] == z3.Empty(SeqS), c["card"] == 1, c["generate_unused_ignore_errors.i"] == 0, c["line"] == 3,
      c["file"] == z3.StringVal("f"), c["self@"] == 1)
u = c["used_ignored_lines_of_file"]
dt = u.sort()
s.add(z3.Select(dt.accessor(0, 0)(u), 3) == True, z3.Select(dt.accessor(0, 1)(u), 3) == z3.Unit(z3.StringVal("a")))  # noqa: E712
sk = c["self.skipped_lines"]
s.add(z3.Select(sk.sort().accessor(0, 0)(sk), z3.StringVal("f")) == False)  # noqa: E712
r = s.check()
print("with the witness pinned ->", r)
if r == z3.sat:
    m = s.model()
    print("every assertion true under the model:", all(z3.is_true(m.eval(f, model_completion=True)) for f in fs))
