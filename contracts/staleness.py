"""C02, the SCC-level freshness decision: one generic SCC of build.find_stale_sccs.

The graph is a FUNCTIONAL stand-in: every State attribute the decision reads is an uninterpreted
function of the module id (interface hash, recorded dependency hashes, is_fresh(), error lines), so
the proof holds for every graph.  The inner comprehension and the nested loops that collect stale
dependencies are summarised exactly by the set-accumulation rule (pyvc/accum.py), for SCCs and
dependency tables of every size."""
from __future__ import annotations

import z3

from pyvc.interp import NONE, LoopSpec
from pyvc.sym import *
from pyvc.target import Target
from pyvc.types import *
from .common import *
from . import fresh as FR

import mypy.build as B

INGRAPH = z3.Function("in_graph", StrS, BoolS)
FRESH = z3.Function("state_is_fresh", StrS, BoolS)
IH = z3.Function("interface_hash_of", StrS, BytesS)
DEPH = TMap(TStr(), TBytes())
DH = z3.Function("recorded_dep_hashes_of", StrS, DEPH.sort())
ERRL = z3.Function("error_lines_of", StrS, z3.SeqSort(IntS))
XP = z3.Function("xpath_of", StrS, StrS)


class FakeGraph:
    def __getitem__(self, id):
        raise NotImplementedError

    def __contains__(self, id):
        raise NotImplementedError


class FakeStateView:
    key: str

    def is_fresh(self):
        raise NotImplementedError


def graph_getitem(I, args, kwargs):
    k = I.unopt(args[1])
    I.check_or_raise(INGRAPH(k.t), KeyError, "module not in graph")
    o = I.new_object(FakeStateView)
    o.fields.update({"key": k, "interface_hash": SBytes(IH(k.t)), "dep_hashes": ZVal(DEPH, Cell(DH(k.t))), "error_lines": ZVal(TSeq(TInt()), Cell(ERRL(k.t))),
                     "xpath": SStr(XP(k.t))})
    return o


OV = dict(FR.OVERRIDES)
OV.update({
    "contracts.staleness:FakeGraph.__getitem__": graph_getitem,
    "contracts.staleness:FakeGraph.__contains__": lambda I, a, k: SBool(INGRAPH(I.unopt(a[1]).t)),
    "contracts.staleness:FakeStateView.is_fresh": lambda I, a, k: SBool(FRESH(a[0].fields["key"].t)),
    "mypy.build:order_ascc_ex": None,  # replaced below
    "contracts.spec_store:flush_errors_stub": noop,
    "mypy.errors:Errors.simplify_path": returns(TStr(), "simple_path"), "mypy.errors:Errors.format_messages": returns(TSeq(TStr()), "formatted"),
})


def order_contract(I, args, kwargs):
    """order_ascc_ex(graph, ascc): the modules of the SCC in some order"""
    r = I.make(TSeq(TStr()), "ordered_ids")
    mods = I.getattr(args[1], "mod_ids").t
    j = z3.Int("ord_j")
    I.ctx.assume(z3.ForAll([j], z3.Implies(z3.And(j >= 0, j < z3.Length(r.t)), z3.Select(mods, r.t[j]))))
    return r


OV["mypy.build:order_ascc_ex"] = order_contract


def vtd_contract(I, args, kwargs):
    r = I.make(TOpt(TStr()), "stale_indirect")
    I.ctx.ghost["vtd"] = r
    return r


OV["mypy.build:verify_transitive_deps"] = vtd_contract

FT = dict(FR.FT)
FT.update({("SCC", "mod_ids"): TSet(TStr()), ("BuildManager", "errors"): TAny(), ("BuildManager", "error_formatter"): TAny(), ("BuildManager", "flush_errors"): TAny()})


def setup_scc(I):
    from contracts.spec_store import flush_errors_stub

    ascc = I.make(TObj(B.SCC), "ascc")
    graph = I.new_object(FakeGraph)
    manager = I.make(TObj(B.BuildManager), "manager")
    manager.fields["flush_errors"] = SFunc(flush_errors_stub)
    import mypy.errors as E

    manager.fields["errors"] = I.make(TObj(E.Errors), "errors")
    # BuildManager invariant: logging_enabled = verbosity >= 1, tracing_enabled = verbosity >= 2
    I.ctx.assume(z3.Implies(I.getattr(manager, "tracing_enabled").t, I.getattr(manager, "logging_enabled").t))
    mods = I.getattr(ascc, "mod_ids").t
    x = z3.Const("m", StrS)
    I.ctx.assume(z3.ForAll([x], z3.Implies(z3.Select(mods, x), INGRAPH(x))))  # graph invariant: every module of an SCC is in the graph
    fresh_sccs, stale_sccs = SList([]), SList([])
    return {"args": [], "locals": {"ascc": ascc, "graph": graph, "manager": manager, "fresh_sccs": fresh_sccs, "stale_sccs": stale_sccs, "sccs": SList([ascc])},
            "ascc": ascc, "mods": mods, "fresh_sccs": fresh_sccs, "stale_sccs": stale_sccs}


def ens_scc(I, env, res):
    """the SCC is put on exactly one list, and on the FRESH list only when every module in it is
    fresh, every recorded dependency hash of every module equals the current interface hash of that
    dependency (for dependencies still in the graph), and all indirect dependencies are still reachable"""
    f, s = env["fresh_sccs"].items, env["stale_sccs"].items
    if len(f) + len(s) != 1 or (f and f[0] is not env["ascc"]) or (s and s[0] is not env["ascc"]):
        return z3.BoolVal(False)
    mods = env["mods"]
    m, d = z3.Const("mod", StrS), z3.Const("dep", StrS)
    all_fresh = z3.ForAll([m], z3.Implies(z3.Select(mods, m), FRESH(m)))
    s_, mk, accs = DEPH.parts()
    hashes_ok = z3.ForAll([m, d], z3.Implies(z3.And(z3.Select(mods, m), z3.Select(accs[0](DH(m)), d), INGRAPH(d)), IH(d) == z3.Select(accs[1](DH(m)), d)))
    vtd = I.ctx.ghost.get("vtd")
    if f:
        if vtd is None:
            return z3.BoolVal(False)  # declared fresh without checking the indirect dependencies
        return z3.And(all_fresh, hashes_ok, isnone(vtd))
    # scheduled for re-checking: always safe for 'warm == cold' (an unnecessarily stale SCC only costs
    # time), so nothing more is required in this direction
    return z3.BoolVal(True)


def targets(tier):
    loops = {"for id in scc": LoopSpec(inv=lambda I, env: z3.BoolVal(True), name="replay-cached-errors")}
    return [Target("fresh.find_stale_sccs.scc", "mypy.build:find_stale_sccs", setup_scc, loop_body=("for ascc in sccs", None),
                   ensures=[("fresh-only-if-all-modules-fresh-and-dependency-hashes-unchanged", ens_scc)], raises=(), overrides=OV, field_types=FT, loops=loops,
                   accumulate_rules=True, forget_order_facts=True, feas_timeout_ms=1500,
                   note="one generic SCC; State attributes are uninterpreted functions of the module id; the stale-set comprehension and the nested "
                        "dependency-hash loops are summarised exactly by the set-accumulation rule")] + vtd_targets()


# ------------------------------------------------------------------ verify_transitive_deps

TDH = z3.Function("trans_dep_hash_of", StrS, BytesS)
META_TDH = z3.Function("recorded_trans_dep_hash_of", StrS, BytesS)
DEPS = z3.Function("dependencies_of", StrS, z3.SeqSort(StrS))
PRIOT = TMap(TStr(), TInt())
PRIO = z3.Function("priorities_of", StrS, PRIOT.sort())
SCCOF = z3.Function("scc_id_of_module", StrS, IntS)
TRANS = z3.Function("is_transitive_scc_dep", IntS, IntS, BoolS)


class FakeGraph2:
    def __getitem__(self, id):
        raise NotImplementedError


class FakeSccTable:
    def __getitem__(self, id):
        raise NotImplementedError


class FakeRecord:
    pass


def graph2_getitem(I, args, kwargs):
    k = I.unopt(args[1])
    I.check_or_raise(INGRAPH(k.t), KeyError, "module not in graph")
    o = I.new_object(FakeRecord)
    meta = I.new_object(FakeRecord)
    meta.fields["trans_dep_hash"] = SBytes(META_TDH(k.t))
    o.fields.update({"meta": meta, "trans_dep_hash": SBytes(TDH(k.t)), "dependencies": ZVal(TSeq(TStr()), Cell(DEPS(k.t))), "priorities": ZVal(PRIOT, Cell(PRIO(k.t)))})
    return o


def scc_table_getitem(I, args, kwargs):
    o = I.new_object(FakeRecord)
    o.fields["id"] = SInt(SCCOF(I.unopt(args[1]).t))
    return o


VT_OV = {
    "contracts.staleness:FakeGraph2.__getitem__": graph2_getitem,
    "contracts.staleness:FakeSccTable.__getitem__": scc_table_getitem,
    "mypy.build:BuildManager.is_transitive_scc_dep": lambda I, a, k: SBool(TRANS(a[1].t, a[2].t)),
}


def setup_vtd(I):
    ascc = I.make(TObj(B.SCC), "ascc")
    graph = I.new_object(FakeGraph2)
    manager = I.make(TObj(B.BuildManager), "manager")
    manager.fields["scc_by_mod_id"] = I.new_object(FakeSccTable)
    mods = I.getattr(ascc, "mod_ids").t
    x = z3.Const("m", StrS)
    I.ctx.assume(z3.ForAll([x], z3.Implies(z3.Select(mods, x), INGRAPH(x))))
    return {"args": [ascc, graph, manager], "ascc": ascc, "mods": mods}


def unreachable(I, env, m, d):
    """dep d of module m is an indirect dependency outside this SCC that is no longer a transitive
    dependency of the SCC -- and m's import structure changed (otherwise nothing needs checking)"""
    from mypy.build import PRI_INDIRECT

    s_, mk, accs = PRIOT.parts()
    aid = I.getattr(env["ascc"], "id").t
    indirect = z3.And(z3.Select(accs[0](PRIO(m)), d), z3.Select(accs[1](PRIO(m)), d) == int(PRI_INDIRECT))
    return z3.And(z3.Select(env["mods"], m), TDH(m) != META_TDH(m), z3.Contains(DEPS(m), z3.Unit(d)), indirect, SCCOF(d) != aid, z3.Not(TRANS(aid, SCCOF(d))))


def ens_vtd(I, env, res):
    """None => every indirect dependency of every module whose import structure changed is still a
    transitive dependency of the SCC (or inside it); an id that is returned is a dependency of the SCC"""
    m, d = z3.Const("mod", StrS), z3.Const("dep", StrS)
    r = I.unopt(res)
    if r is NONE:
        return z3.ForAll([m, d], z3.Not(unreachable(I, env, m, d)))
    if isinstance(res, SOpt):
        return z3.BoolVal(False)
    # a reported id only makes the SCC stale (safe); it must at least be a dependency of the SCC
    return z3.Exists([m], z3.And(z3.Select(env["mods"], m), z3.Contains(DEPS(m), z3.Unit(r.t))))


def vtd_targets():
    ft = dict(FT)
    ft[("SCC", "id")] = TInt()
    return [Target("fresh.verify_transitive_deps", "mypy.build:verify_transitive_deps", setup_vtd, ensures=[("none-only-if-every-indirect-dependency-still-reachable", ens_vtd)],
                   raises=(), overrides=VT_OV, field_types=ft, accumulate_rules=True,
                   note="nested search loops summarised by the search-loop rule; State / SCC attributes are uninterpreted functions of the module id")]
