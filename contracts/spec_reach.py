"""Specification functions for mypy/reachability.py, written from Python's run-time semantics.

Plain Python: executed symbolically by pyvc on the same (lazily initialised) AST objects the
real code sees, and natively by selftest/spec_vs_cpython.py against CPython's own evaluation of
the expression source, so the oracle is CPython and not a reading of reachability.py.

`vi` is the run-time sys.version_info as a 5-tuple (major, minor, micro, releaselevel, serial);
the contract quantifies over micro / releaselevel / serial.
"""
from mypy.nodes import (
    CallExpr,
    ComparisonExpr,
    IndexExpr,
    IntExpr,
    MemberExpr,
    NameExpr,
    SliceExpr,
    StrExpr,
    TupleExpr,
)

class _Nothing:
    """result of the specification for expressions that are not a recognised, well-defined form"""


NOTHING = _Nothing()


def sys_attr(e, name):
    return isinstance(e, MemberExpr) and e.name == name and isinstance(e.expr, NameExpr) and e.expr.name == "sys"


def literal_operand(e):
    """value of an int literal or of a tuple display of int literals; None otherwise.
    (In the proof of consider_sys_version_info this function is replaced by the contract shared
    with contains_int_or_tuple_of_ints; it is verified against that function separately.)"""
    if isinstance(e, IntExpr):
        return e.value
    if isinstance(e, TupleExpr):
        out = []
        for x in e.items:
            if not isinstance(x, IntExpr):
                return None
            out.append(x.value)
        return tuple(out)
    return None


def opt_int_literal(e):
    """(ok, value): value of an optional int-literal expression"""
    if e is None:
        return True, None
    if isinstance(e, IntExpr):
        return True, e.value
    return False, None


def version_info_operand(e, vi):
    if sys_attr(e, "version_info"):
        return vi
    if isinstance(e, IndexExpr) and sys_attr(e.base, "version_info"):
        index = e.index
        if isinstance(index, IntExpr):
            i = index.value
            if -5 <= i < 5:
                return vi[i]
            return NOTHING  # IndexError at run time
        if isinstance(index, SliceExpr):
            ok1, b = opt_int_literal(index.begin_index)
            ok2, en = opt_int_literal(index.end_index)
            ok3, st = opt_int_literal(index.stride)
            if not (ok1 and ok2 and ok3):
                return NOTHING
            if st is not None and st != 1:
                return NOTHING
            return vi[b:en]
    return NOTHING


def py_compare(a, op, b):
    if op == "==":
        return a == b
    if op == "!=":
        return a != b
    if op == "<":
        return a < b
    if op == "<=":
        return a <= b
    if op == ">":
        return a > b
    if op == ">=":
        return a >= b
    return NOTHING


def same_kind(a, b):
    return isinstance(a, int) and isinstance(b, int) or isinstance(a, tuple) and isinstance(b, tuple)


def rt_version_check(expr, vi):
    """run-time value of `expr` when it is a single comparison between a sys.version_info form and
    an int / tuple-of-int literal (either order); NOTHING otherwise"""
    if not isinstance(expr, ComparisonExpr):
        return NOTHING
    if len(expr.operators) != 1:
        return NOTHING
    op = expr.operators[0]
    left = expr.operands[0]
    right = expr.operands[1]
    a = version_info_operand(left, vi)
    if a is not NOTHING:
        b = literal_operand(right)
        if b is None:
            return NOTHING
    else:
        b = version_info_operand(right, vi)
        if b is NOTHING:
            return NOTHING
        a = literal_operand(left)
        if a is None:
            return NOTHING
    if not same_kind(a, b):
        return NOTHING  # int vs tuple: ordering raises TypeError; not a supported form
    return py_compare(a, op, b)


def rt_platform_check(expr, platform):
    """run-time value of `sys.platform == 'x'`, `sys.platform != 'x'`, `sys.platform.startswith('x')`"""
    if isinstance(expr, ComparisonExpr):
        if len(expr.operators) != 1:
            return NOTHING
        op = expr.operators[0]
        if op != "==" and op != "!=":
            return NOTHING
        if not sys_attr(expr.operands[0], "platform"):
            return NOTHING
        right = expr.operands[1]
        if not isinstance(right, StrExpr):
            return NOTHING
        if op == "==":
            return platform == right.value
        return platform != right.value
    if isinstance(expr, CallExpr):
        callee = expr.callee
        if not isinstance(callee, MemberExpr):
            return NOTHING
        if callee.name != "startswith" or not sys_attr(callee.expr, "platform"):
            return NOTHING
        if len(expr.args) != 1:
            return NOTHING
        arg = expr.args[0]
        if not isinstance(arg, StrExpr):
            return NOTHING
        return platform.startswith(arg.value)
    return NOTHING
