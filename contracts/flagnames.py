"""C17 'flag inversion': main.invert_flag_name maps a flag to the flag with the opposite meaning --
--allow-X <-> --disallow-X, --show-X <-> --hide-X, --no-X -> --X, anything else --X -> --no-X."""
from __future__ import annotations

import z3

from pyvc.sym import *
from pyvc.target import Target
from pyvc.types import *
from .common import *

S = z3.StringVal
PAIRS = [("allow", "disallow"), ("disallow", "allow"), ("show", "hide"), ("hide", "show")]


def setup(I):
    flag = I.make(TStr(), "flag")
    I.ctx.assume(z3.PrefixOf(S("--"), flag.t))
    return {"args": [flag], "flag": flag}


def ens(I, env, res):
    f = env["flag"].t
    body = z3.SubString(f, 2, z3.Length(f) - 2)
    cases = []
    taken = z3.BoolVal(False)
    for a, b in PAIRS:
        c = z3.PrefixOf(S(a + "-"), body)
        rest = z3.SubString(body, len(a) + 1, z3.Length(body))
        cases.append(z3.Implies(c, res.t == z3.Concat(S("--" + b + "-"), rest)))
        taken = z3.Or(taken, c)
    no = z3.PrefixOf(S("no-"), body)
    cases.append(z3.Implies(no, res.t == z3.Concat(S("--"), z3.SubString(body, 3, z3.Length(body)))))
    cases.append(z3.Implies(z3.Not(z3.Or(taken, no)), res.t == z3.Concat(S("--no-"), body)))
    return z3.And(*cases)


def targets(tier):
    return [Target("main.invert_flag_name", "mypy.main:invert_flag_name", setup, ensures=[("opposite-flag-by-prefix", ens)], raises=(), overrides={}, field_types={},
                   note="every string that starts with `--`")]
