"""Contracts for constant folding (C12 'constant expressions ... get the value they have at run
time', C20 'never an internal error / hang').

Postconditions are written from the property: a folded value must be the value Python's operator
gives for the operands, `None` (not folded) is the only other allowed outcome, and nothing may
escape -- in particular not OverflowError (int -> float) and not an unbounded computation
(ResourceExhausted is the engine's stand-in exit for a result above RES_LIMIT bits/elements).
"""
from __future__ import annotations

import z3

from pyvc.interp import NONE, RES_LIMIT, ResourceExhausted
from pyvc.sym import *
from pyvc.target import Target
from pyvc.types import *


def ival(v):
    if isinstance(v, SInt):
        return v.t
    return z3.If(v.t, z3.IntVal(1), z3.IntVal(0))


def is_intlike(v):
    return isinstance(v, (SInt, SBool))


# ---- specification of Python's int operators over mathematical integers -----------------
# floor division / modulo are specified *relationally* (independent of the engine's encoding)


def spec_floordiv(l, r, q):
    return z3.If(r > 0, z3.And(q * r <= l, l < q * r + r), z3.And(q * r >= l, l > q * r + r))


def spec_mod(l, r, m):
    # m has the sign of the divisor, |m| < |r|, and l - m is a multiple of r
    # (divisibility is stated with the solver's own Euclidean remainder, which is independent of the
    # engine's floor-division encoding and keeps the obligation quantifier-free)
    rng = z3.If(r > 0, z3.And(0 <= m, m < r), z3.And(r < m, m <= 0))
    return z3.And(rng, z3.Implies(r != 0, (l - m) % r == 0))


def bitop(uf, boolop):
    def f(L, R):
        if isinstance(L, SBool) and isinstance(R, SBool):
            return ("bool", boolop(L.t, R.t))
        return ("int", uf(ival(L), ival(R)))

    return f


def max_folded():
    import mypy.constant_fold as cf

    return getattr(cf, "MAX_FOLDED_SIZE", None)


def bl(x):
    return UF_BITLEN(x)


def oversize(s, l, r):
    """results the code may decline to fold because of their size (bound read from the real module)"""
    m = max_folded()
    if m is None:
        return z3.BoolVal(False)
    if s == "<<":
        return z3.And(l != 0, bl(l) + r > m)
    if s == "**":
        return z3.And(z3.Or(l > 1, l < -1), bl(l) * r > m)
    return z3.BoolVal(False)


INT_OPS = {
    # op: (defined(l, r), relation(L, R, l, r, result_value) )
    "+": (lambda l, r: z3.BoolVal(True), lambda L, R, l, r, x: x == l + r),
    "-": (lambda l, r: z3.BoolVal(True), lambda L, R, l, r, x: x == l - r),
    "*": (lambda l, r: z3.BoolVal(True), lambda L, R, l, r, x: x == l * r),
    "//": (lambda l, r: r != 0, lambda L, R, l, r, x: spec_floordiv(l, r, x)),
    "%": (lambda l, r: r != 0, lambda L, R, l, r, x: spec_mod(l, r, x)),
    "&": (lambda l, r: z3.BoolVal(True), lambda L, R, l, r, x: x == UF_BITAND(l, r)),
    "|": (lambda l, r: z3.BoolVal(True), lambda L, R, l, r, x: x == UF_BITOR(l, r)),
    "^": (lambda l, r: z3.BoolVal(True), lambda L, R, l, r, x: x == UF_BITXOR(l, r)),
    "<<": (lambda l, r: r >= 0, lambda L, R, l, r, x: x == UF_LSHIFT(l, r)),
    ">>": (lambda l, r: r >= 0, lambda L, R, l, r, x: x == UF_RSHIFT(l, r)),
    "**": (lambda l, r: r >= 0, lambda L, R, l, r, x: x == UF_POW(l, r)),
}
BOOL_BITOPS = {"&": z3.And, "|": z3.Or, "^": z3.Xor}


def ens_int_ops(op, L, R, res):
    """clauses for int-like operands; '/' gives a float"""
    l, r = ival(L), ival(R)
    cl = []
    for s, (defined, rel) in INT_OPS.items():
        d = z3.And(defined(l, r), z3.Not(oversize(s, l, r)))
        if res is NONE:
            cl.append(z3.Implies(op == s, z3.Not(d)))
        elif isinstance(res, SBool) and s in BOOL_BITOPS and isinstance(L, SBool) and isinstance(R, SBool):
            cl.append(z3.Implies(op == s, res.t == BOOL_BITOPS[s](L.t, R.t)))
        elif isinstance(res, (SInt, SBool)):
            cl.append(z3.Implies(op == s, z3.And(d, rel(L, R, l, r, ival(res)))))
        else:
            cl.append(z3.Implies(op == s, z3.BoolVal(False)))
    # true division: defined iff r != 0 and the quotient is representable
    absl = z3.If(l >= 0, l, -l)
    absr = z3.If(r >= 0, r, -r)
    d = z3.And(r != 0, absl < I2F_LIMIT * absr)
    if res is NONE:
        cl.append(z3.Implies(op == "/", z3.Not(d)))
    elif isinstance(res, SFloat):
        cl.append(z3.Implies(op == "/", z3.And(d, res.t == UF_INT_TRUEDIV(l, r))))
    else:
        cl.append(z3.Implies(op == "/", z3.BoolVal(False)))
    if res is not NONE:
        cl.append(z3.Or([op == s for s in list(INT_OPS) + ["/"]]))
    return z3.And(cl)


def fconv(v):
    """(convertible condition, float term)"""
    if isinstance(v, SFloat):
        return z3.BoolVal(True), v.t
    i = ival(v)
    return z3.And(i < I2F_LIMIT, i > -I2F_LIMIT), UF_I2F(i)


def fzero(v, t):
    if is_intlike(v):
        return ival(v) == 0
    return UF_FISZERO(t)


def flt0(v, t):
    if is_intlike(v):
        return ival(v) < 0
    return UF_FLT0(t)


def fgt0(v, t):
    if is_intlike(v):
        return ival(v) > 0
    return UF_FGT0(t)


FLOAT_OPS = {
    "+": (lambda L, R, x, y: z3.BoolVal(True), UF_FADD),
    "-": (lambda L, R, x, y: z3.BoolVal(True), UF_FSUB),
    "*": (lambda L, R, x, y: z3.BoolVal(True), UF_FMUL),
    "/": (lambda L, R, x, y: z3.Not(fzero(R, y)), UF_FDIV),
    "//": (lambda L, R, x, y: z3.Not(fzero(R, y)), UF_FFLOORDIV),
    "%": (lambda L, R, x, y: z3.Not(fzero(R, y)), UF_FMOD),
}


def ens_float_ops(op, L, R, res):
    okl, x = fconv(L)
    okr, y = fconv(R)
    conv = z3.And(okl, okr)
    cl = []
    for s, (defined, uf) in FLOAT_OPS.items():
        d = z3.And(conv, defined(L, R, x, y))
        if res is NONE:
            cl.append(z3.Implies(op == s, z3.Not(d)))
        elif isinstance(res, SFloat):
            cl.append(z3.Implies(op == s, z3.And(d, res.t == uf(x, y))))
        else:
            cl.append(z3.Implies(op == s, z3.BoolVal(False)))
    # power: real-valued float result only for positive base, or negative base with int exponent;
    # a result that overflows is not folded.  (None is always acceptable for '**'.)
    if isinstance(res, SFloat):
        real = z3.Or(fgt0(L, x), z3.And(flt0(L, x), z3.BoolVal(is_intlike(R))))
        cl.append(z3.Implies(op == "**", z3.And(conv, real, z3.Not(UF_FPOW_OVERFLOWS(x, y)), res.t == UF_FPOW(x, y))))
    elif res is not NONE:
        cl.append(z3.Implies(op == "**", z3.BoolVal(False)))
    if res is not NONE:
        cl.append(z3.Or([op == s for s in list(FLOAT_OPS) + ["**"]]))
    return z3.And(cl)


def ens_binary(I, env, res):
    op, L, R = env["op"].t, env["left"], env["right"]
    if is_intlike(L) and is_intlike(R):
        return ens_int_ops(op, L, R, res)
    num = (SInt, SBool, SFloat)
    if isinstance(L, num) and isinstance(R, num):
        return ens_float_ops(op, L, R, res)
    if isinstance(L, SStr) and isinstance(R, SStr):
        if isinstance(res, SStr):
            return z3.And(op == "+", res.t == z3.Concat(L.t, R.t))
        return z3.And(res is NONE, op != "+") if res is NONE else z3.BoolVal(False)
    for S, N in ((L, R), (R, L)):
        if isinstance(S, (SStr, SBytes)) and is_intlike(N):
            n = ival(N)
            uf = UF_STRMUL if isinstance(S, SStr) else UF_BYTESMUL
            m = max_folded()
            big = z3.And(n > 0, z3.Length(S.t) * n > m) if m is not None else z3.BoolVal(False)
            if res is NONE:
                return z3.Or(op != "*", big)
            if type(res) is type(S):
                return z3.And(op == "*", z3.Not(big), res.t == uf(S.t, n))
            return z3.BoolVal(False)
    if isinstance(L, SBytes) and isinstance(R, SBytes):
        if isinstance(res, SBytes):
            return z3.And(op == "+", res.t == z3.Concat(L.t, R.t))
        return op != "+" if res is NONE else z3.BoolVal(False)
    cx = lambda v: isinstance(v, SComplex)
    if (cx(L) and isinstance(R, num)) or (cx(R) and isinstance(L, num)):
        conv = z3.And([fconv(v)[0] for v in (L, R) if not cx(v)])
        if isinstance(res, SComplex):
            return z3.And(z3.Or(op == "+", op == "-"), conv)
        return z3.Or(z3.And(op != "+", op != "-"), z3.Not(conv)) if res is NONE else z3.BoolVal(False)
    # every other combination of kinds is not foldable
    return z3.BoolVal(res is NONE)


def ens_unary(I, env, res):
    op, Vv = env["op"].t, env["value"]
    if is_intlike(Vv):
        v = ival(Vv)
        if res is NONE:
            return z3.And(op != "-", op != "~", op != "+")
        if isinstance(res, (SInt, SBool)):
            x = ival(res)
            return z3.And(z3.Implies(op == "-", x == -v), z3.Implies(op == "~", x == -v - 1), z3.Implies(op == "+", x == v),
                          z3.Or(op == "-", op == "~", op == "+"))
        return z3.BoolVal(False)
    if isinstance(Vv, SFloat):
        if res is NONE:
            return z3.And(op != "-", op != "+")
        if isinstance(res, SFloat):
            return z3.And(z3.Implies(op == "-", res.t == UF_FNEG(Vv.t)), z3.Implies(op == "+", res.t == Vv.t), z3.Or(op == "-", op == "+"))
        return z3.BoolVal(False)
    return z3.BoolVal(res is NONE)


CONST_KINDS = [TInt(), TBool(), TFloat(), TStr(), TConst(SComplex("c"))]


def setup_binary(kinds_l, kinds_r):
    def setup(I):
        op = I.make(TStr(), "op")
        l = I.make(TUnion(kinds_l) if len(kinds_l) > 1 else kinds_l[0], "left")
        r = I.make(TUnion(kinds_r) if len(kinds_r) > 1 else kinds_r[0], "right")
        return {"args": [op, l, r], "op": op, "left": l, "right": r}

    return setup


def setup_float(I):
    op = I.make(TStr(), "op")
    l = I.make(TUnion([TInt(), TBool(), TFloat()]), "left")
    r = I.make(TUnion([TInt(), TBool(), TFloat()]), "right")
    if not isinstance(l, SFloat) and not isinstance(r, SFloat):
        from pyvc.ctx import Infeasible

        raise Infeasible()  # requires: not both int (call sites guarantee it; the assert repeats it)
    return {"args": [op, l, r], "op": op, "left": l, "right": r}


def setup_unary(I):
    op = I.make(TStr(), "op")
    v = I.make(TUnion(CONST_KINDS), "value")
    return {"args": [op, v], "op": op, "value": v}


# ---- native replay ------------------------------------------------------------------------


def replay_binary(func):
    def replay(ob):
        import importlib, subprocess, sys, json as _json

        m = dict(ob.get("model") or {})
        if "op" not in m:
            return {"confirmed": False, "note": "model has no op"}
        kinds = ((ob.get("detail") or {}).get("kinds") or {})
        for nm in ("left", "right"):
            k = kinds.get(nm)
            if k == "float":
                m[nm] = {"float": 1.5}
            elif k == "complex":
                m[nm] = {"complex": 1}
            elif k == "bytes":
                m[nm] = {"bytes": "ab"}
            elif k == "bool":
                m[nm] = bool(m.get(nm, False))
            elif k == "str" and not isinstance(m.get(nm), str):
                m[nm] = "ab"
            elif k == "int" and not isinstance(m.get(nm), int):
                m[nm] = 0
        code = f"""
import sys, json, resource
resource.setrlimit(resource.RLIMIT_AS, (2*1024**3, 2*1024**3))
sys.set_int_max_str_digits(0)
import {func.split(':')[0]} as M
f = M.{func.split(':')[1]}
m = json.loads(sys.argv[1])
def val(name):
    v = m.get(name)
    if v is None: return 1.5
    if isinstance(v, dict):
        if 'float' in v: return float(v['float'])
        if 'complex' in v: return 1j
        if 'bytes' in v: return v['bytes'].encode()
    return v
try:
    r = f(m['op'], val('left'), val('right'))
    if isinstance(r, int) and r.bit_length() > {RES_LIMIT}:
        print(json.dumps({{'outcome': 'oversize', 'bits': r.bit_length()}}))
    elif isinstance(r, (str, bytes)) and len(r) > {RES_LIMIT}:
        print(json.dumps({{'outcome': 'oversize', 'len': len(r)}}))
    else:
        print(json.dumps({{'outcome': 'returned', 'type': type(r).__name__}}))
except BaseException as e:
    print(json.dumps({{'outcome': 'raised', 'type': type(e).__name__, 'msg': str(e)[:100]}}))
"""
        try:
            p = subprocess.run([sys.executable, "-c", code, _json.dumps({k: v for k, v in m.items() if k in ("op", "left", "right")})],
                               capture_output=True, text=True, timeout=120)
            out = _json.loads(p.stdout.strip().splitlines()[-1]) if p.stdout.strip() else {"outcome": "crash", "stderr": p.stderr[-300:]}
        except subprocess.TimeoutExpired:
            out = {"outcome": "timeout(120s)"}
        confirmed = out.get("outcome") in ("raised", "oversize", "timeout(120s)", "crash")
        return {"confirmed": confirmed, "inputs": {k: (v if not isinstance(v, int) or abs(v) < 10 ** 30 else f"int({len(str(v))} digits)") for k, v in m.items() if k in ("op", "left", "right")}, "observed": out}

    return replay


def targets(tier):
    ts = []
    f = "mypy.constant_fold:constant_fold_binary_int_op"
    ts.append(Target("fold.binary_int_op", f, setup_binary([TInt(), TBool()], [TInt(), TBool()]), ensures=[("value-is-python-operator", ens_binary)], raises=()))
    f = "mypy.constant_fold:constant_fold_binary_float_op"
    ts.append(Target("fold.binary_float_op", f, setup_float, ensures=[("value-is-python-operator", ens_binary)], raises=()))
    f = "mypy.constant_fold:constant_fold_binary_op"
    ts.append(Target("fold.binary_op", f, setup_binary(CONST_KINDS, CONST_KINDS), ensures=[("value-is-python-operator", ens_binary)], raises=()))
    f = "mypy.constant_fold:constant_fold_unary_op"
    ts.append(Target("fold.unary_op", f, setup_unary, ensures=[("value-is-python-operator", ens_unary)], raises=()))
    f = "mypyc.irbuild.constant_fold:constant_fold_binary_op_extended"
    ext = CONST_KINDS + [TBytes()]
    ts.append(Target("fold.mypyc.binary_op_extended", f, setup_binary(ext, ext), ensures=[("value-is-python-operator", ens_binary)], raises=()))
    return ts
