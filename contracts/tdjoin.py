"""C08 'the join of two types is a supertype of both', TypedDict items: TypeJoinVisitor.resolve_typeddict_item.

For a TypedDict J to be a supertype of S and of T at a key (PEP 589 / 705 subtyping): a key that is required
in J is required in both; a key that is MUTABLE in J is mutable in both, equally required in both, and its
type in J is equivalent to its type in S and in T (mutable items are invariant) -- with J's type the join of
the two, that leaves `S's and T's item types are equivalent`.  A key whose type is unknown in either operand
(`typ is None`) is left out of the join.  is_equivalent is an uninterpreted symmetric relation on types and
join_types an arbitrary type: the lattice relation itself is not decided here."""
from __future__ import annotations

import z3

from pyvc.interp import NONE
from pyvc.sym import *
from pyvc.target import Target
from pyvc.types import *
from .common import *

import mypy.join as J
import mypy.types as T

EQ = z3.Function("types_equivalent", IntS, IntS, BoolS)


def equiv_contract(I, args, kwargs):
    a, b = args[0], args[1]
    if not (isinstance(a, SObj) and isinstance(b, SObj)):
        raise Unsupported("is_equivalent of a non-object")
    I.ctx.assume(EQ(a.addr, b.addr) == EQ(b.addr, a.addr))
    I.ctx.assume(EQ(a.addr, a.addr))
    return SBool(EQ(a.addr, b.addr))


def join_contract(I, args, kwargs):
    o = I.make(TObj(T.Type), "join_type")
    I.ctx.ghost["join"] = o
    return o


def mk_item(I, tag):
    has_typ = I.ctx.choose(2, f"{tag}-type-known?")
    typ = I.make(TObj(T.Type), f"{tag}_typ") if has_typ else NONE
    item = STuple([typ, I.make(TBool(), f"{tag}_required"), I.make(TBool(), f"{tag}_readonly")])
    item.names = ["typ", "required", "readonly"]
    item.cls = T.TypedDictItem
    return item


def setup(I):
    self = I.make(TObj(J.TypeJoinVisitor), "self")
    self.cands = [J.TypeJoinVisitor]
    s, t = mk_item(I, "s"), mk_item(I, "t")
    if isinstance(s.items[0], SObj) and isinstance(t.items[0], SObj):
        I.ctx.assume(s.items[0].addr != t.items[0].addr)
    return {"args": [self, I.make(TStr(), "item_name"), s, t], "s": s, "t": t}


def ens(I, env, res):
    if not isinstance(res, STuple) or len(res.items) != 3:
        return z3.BoolVal(False)
    jt, req, ro = res.items
    s, t = env["s"], env["t"]
    st, tt = s.items[0], t.items[0]
    sreq, treq, sro, tro = s.items[1].t, t.items[1].t, s.items[2].t, t.items[2].t
    required_ok = I.truth(req) == z3.And(sreq, treq)
    if not (isinstance(st, SObj) and isinstance(tt, SObj)):
        return z3.And(required_ok, z3.BoolVal(jt is NONE), I.truth(ro))
    mutable = z3.Not(I.truth(ro))
    return z3.And(required_ok, z3.BoolVal(jt is I.ctx.ghost.get("join")),
                  z3.Implies(mutable, z3.And(z3.Not(sro), z3.Not(tro), sreq == treq, EQ(st.addr, tt.addr))))


def targets(tier):
    ov = {"mypy.join:join_types": join_contract, "mypy.join:is_equivalent": equiv_contract, "mypy.subtypes:is_equivalent": equiv_contract}
    return [Target("join.resolve_typeddict_item", "mypy.join:TypeJoinVisitor.resolve_typeddict_item", setup,
                   ensures=[("a-key-stays-mutable-only-if-both-operands-allow-it-and-their-types-are-equivalent", ens)], raises=(), overrides=ov, field_types={},
                   note="is_equivalent: uninterpreted reflexive symmetric relation; join_types: an arbitrary type")]


# ---- join of a fixed-length tuple with a variadic one (TypeJoinVisitor.join_tuples): the fixed tuple is cut
# into prefix / middle / suffix so that its items line up with the items before and after the variadic one.
# Requires of types.split_with_prefix_and_suffix (the three parts partition the tuple): len >= prefix + suffix.
# Region from `unpack = variadic.items[unpack_index]` to the call: when the call is reached, the prefix is as
# long as the part before the variadic item, the suffix as long as the part after it, and the fixed tuple is
# long enough for both -- otherwise the items of the join do not line up with both operands and the join is
# not a supertype of the fixed one.


def setup_split(I):
    self = I.make(TObj(J.TypeJoinVisitor), "self")
    variadic, fixed = I.make(TObj(T.TupleType), "variadic"), I.make(TObj(T.TupleType), "fixed")
    variadic.cands, fixed.cands = [T.TupleType], [T.TupleType]
    vi = I.getattr(variadic, "items")
    ui = I.make(TInt(), "unpack_index")
    I.ctx.assume(z3.And(ui.t >= 0, ui.t < I.llist_len(vi)))
    unpack = I.llist_get_sym(vi, ui.t)
    unpack.cands = [T.UnpackType]
    inner = I.getattr(unpack, "type")
    if isinstance(inner, SObj):
        inner.cands = [T.Instance, T.TypeVarTupleType]
    return {"args": [], "locals": {"self": self, "variadic": variadic, "fixed": fixed, "unpack_index": ui, "s": fixed, "t": variadic},
            "variadic": variadic, "fixed": fixed, "ui": ui}


def ens_split(I, env, res):
    if not env.get("__cut"):
        return z3.BoolVal(True)  # no join of this shape is attempted (None is returned)
    L = env["__locals"]
    p, s = L.get("prefix_len"), L.get("suffix_len")
    if not (isinstance(p, SInt) and isinstance(s, SInt)):
        return z3.BoolVal(False)
    nv = I.llist_len(I.getattr(env["variadic"], "items"))
    nf = I.llist_len(I.getattr(env["fixed"], "items"))
    return z3.And(p.t == env["ui"].t, s.t == nv - env["ui"].t - 1, nf >= p.t + s.t)


def targets_split(tier):
    ft = {("TupleType", "items"): TLList(TObj(T.Type)), ("UnpackType", "type"): TObj(T.Type)}
    ov = {"mypy.types:get_proper_type": lambda I, a, k: a[0], "mypy.join:get_proper_type": lambda I, a, k: a[0]}
    return [Target("join.join_tuples.fixed_vs_variadic_split", "mypy.join:TypeJoinVisitor.join_tuples", setup_split, start_at="unpack = variadic.items[unpack_index]",
                   cut_at="prefix, middle, suffix = split_with_prefix_and_suffix(", ensures=[("fixed-tuple-is-long-enough-for-prefix-and-suffix-of-the-variadic-one", ens_split)],
                   raises=(AssertionError,), overrides=ov, field_types=ft, note="region up to the call of split_with_prefix_and_suffix; its precondition is the obligation")]


# ---- subtyping between two variadic tuples (SubtypeVisitor.variadic_tuple_subtype): the left variadic item is
# instantiated `overlap` times, for overlap = 0 .. max_overlap, and each instance is compared with the right
# tuple.  For every item of the right prefix and suffix to be compared with an item of some instance, the
# largest instance must reach them: left_prefix + max_overlap >= right_prefix and
# left_suffix + max_overlap >= right_suffix (otherwise an incompatible item in the right prefix / suffix is
# never looked at and the answer is not transitive).

import mypy.subtypes as ST


class FakeInfoT:
    fullname: str


def setup_overlap(I):
    self = I.make(TObj(ST.SubtypeVisitor), "self")
    self.cands = [ST.SubtypeVisitor]
    left, right = I.make(TObj(T.TupleType), "left"), I.make(TObj(T.TupleType), "right")
    left.cands, right.cands = [T.TupleType], [T.TupleType]
    env = {"args": [self, left, right], "left": left, "right": right, "idx": {}}
    for tup, tag in ((left, "left"), (right, "right")):
        items = I.getattr(tup, "items")
        ui = I.make(TInt(), f"{tag}_unpack_index")
        I.ctx.assume(z3.And(ui.t >= 0, ui.t < I.llist_len(items)))
        u = I.subscript(items, ui)  # through the same index expression the code uses
        u.cands = [T.UnpackType]
        inst = I.getattr(u, "type")
        inst.cands = [T.Instance]
        info = I.new_object(FakeInfoT)
        info.fields["fullname"] = SStr(z3.StringVal("builtins.tuple"))
        inst.fields["type"] = info
        args = I.getattr(inst, "args")
        I.ctx.assume(I.llist_len(args) >= 1)
        env["idx"][id(items)] = ui
        env[tag + "_ui"] = ui
    I.ctx.ghost["unpack_index_of"] = env["idx"]
    return env


def find_unpack_contract(I, args, kwargs):
    return I.ctx.ghost["unpack_index_of"][id(args[0])]


def ens_overlap(I, env, res):
    if not env.get("__cut"):
        return z3.BoolVal(True)
    L = env["__locals"]
    mo = L.get("max_overlap")
    if not isinstance(mo, SInt):
        return z3.BoolVal(False)
    nl = I.llist_len(I.getattr(env["left"], "items"))
    nr = I.llist_len(I.getattr(env["right"], "items"))
    lp, rp = env["left_ui"].t, env["right_ui"].t
    ls, rs = nl - lp - 1, nr - rp - 1
    return z3.And(mo.t >= 0, lp + mo.t >= rp, ls + mo.t >= rs)


def targets_overlap(tier):
    ft = {("TupleType", "items"): TLList(TObj(T.Type)), ("UnpackType", "type"): TObj(T.Type), ("Instance", "args"): TLList(TObj(T.Type))}
    ov = {"mypy.types:get_proper_type": lambda I, a, k: a[0], "mypy.subtypes:get_proper_type": lambda I, a, k: a[0], "mypy.types:find_unpack_in_list": find_unpack_contract,
          "mypy.subtypes:find_unpack_in_list": find_unpack_contract, "mypy.subtypes:SubtypeVisitor._is_subtype": returns(TBool(), "is_subtype")}
    return [Target("subtypes.variadic_tuple_subtype.overlap_bound", "mypy.subtypes:SubtypeVisitor.variadic_tuple_subtype", setup_overlap,
                   cut_at="for overlap in range(max_overlap + 1)", ensures=[("largest-instance-of-the-left-variadic-item-reaches-the-right-prefix-and-suffix", ens_overlap)],
                   raises=(AssertionError,), overrides=ov, field_types=ft, note="both tuples variadic with a tuple[X, ...] unpack; region up to the overlap loop; _is_subtype an arbitrary boolean")]


# ---- meet of a type variable with itself (TypeMeetVisitor.visit_type_var): 'the meet is a subtype of both
# operands'.  Two occurrences of the same type variable can carry different upper bounds (narrowing); the meet
# is below both only if its bound is below both: the result is the first operand when the bounds are equal,
# otherwise the variable with the MEET of the two bounds.

import mypy.meet as MEET

BEQ = z3.Function("bounds_equal", IntS, IntS, BoolS)


def setup_meet_tv(I):
    self = I.make(TObj(MEET.TypeMeetVisitor), "self")
    self.cands = [MEET.TypeMeetVisitor]
    s, t = I.make(TObj(T.TypeVarType), "s"), I.make(TObj(T.TypeVarType), "t")
    s.cands, t.cands = [T.TypeVarType], [T.TypeVarType]
    self.fields["s"] = s
    sid = I.make(TInt(), "typevar_id")
    s.fields["id"] = sid
    t.fields["id"] = sid  # the same type variable on both sides
    for o, tag in ((s, "s"), (t, "t")):
        ub = I.make(TObj(T.Type), tag + "_upper_bound")
        ub.cands = [T.Instance, T.UnionType]
        o.fields["upper_bound"] = ub
    return {"args": [self, t], "s": s, "t": t}


def bound_eq(I, args, kwargs):
    a, b = args[0], args[1]
    I.ctx.assume(BEQ(a.addr, a.addr))
    return SBool(BEQ(a.addr, b.addr))


def ens_meet_tv(I, env, res):
    s, t = env["s"], env["t"]
    sb, tb = s.fields["upper_bound"], t.fields["upper_bound"]
    same = BEQ(sb.addr, tb.addr)
    meets = [e for e in I.ctx.events if e[0] == "meet"]
    copies = [e for e in I.ctx.events if e[0] == "copy_modified"]
    if res is s and not copies:
        return same
    if len(copies) == 1 and len(meets) == 1 and res is copies[0][-1]:
        m = meets[0]
        ok = copies[0][1] is s and copies[0][2].get("upper_bound") is m[-1] and ((m[1] is sb and m[2] is tb) or (m[1] is tb and m[2] is sb))
        return z3.And(z3.Not(same), z3.BoolVal(bool(ok)))
    return z3.BoolVal(False)


def targets_meet(tier):
    def meet_contract(I, a, k):
        o = I.make(TObj(T.Type), "meet_of_bounds")
        I.ctx.events.append(("meet", a[1], a[2], o))
        return o

    def copy_contract(I, a, k):
        o = I.new_object(T.TypeVarType)
        I.ctx.events.append(("copy_modified", a[0], dict(k), o))
        return o

    ov = {"mypy.meet:TypeMeetVisitor.meet": meet_contract, "mypy.types:TypeVarType.copy_modified": copy_contract, "mypy.types:Instance.__eq__": bound_eq,
          "mypy.types:UnionType.__eq__": bound_eq, "mypy.types:Type.__eq__": bound_eq}
    return [Target("meet.visit_type_var.same_variable", "mypy.meet:TypeMeetVisitor.visit_type_var", setup_meet_tv, ensures=[("bound-of-the-meet-is-the-meet-of-the-bounds", ens_meet_tv)],
                   raises=(), overrides=ov, field_types={("TypeVarType", "id"): TInt()}, note="both operands the same type variable; bound equality an uninterpreted reflexive relation; meet of the bounds by contract")]


# ---- join of a fixed tuple with a variadic one, the variadic item of the result: it must be above every
# item of the fixed tuple's middle part AND above the variadic operand's own item type X (the variadic operand
# may have any number of X there): the new item is join(join of the middle items, X) -- X is joined in whether
# or not the middle is empty.  Region from the call of split_with_prefix_and_suffix on.


def setup_mid(I):
    self = I.make(TObj(J.TypeJoinVisitor), "self")
    variadic, fixed = I.make(TObj(T.TupleType), "variadic"), I.make(TObj(T.TupleType), "fixed")
    variadic.cands, fixed.cands = [T.TupleType], [T.TupleType]
    unpacked = I.make(TObj(T.Instance), "unpacked")
    unpacked.cands = [T.Instance]
    x = I.make(TObj(T.Type), "X")
    unpacked.fields["args"] = SList([x])
    variadic.fields["items"] = SList([I.new_object(T.UnpackType)])  # only the variadic item (empty prefix and suffix)
    return {"args": [], "locals": {"self": self, "variadic": variadic, "fixed": fixed, "unpacked": unpacked, "prefix_len": SInt(0), "suffix_len": SInt(0)},
            "x": x, "unpacked": unpacked}


def ens_mid(I, env, res):
    ev = I.ctx.events
    jl = [e for e in ev if e[0] == "join_type_list"]
    jt = [e for e in ev if e[0] == "join_types"]
    cm = [e for e in ev if e[0] == "copy_modified"]
    if len(cm) != 1 or len(jl) != 1:
        return z3.BoolVal(False)
    args = cm[0][2].get("args")
    if not isinstance(args, SList) or len(args.items) != 1:
        return z3.BoolVal(False)
    new_item = args.items[0]
    ok = any(e[-1] is new_item and ((e[1] is jl[0][-1] and e[2] is env["x"]) or (e[2] is jl[0][-1] and e[1] is env["x"])) for e in jt)
    return z3.BoolVal(bool(ok))


def targets_mid(tier):
    def split_contract(I, a, k):
        mid = I.make(TLList(TObj(T.Type)), "middle")
        return STuple([SList([]), mid, SList([])])

    def jl_contract(I, a, k):
        o = I.make(TObj(T.Type), "join_of_middle")
        I.ctx.events.append(("join_type_list", a[0], o))
        return o

    def jt_contract(I, a, k):
        o = I.make(TObj(T.Type), "joined")
        I.ctx.events.append(("join_types", a[0], a[1], o))
        return o

    def cm_contract(I, a, k):
        o = I.new_object(T.Instance)
        I.ctx.events.append(("copy_modified", a[0], dict(k), o))
        return o

    ov = {"mypy.join:split_with_prefix_and_suffix": split_contract, "mypy.types:split_with_prefix_and_suffix": split_contract, "mypy.join:join_type_list": jl_contract,
          "mypy.join:join_types": jt_contract, "mypy.types:Instance.copy_modified": cm_contract, "mypy.types:UnpackType": lambda I, a, k: I.new_object(T.UnpackType)}
    ft = {("TupleType", "items"): TLList(TObj(T.Type))}
    return [Target("join.join_tuples.variadic_item_of_the_join", "mypy.join:TypeJoinVisitor.join_tuples", setup_mid, start_at="prefix, middle, suffix = split_with_prefix_and_suffix(",
                   cut_at="if suffix_len:", ensures=[("variadic-item-joins-the-middle-items-with-the-variadic-operands-item-type", ens_mid)], raises=(), overrides=ov, field_types=ft,
                   note="region after the split, prefix / suffix empty (their items are joined pairwise; not part of this contract); list(middle) of any length")]
