"""C03, dependency generation ('every target that an edit can affect is re-checked'): a call whose callee
is not itself of a function type goes through `__call__` of the callee's type, so the enclosing target
depends on that attribute.  DependencyVisitor.visit_call_expr (mypy/server/deps.py): for every call
other than the isinstance() special case whose callee has a recorded type that is not FunctionLike --
an instance, a union of callable objects, a Type[...] object, a tuple, ... -- add_attribute_dependency
is called with that type and '__call__'; for a FunctionLike callee nothing is added here."""
from __future__ import annotations

import z3

from pyvc.interp import NONE
from pyvc.sym import *
from pyvc.target import Target
from pyvc.types import *
from .common import *

import mypy.nodes as N
import mypy.types as T
import mypy.server.deps as D

TYPE_CANDS = [T.Instance, T.UnionType, T.CallableType, T.Overloaded, T.TypeType, T.TupleType, T.AnyType, T.NoneType, T.TypeVarType, T.LiteralType]


def rec(tag):
    def h(I, args, kwargs):
        I.ctx.events.append((tag,) + tuple(args[1:]))
        return NONE
    return h


def type_map_get(I, args, kwargs):
    return I.ctx.ghost["callee_type"]


class FakeTypeMap:
    def get(self, key):
        raise NotImplementedError


def setup_call(I):
    self = I.make(TObj(D.DependencyVisitor), "self")
    self.cands = [D.DependencyVisitor]
    e = I.make(TObj(N.CallExpr), "e")
    e.cands = [N.CallExpr]
    callee = I.make(TObj(N.Expression), "callee")
    callee.cands = [N.NameExpr, N.MemberExpr, N.CallExpr, N.IndexExpr]
    e.fields["callee"] = callee
    e.fields["args"] = I.make(TLList(TObj(N.Expression)), "args")
    tm = I.new_object(FakeTypeMap)
    self.fields["type_map"] = tm
    has_type = I.ctx.choose(2, "callee-type-recorded?")
    if has_type:
        typ = I.make(TObj(T.Type), "typ")
        typ.cands = list(TYPE_CANDS)
        k = I.ctx.choose(len(typ.cands), "callee-type-class")
        typ.cands = [typ.cands[k]]
    else:
        typ = NONE
    I.ctx.ghost["callee_type"] = typ
    return {"args": [self, e], "typ": typ, "callee": callee}


def ens_call(I, env, res):
    ev = I.ctx.events
    if any(x[0] == "process_isinstance_call" for x in ev):
        return z3.BoolVal(not any(x[0] == "add_attribute_dependency" for x in ev))
    typ = env["typ"]
    adds = [x for x in ev if x[0] == "add_attribute_dependency"]
    need = isinstance(typ, SObj) and not issubclass(typ.cands[0], T.FunctionLike)
    if not need:
        return z3.BoolVal(not adds)
    ok = len(adds) == 1 and adds[0][1] is typ and isinstance(adds[0][2], SStr) and z3.is_string_value(simp(adds[0][2].t)) and simp(adds[0][2].t).as_string() == "__call__"
    return z3.BoolVal(bool(ok))


def targets(tier):
    ov = {"mypy.traverser:TraverserVisitor.visit_call_expr": rec("super.visit_call_expr"), "mypy.server.deps:DependencyVisitor.process_isinstance_call": rec("process_isinstance_call"),
          "mypy.server.deps:DependencyVisitor.add_attribute_dependency": rec("add_attribute_dependency"), "contracts.depsgen:FakeTypeMap.get": type_map_get,
          "mypy.types:get_proper_type": lambda I, a, k: a[0], "mypy.server.deps:get_proper_type": lambda I, a, k: a[0]}
    ft = {("NameExpr", "fullname"): TStr(), ("MemberExpr", "fullname"): TStr(), ("RefExpr", "fullname"): TStr()}
    return [Target("deps.visit_call_expr.call_dependency", "mypy.server.deps:DependencyVisitor.visit_call_expr", setup_call,
                   ensures=[("callable-object-call-depends-on-its-dunder-call", ens_call)], raises=(), overrides=ov, field_types=ft,
                   note="the callee's recorded type ranges over ten Type classes; get_proper_type is the identity on it (aliases are expanded by the caller's map)")]


# ---- update.update_deps: after the dependencies of the reprocessed targets have been merged, the protocol
# dependencies collected while they were re-checked are merged into the same map before the caller goes on
# to use it ('changes propagate transitively', through protocol members as well)

import mypy.server.update as U
from pyvc.interp import LoopSpec


class FakeTypeState:
    def update_protocol_deps(self, deps=None):
        raise NotImplementedError


def setup_update_deps(I):
    import mypy.build as B
    from mypy.options import Options

    module_id = I.make(TStr(), "module_id")
    nodes = I.make(TLList(TObj(U.FineGrainedDeferredNode)), "nodes")
    deps = I.make(TLDict(TStr(), TAny()), "deps")
    graph = I.make(TLDict(TStr(), TObj(B.State)), "graph")
    options = I.make(TObj(Options), "options")
    return {"args": [module_id, nodes, graph, deps, options], "deps": deps}


def ens_update_deps(I, env, res):
    ev = [e for e in I.ctx.events if e[0] == "update_protocol_deps"]
    return z3.BoolVal(len(ev) == 1 and len(ev[0]) >= 2 and ev[0][1] is env["deps"] and I.ctx.events[-1] is ev[0])


def targets_update(tier):
    ts = FakeTypeState()
    ov = {"mypy.typestate:TypeState.update_protocol_deps": lambda I, a, k: (I.ctx.events.append(("update_protocol_deps",) + tuple(a[1:])), NONE)[1],
          "mypy.server.deps:get_dependencies_of_target": lambda I, a, k: (I.ctx.events.append(("get_dependencies_of_target",)), SDict([]))[1],
          "mypy.build:State.type_map": returns(TAny(), "type_map")}
    ft = {("State", "tree"): TObj(N.MypyFile), ("Options", "python_version"): TTuple([TInt(), TInt()])}
    loops = {"for deferred in nodes": LoopSpec(inv=lambda I, env: z3.BoolVal(True), name="targets")}
    return [Target("update.update_deps.protocol_deps_merged", "mypy.server.update:update_deps", setup_update_deps, ensures=[("protocol-deps-merged-into-the-same-map-last", ens_update_deps)],
                   raises=(KeyError, AssertionError), overrides=ov, field_types=ft, loops=loops,
                   note="whole function at its normal exit; the merge of the targets' own dependencies (the inner loop) is not part of this contract")]


# ---- update.calculate_active_triggers, one generic module of the update: every name whose snapshot differs
# between the old and the new symbol table, every wildcard trigger of those, and the module itself when it is
# new or deleted, end up among the activated names; nothing already collected is lost


def setup_triggers(I):
    mid = I.make(TStr(), "id")
    names = I.make(TSet(TStr()), "names")
    had_old = I.ctx.choose(2, "module-had-a-snapshot?")
    has_new = I.ctx.choose(2, "module-still-exists?")
    old = SDict([(mid, SOpaque("old_snapshot"))]) if had_old else SDict([])
    new_tree = I.new_object(N.MypyFile) if has_new else NONE
    if has_new:
        new_tree.fields["names"] = SOpaque("new_names")
    return {"args": [], "locals": {"id": mid, "names": names, "old_snapshots": old, "new_modules": SDict([(mid, new_tree)]), "manager": SOpaque("manager")},
            "id": mid, "names": names, "names0": names.t, "had_old": had_old, "has_new": has_new}


def ens_triggers(I, env, res):
    final = env["__locals"].get("names")
    if not isinstance(final, ZVal):
        return z3.BoolVal(False)
    n1 = final.t
    x = z3.Const("trig_x", StrS)
    diff, wild = I.ctx.ghost.get("diff"), I.ctx.ghost.get("wild")
    if diff is None or wild is None:
        return z3.BoolVal(False)
    keeps = z3.ForAll([x], z3.Implies(z3.Or(z3.Select(env["names0"], x), z3.Select(diff, x), z3.Select(wild, x)), z3.Select(n1, x)))
    own = z3.Select(n1, env["id"].t) if (not env["had_old"] or not env["has_new"]) else z3.BoolVal(True)
    return z3.And(keeps, own)


def targets_triggers(tier):
    def diff_contract(I, a, k):
        v = I.make(TSet(TStr()), "diff")
        I.ctx.ghost["diff"] = v.t  # the value returned (the code goes on to mutate the set in place)
        return v

    def wild_contract(I, a, k):
        v = I.make(TSet(TStr()), "wildcards")
        I.ctx.ghost["wild"] = v.t
        return v

    ov = {"mypy.server.update:compare_symbol_table_snapshots": diff_contract, "mypy.server.astdiff:compare_symbol_table_snapshots": diff_contract,
          "mypy.server.update:wildcard_triggers_for_changes": wild_contract, "mypy.server.update:snapshot_symbol_table": lambda I, a, k: SOpaque("snapshot"),
          "mypy.server.astdiff:snapshot_symbol_table": lambda I, a, k: SOpaque("snapshot"), "mypy.nodes:SymbolTable": lambda I, a, k: SOpaque("empty_table")}
    return [Target("update.calculate_active_triggers.module", "mypy.server.update:calculate_active_triggers", setup_triggers, loop_body=("for id in new_modules", None),
                   ensures=[("changed-names-their-wildcards-and-new-or-deleted-modules-are-activated", ens_triggers)], raises=(), overrides=ov, field_types={},
                   note="one generic module; the snapshot comparison and the wildcard rule are callee contracts (arbitrary sets)")]
