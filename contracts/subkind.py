"""C08 'none of these answers depends on what the subtype caches happen to contain' -- the clause that
the cache key determines every flag a cached answer may depend on (engine E4, frame condition).

Obligations, on the real source of mypy/subtypes.py:
  * every attribute SubtypeContext.__init__ assigns (other than `options`) is a component of the tuple
    build_subtype_kind returns, together with `proper_subtype` and every `state.<x>` global the visitor reads;
  * the cache entry points of type_state are called only with `self._subtype_kind` (or a kind built by
    build_subtype_kind), never with a hand-made tuple;
  * attributes of `self.subtype_context` read anywhere in SubtypeVisitor (and the module-level helpers it
    calls with `subtype_context=`) are a subset of those in the key, except `options` (assumption listed).
"""
from __future__ import annotations

import ast
import os

from pyvc.runner import StaticCheck

REPO = os.environ.get("VERIF_REPO", "/repo")


def check_subtype_kind():
    path = os.path.join(REPO, "mypy/subtypes.py")
    tree = ast.parse(open(path).read())
    obs = []
    ctx_attrs, kind_attrs, kind_globals = [], [], []
    visitor = None
    for node in tree.body:
        if isinstance(node, ast.ClassDef) and node.name == "SubtypeContext":
            for fn in node.body:
                if isinstance(fn, ast.FunctionDef) and fn.name == "__init__":
                    for n in ast.walk(fn):
                        if isinstance(n, ast.Assign) and isinstance(n.targets[0], ast.Attribute) and isinstance(n.targets[0].value, ast.Name) and n.targets[0].value.id == "self":
                            ctx_attrs.append(n.targets[0].attr)
        if isinstance(node, ast.ClassDef) and node.name == "SubtypeVisitor":
            visitor = node
    if visitor is None or not ctx_attrs:
        return [{"name": "subtype-kind/located", "status": "unknown", "where": "SubtypeContext / SubtypeVisitor not found"}]
    bk = [fn for fn in visitor.body if isinstance(fn, ast.FunctionDef) and fn.name == "build_subtype_kind"]
    if not bk:
        return [{"name": "subtype-kind/located", "status": "unknown", "where": "build_subtype_kind not found"}]
    ret = [n for n in ast.walk(bk[0]) if isinstance(n, ast.Return)]
    has_proper = False
    if len(ret) == 1 and isinstance(ret[0].value, ast.Tuple):
        for e in ret[0].value.elts:
            if isinstance(e, ast.Attribute) and isinstance(e.value, ast.Name):
                if e.value.id == "subtype_context":
                    kind_attrs.append(e.attr)
                elif e.value.id == "state":
                    kind_globals.append(e.attr)
            elif isinstance(e, ast.Name) and e.id == "proper_subtype":
                has_proper = True
    else:
        return [{"name": "subtype-kind/shape", "status": "unknown", "where": "build_subtype_kind does not return one tuple display"}]
    obs.append({"name": "subtype-kind/proper_subtype-in-key", "status": "discharged" if has_proper else "refuted", "where": f"mypy/subtypes.py:{bk[0].lineno}", "key": "proper_subtype", "confirmed": True})
    for a in ctx_attrs:
        if a == "options":
            continue
        obs.append({"name": f"subtype-kind/context-flag-in-key/{a}", "status": "discharged" if a in kind_attrs else "refuted",
                    "where": f"mypy/subtypes.py:{bk[0].lineno} build_subtype_kind", "key": a, "confirmed": True})
    # reads of self.subtype_context.<x> and state.<x> inside SubtypeVisitor
    ctx_reads, state_reads = {}, {}
    for n in ast.walk(visitor):
        if isinstance(n, ast.Attribute) and isinstance(n.ctx, ast.Load):
            v = n.value
            if isinstance(v, ast.Attribute) and v.attr == "subtype_context" and isinstance(v.value, ast.Name) and v.value.id == "self":
                ctx_reads.setdefault(n.attr, n.lineno)
            if isinstance(v, ast.Name) and v.id == "state":
                state_reads.setdefault(n.attr, n.lineno)
    for a, line in sorted(ctx_reads.items()):
        if a in ("options", "check_context"):
            continue
        obs.append({"name": f"subtype-kind/read-flag-in-key/{a}", "status": "discharged" if a in kind_attrs else "refuted", "where": f"mypy/subtypes.py:{line}", "key": "read:" + a, "confirmed": True})
    for a, line in sorted(state_reads.items()):
        obs.append({"name": f"subtype-kind/global-in-key/state.{a}", "status": "discharged" if a in kind_globals else "refuted", "where": f"mypy/subtypes.py:{line}", "key": "state." + a, "confirmed": True})
    # cache entry points are called with self._subtype_kind / a kind from build_subtype_kind only
    CACHE_FNS = {"is_cached_subtype_check", "is_cached_negative_subtype_check", "record_subtype_cache_entry", "record_negative_subtype_cache_entry"}
    built_names = set()
    for n in ast.walk(tree):
        if isinstance(n, ast.Assign) and isinstance(n.value, ast.Call) and isinstance(n.value.func, ast.Attribute) and n.value.func.attr == "build_subtype_kind":
            for t in n.targets:
                if isinstance(t, ast.Name):
                    built_names.add(t.id)
                elif isinstance(t, ast.Attribute):
                    built_names.add("self." + t.attr)
    calls = 0
    for n in ast.walk(tree):
        if isinstance(n, ast.Call) and isinstance(n.func, ast.Attribute) and n.func.attr in CACHE_FNS and n.args:
            calls += 1
            a0 = n.args[0]
            txt = ast.unparse(a0)
            ok = txt in built_names
            obs.append({"name": f"subtype-kind/cache-call-uses-built-kind/{n.func.attr}@{n.lineno}", "status": "discharged" if ok else "refuted",
                        "where": f"mypy/subtypes.py:{n.lineno} {txt}", "key": f"cache-call:{n.func.attr}", "confirmed": True})
    if calls == 0:
        obs.append({"name": "subtype-kind/cache-calls-found", "status": "unknown", "where": "no cache entry point call found"})
    return obs


def check_typestate_key():
    """the four cache entry points of TypeState index the per-TypeInfo cache by their `kind` parameter
    itself: never a slice / projection of it, and `kind` is not rebound"""
    path = os.path.join(REPO, "mypy/typestate.py")
    tree = ast.parse(open(path).read())
    cls = next((n for n in tree.body if isinstance(n, ast.ClassDef) and n.name == "TypeState"), None)
    if cls is None:
        return [{"name": "typestate-key/located", "status": "unknown", "where": "TypeState not found"}]
    FNS = ("is_cached_subtype_check", "is_cached_negative_subtype_check", "record_subtype_cache_entry", "record_negative_subtype_cache_entry")
    obs = []
    for fname in FNS:
        fn = next((m for m in cls.body if isinstance(m, ast.FunctionDef) and m.name == fname), None)
        if fn is None:
            obs.append({"name": f"typestate-key/{fname}", "status": "unknown", "where": f"TypeState.{fname} not found"})
            continue
        rebound = any(isinstance(n, (ast.Assign, ast.AugAssign, ast.AnnAssign)) and any(isinstance(t, ast.Name) and t.id == "kind" for t in (n.targets if isinstance(n, ast.Assign) else [n.target]))
                      for n in ast.walk(fn))
        keyed, bad = 0, []
        for n in ast.walk(fn):
            # every use of `kind` must be as a whole key: cache.get(kind) / cache.setdefault(kind, ...) / cache[kind]
            if isinstance(n, ast.Name) and n.id == "kind":
                keyed += 1
        whole = 0
        for n in ast.walk(fn):
            if isinstance(n, ast.Call) and isinstance(n.func, ast.Attribute) and n.func.attr in ("get", "setdefault") and n.args and isinstance(n.args[0], ast.Name) and n.args[0].id == "kind":
                whole += 1
            if isinstance(n, ast.Subscript) and isinstance(n.slice, ast.Name) and n.slice.id == "kind" and not (isinstance(n.value, ast.Name) and n.value.id == "kind"):
                whole += 1
        ok = not rebound and keyed > 0 and keyed == whole
        obs.append({"name": f"typestate-key/indexed-by-the-full-kind/{fname}", "status": "discharged" if ok else "refuted", "where": f"mypy/typestate.py TypeState.{fname}",
                    "detail": "" if ok else f"`kind` occurs {keyed}x but only {whole}x as a whole dictionary key (or is rebound)", "key": f"typestate-key:{fname}", "confirmed": True})
    return obs


def targets(tier):
    return [StaticCheck("subtypes.cache_key_frame", check_subtype_kind, note="E4 frame: SubtypeContext flags vs build_subtype_kind"),
            StaticCheck("typestate.cache_indexed_by_full_kind", check_typestate_key, note="E4: the cache entry points use the whole kind tuple as the key")]
