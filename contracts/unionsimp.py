"""C08 'simplifying a union yields a type equivalent to the unsimplified union': union simplification
removes only items that are proper subtypes of (or equal to) kept items.

One generic iteration of the item loop of typeops._remove_redundant_union_items (either direction pass):
the item `ti` is either appended to `new_items` (and becomes findable through `seen` at its own index), or
it is an uninhabited type, or it is dropped in favour of the kept item at `duplicate_index` -- and that is
allowed only when `seen` maps an equal type to that index, or when is_proper_subtype(ti, new_items[j],
keep_erased_types=keep_erased, ignore_promotions=True) answered True for exactly that j.  is_proper_subtype
is under an assumed contract (an arbitrary boolean): the lattice relation itself is not decided here.
"""
from __future__ import annotations

import z3

from pyvc.interp import NONE, LoopSpec
from pyvc.sym import *
from pyvc.target import Target
from pyvc.types import *
from .common import *

import mypy.types as T

TYPE = TObj(T.Type)
KINDS = [T.Instance, T.LiteralType, T.UninhabitedType, T.NoneType]


def ips_contract(I, args, kwargs):
    v = I.make(TBool(), "is_proper_subtype")
    I.ctx.events.append(("is_proper_subtype", list(args), dict(kwargs), v))
    return v


def tof_contract(I, args, kwargs):
    o = I.make(TYPE, "true_or_false")
    o.ghost["true_or_false_of"] = args[0]
    I.ctx.events.append(("true_or_false", list(args), o))
    return o


def lit_eq_contract(I, args, kwargs):
    if args[0] is args[1]:
        return SBool(z3.BoolVal(True))
    return I.make(TBool(), "literal_eq")


OV = {
    "mypy.subtypes:is_proper_subtype": ips_contract,
    "mypy.typeops:true_or_false": tof_contract,
    "mypy.types:get_proper_type": lambda I, a, k: a[0], "mypy.typeops:get_proper_type": lambda I, a, k: a[0],
    "mypy.types:LiteralType.__eq__": lit_eq_contract, "mypy.types:Instance.__eq__": lit_eq_contract,
}

FT = {
    ("Type", "can_be_true"): TBool(), ("Type", "can_be_false"): TBool(),
    ("Instance", "last_known_value"): TOpt(TObj(T.LiteralType)), ("LiteralType", "fallback"): TObj(T.Instance),
}


def setup_item(I):
    ti = I.make(TYPE, "ti")
    ti.cands = list(KINDS)
    new_items = I.make(TLList(TYPE), "new_items")
    seen = I.make(TLDict(TYPE, TInt()), "seen")
    n0 = I.llist_len(new_items)
    # data-structure invariant of `seen` (established by the append branch, checked below): every value is
    # the index in new_items at which the key was appended
    seen.value_inv = lambda I_, k, v: z3.And(v.t >= 0, v.t < n0)
    keep_erased = I.make(TBool(), "keep_erased")
    fb = I.make(TOpt(TLDict(TObj(T.Instance), TBool())), "unduplicated_literal_fallbacks")
    return {"args": [], "locals": {"items": I.make(TLList(TYPE), "items"), "keep_erased": keep_erased, "new_items": new_items, "seen": seen,
                                   "unduplicated_literal_fallbacks": fb, "ti": ti, "_direction": I.make(TInt(), "_direction"),
                                   "is_proper_subtype": I.reflect(__import__("mypy.subtypes", fromlist=["x"]).is_proper_subtype)},
            "ti": ti, "new_items": new_items, "n0": n0, "keep_erased": keep_erased, "seen": seen}


def same_obj(a, b):
    return isinstance(a, SObj) and isinstance(b, SObj) and a is b


def ens_item(I, env, res):
    """ti is appended (and indexed in `seen` at its own position), or is uninhabited, or is dropped for the
    kept item at duplicate_index, which `seen` held for an equal type or for which is_proper_subtype(ti,
    that item, keep_erased_types=keep_erased, ignore_promotions=True) was asked and answered True; the
    only kept item that may be replaced is that one, and only by true_or_false of itself"""
    L = env["__locals"]
    ti, new_items, seen, n0 = env["ti"], env["new_items"], env["seen"], env["n0"]
    if L.get("new_items") is not new_items or L.get("seen") is not seen:
        return z3.BoolVal(False)
    cells_changed = [k for k, v in new_items.cells.items() if getattr(v, "init_cell", True) is False]
    if len(new_items.appended) > 1:
        return z3.BoolVal(False)
    if new_items.appended:
        # append branch: the item itself, no other store, and seen[ti] is its index
        if new_items.sym_writes or not same_obj(new_items.appended[0], ti):
            return z3.BoolVal(False)
        ents = [e for e in seen.entries if same_obj(e[0], ti)]
        if len(ents) != 1 or ents[0][2] is None:
            return z3.BoolVal(False)
        return z3.And(ents[0][1], ents[0][2].t == n0)
    if ti.cands == [T.UninhabitedType]:
        return z3.BoolVal(not new_items.sym_writes)
    # drop branch
    d = L.get("duplicate_index")
    if not isinstance(d, SInt):
        return z3.BoolVal(False)
    just = []
    for e in seen.entries:
        if same_obj(e[0], ti) and e[4] is not None:
            just.append(z3.And(e[3], e[4].t == d.t))
    for ev in I.ctx.events:
        if ev[0] != "is_proper_subtype":
            continue
        a, kw, r = ev[1], ev[2], ev[3]
        if len(a) != 2 or set(kw) != {"keep_erased_types", "ignore_promotions"} or not same_obj(a[0], ti):
            continue
        ke, ip = kw["keep_erased_types"], kw["ignore_promotions"]
        if ke is not env["keep_erased"] or not (isinstance(ip, SBool) and z3.is_true(simp(ip.t))):
            continue
        # the second operand is the element of new_items at the loop index the engine used
        for key, v in I.ctx.ghost.items():
            if isinstance(key, tuple) and key[0] == "llist-sym" and key[1] == new_items.name and v is a[1]:
                idx = I.ctx.ghost.get(("llist-sym-index",) + key[1:])
                if idx is not None:
                    just.append(z3.And(r.t, d.t == idx))
    ok = z3.And(d.t >= 0, d.t < n0, z3.Or(*just) if just else z3.BoolVal(False))
    for wi, wv in new_items.sym_writes:
        tof = wv.ghost.get("true_or_false_of") if isinstance(wv, SObj) else None
        src = [key for key, v in I.ctx.ghost.items() if isinstance(key, tuple) and key[0] == "llist-sym" and key[1] == new_items.name and v is tof]
        if tof is None or not src:
            return z3.BoolVal(False)
        ok = z3.And(ok, wi == d.t)
    return ok


def targets(tier):
    loops = {"for (j, tj) in enumerate(new_items)": LoopSpec(inv=lambda I, env: env["duplicate_index"].t == -1, name="no-duplicate-found-yet")}
    return [
        Target("typeops._remove_redundant_union_items.item", "mypy.typeops:_remove_redundant_union_items", setup_item,
               loop_body=("for ti in items", None), ensures=[("dropped-only-for-an-equal-or-proper-supertype-kept-item", ens_item)],
               raises=(), overrides=OV, field_types=FT, loops=loops, timeout=600,
               note="one generic item of one direction pass; is_proper_subtype an arbitrary boolean (assumed contract)"),
    ]


# --------------------------------------------------------------------------------------------------
# try_contracting_literals_in_union: one generic item of the scan, as a step relation on the entry
#   k -> (lits, idxs)   of `sum_types` that the code consults for a literal item of a sum type:
#   * k is the FULL name of the literal's fallback type (two types that merely share a short name never
#     share an entry);
#   * a new entry starts as (all members of that type, []): the enum's members, or {True, False};
#   * lits' = lits - {value of the item},  idxs' = idxs + [position of the item];
#   * items are replaced / marked exactly when lits' is empty: the replacement is the item's own fallback
#     type written at idxs'[0], and exactly the positions idxs'[1:] are added to marked_for_deletion;
#   * an item that is not a literal of a sum type changes nothing.
# From the step relation the invariant 'idxs are positions of literal items of the type named k, and
# every member of that type missing from lits is the value of one of them' follows by induction over the
# scan (lemma, stated in DESIGN.md, not machine-checked): when lits' is empty every member is present as
# a literal of exactly that type, so the contracted union is equivalent.

import mypy.nodes as N


def members_contract(I, args, kwargs):
    info = args[0]
    if "enum_members" not in info.ghost:
        info.ghost["enum_members"] = I.make(TSeq(TStr()), "enum_members")
    return info.ghost["enum_members"]


def set_of(seq, sort):
    x = z3.Const("ci_x", sort)
    return z3.Lambda([x], z3.Contains(seq, z3.Unit(x)))


def setup_contract_item(variant):
    vty = TStr() if variant == "enum" else TBool()

    def setup(I):
        proper_types = I.make(TLList(TYPE), "proper_types")
        idx = I.make(TInt(), "idx")
        I.ctx.assume(z3.And(idx.t >= 0, idx.t < I.llist_len(proper_types)))
        typ = I.llist_get_sym(proper_types, idx.t)
        if variant == "enum":
            typ.cands = [T.LiteralType, T.Instance, T.NoneType]
        else:
            # bool literals: precondition (type invariant of LiteralType) -- only enum literals, whose values
            # are member names (str), have an enum fallback
            typ.cands = [T.LiteralType]
            I.ctx.assume(z3.Not(I.getattr(I.getattr(I.getattr(typ, "fallback"), "type"), "is_enum").t))
        sum_types = I.make(TLDict(TStr(), TTuple([TSet(vty), TSeq(TInt())])), "sum_types")
        pre = {}

        def snapshot(I_, k, v):
            # pre-state of the consulted entry; of its invariant only 'the first recorded position is a
            # position before the current one' is needed here (re-established below)
            pre["lits"], pre["idxs"] = v.items[0].t, v.items[1].t
            return z3.Implies(z3.Length(pre["idxs"]) > 0, z3.And(pre["idxs"][0] >= 0, pre["idxs"][0] < idx.t))

        sum_types.value_inv = snapshot
        marked = I.make(TSet(TInt()), "marked_for_deletion")
        return {"args": [], "locals": {"types": I.make(TLList(TYPE), "types"), "proper_types": proper_types, "sum_types": sum_types, "marked_for_deletion": marked,
                                       "idx": idx, "typ": typ},
                "proper_types": proper_types, "idx": idx, "typ": typ, "sum_types": sum_types, "marked0": marked.t, "vty": vty, "variant": variant, "pre": pre}
    return setup


def ens_contract_item(I, env, res):
    L = env["__locals"]
    pt, st, typ, idx, vty = env["proper_types"], env["sum_types"], env["typ"], env["idx"], env["vty"]
    marked1 = L["marked_for_deletion"]
    if not isinstance(marked1, ZVal) or L.get("proper_types") is not pt or L.get("sum_types") is not st or pt.appended:
        return z3.BoolVal(False)
    unchanged = z3.And(z3.BoolVal(not pt.sym_writes and not any(e[2] is not None for e in st.entries)), marked1.t == env["marked0"])
    if typ.cands != [T.LiteralType]:
        return unchanged
    fb = I.getattr(typ, "fallback")
    info = I.getattr(fb, "type")
    is_enum = I.getattr(info, "is_enum").t
    is_sum = is_enum if env["variant"] == "enum" else z3.BoolVal(True)
    touched = [e for e in st.entries if e[2] is not None]
    if not touched:
        return z3.And(z3.Not(is_sum), unchanged)
    if len(touched) != 1 or len(st.entries) != 1:
        return z3.BoolVal(False)
    key, present, val, present0 = touched[0][0], touched[0][1], touched[0][2], touched[0][3]
    if not isinstance(val, STuple) or len(val.items) != 2:
        return z3.BoolVal(False)
    lits1, idxs1 = unwrap(TSet(vty), val.items[0]), unwrap(TSeq(TInt()), val.items[1])
    fullname = I.getattr(info, "_fullname").t
    value = I.getattr(typ, "value").t
    if env["variant"] == "enum":
        members = set_of(members_contract(I, [info], {}).t, StrS)
    else:
        members = z3.K(BoolS, z3.BoolVal(True))
    pre = env["pre"]
    if "lits" in pre:
        lits0, idxs0 = pre["lits"], pre["idxs"]  # the entry existed (snapshot taken when it was first read)
        existed = present0
    else:
        lits0, idxs0 = members, z3.Empty(z3.SeqSort(IntS))
        existed = z3.Not(present0)
    step = z3.And(is_sum, existed, key.t == fullname, present, lits1 == z3.Store(lits0, value, z3.BoolVal(False)), idxs1 == z3.Concat(idxs0, z3.Unit(idx.t)),
                  idxs1[0] >= 0, idxs1[0] <= idx.t)
    empty1 = lits1 == z3.K(vty.sort(), z3.BoolVal(False))
    if pt.sym_writes:
        if len(pt.sym_writes) != 1 or pt.sym_writes[0][1] is not fb:
            return z3.BoolVal(False)
        w = pt.sym_writes[0][0]
        p = z3.Int("ci_p")
        rest = z3.Extract(idxs1, z3.IntVal(1), z3.Length(idxs1) - 1)
        first = idxs1[0]
        # (the last conjunct is implied by the one before it; stated separately, quantifier-free, so that a
        # change that deletes the kept position is refuted with a model rather than left undecided)
        effect = z3.And(empty1, w == first, marked1.t == z3.Lambda([p], z3.Or(z3.Select(env["marked0"], p), z3.Contains(rest, z3.Unit(p)))),
                        z3.Implies(z3.Select(marked1.t, first), z3.Or(z3.Select(env["marked0"], first), z3.Contains(rest, z3.Unit(first)))))
    else:
        effect = z3.And(z3.Not(empty1), marked1.t == env["marked0"])
    import os
    dbg = os.environ.get("UNION_DBG")
    if dbg:
        return (list(step.children()) + list(effect.children()))[int(dbg)]
    return z3.And(step, effect)


def targets_contract(tier):
    out = []
    for variant in ("enum", "bool"):
        vty = TStr() if variant == "enum" else TBool()
        ft = dict(FT)
        ft.update({("LiteralType", "value"): vty, ("Instance", "type"): TObj(N.TypeInfo), ("TypeInfo", "_fullname"): TStr(), ("TypeInfo", "is_enum"): TBool()})
        ov = dict(OV)
        ov["mypy.nodes:TypeInfo.enum_members"] = members_contract
        out.append(Target(f"typeops.try_contracting_literals_in_union.item.{variant}", "mypy.typeops:try_contracting_literals_in_union", setup_contract_item(variant),
                          loop_body=("for idx, typ in enumerate(proper_types)", None), ensures=[("literals-contracted-only-when-every-member-of-that-very-type-is-present", ens_contract_item)],
                          raises=(), overrides=ov, field_types=ft, timeout=600,
                          note=f"one generic item, {variant} literals (LiteralType.value is a str for enum literals, a bool for bool literals: type invariant of LiteralType)"))
    return out


# ---- the induction over the scan, as a lemma over the step CONTRACT above (no code involved) -----------
# Ghost functions over item positions: FN(p) the full name of the fallback type of the literal at p,
# VAL(p) its value, MEM(k) the members of the sum type named k.  INV(k, lits, idxs, bound): idxs is a
# strictly increasing list of positions below `bound` of literal items of the type named k; lits is a
# subset of MEM(k); every member missing from lits is the value of an indexed item.


def contraction_lemma():
    from pyvc.solve import confirm_unsat

    V = z3.DeclareSort("LitVal")
    FNf, ISLITf, VALf = z3.Function("lc_FN", IntS, StrS), z3.Function("lc_ISLIT", IntS, BoolS), z3.Function("lc_VAL", IntS, V)
    MEM = z3.Function("lc_MEM", StrS, z3.ArraySort(V, BoolS))

    def INV(k, lits, a, n, bound):
        j, j2 = z3.Ints("lc_j lc_j2")
        v = z3.Const("lc_v", V)
        return z3.And(n >= 0,
                      z3.ForAll([j], z3.Implies(z3.And(j >= 0, j < n), z3.And(a[j] >= 0, a[j] < bound, FNf(a[j]) == k, ISLITf(a[j])))),
                      z3.ForAll([j, j2], z3.Implies(z3.And(j >= 0, j < j2, j2 < n), a[j] < a[j2])),
                      z3.ForAll([v], z3.Implies(lits[v], MEM(k)[v])),
                      z3.ForAll([v], z3.Implies(z3.And(MEM(k)[v], z3.Not(lits[v])), z3.Exists([j], z3.And(j >= 0, j < n, VALf(a[j]) == v)))))

    k = z3.Const("lc_k", StrS)
    lits0 = z3.Const("lc_lits0", z3.ArraySort(V, BoolS))
    a0 = z3.Const("lc_idxs0", z3.ArraySort(IntS, IntS))
    n0, idx = z3.Ints("lc_n0 lc_idx")
    value = z3.Const("lc_value", V)
    v, j = z3.Const("lc_v2", V), z3.Int("lc_j3")
    # what the step contract establishes for the current item: key == its full name, lits' = lits - {value}, idxs' = idxs + [idx]
    step_h = z3.And(idx >= 0, FNf(idx) == k, ISLITf(idx), VALf(idx) == value)
    inv0 = INV(k, lits0, a0, n0, idx)
    goals = [
        ("base/new-entry-satisfies-the-invariant", None, INV(k, MEM(k), a0, z3.IntVal(0), idx)),
        ("step/invariant-preserved-by-the-step-contract", z3.And(inv0, step_h), INV(k, z3.Store(lits0, value, z3.BoolVal(False)), z3.Store(a0, n0, idx), n0 + 1, idx + 1)),
        ("final/empty-lits-means-every-member-is-a-literal-item-of-that-very-type", z3.And(inv0, z3.ForAll([v], z3.Not(lits0[v]))),
         z3.ForAll([v], z3.Implies(MEM(k)[v], z3.Exists([j], z3.And(j >= 0, j < n0, VALf(a0[j]) == v, FNf(a0[j]) == k, ISLITf(a0[j]), a0[j] >= 0, a0[j] < idx))))),
    ]
    obs = []
    for name, hyp, goal in goals:
        if hyp is not None:
            cover = z3.Solver()
            cover.set("timeout", 20000)
            cover.add(hyp)
            if cover.check() == z3.unsat:
                obs.append({"name": f"contraction-lemma/{name}/non-vacuous", "status": "unknown", "where": "hypotheses are contradictory"})
                continue
        s = z3.Solver()
        s.set("timeout", 30000)
        s.add(z3.Not(z3.Implies(hyp, goal) if hyp is not None else goal))
        r = s.check()
        st, solver = "unknown", "z3"
        if r == z3.unsat:
            ok, by, _ = confirm_unsat("(set-logic ALL)\n" + s.to_smt2(), budget_s=60)  # quantified: z3 5.1's unsat alone is not believed
            if ok:
                st, solver = "discharged", "z3+" + by
        elif r == z3.sat:
            st = "refuted"
        obs.append({"name": f"contraction-lemma/{name}", "status": st, "solver": solver, "kind": "lemma", "where": "lemma over the step contract of try_contracting_literals_in_union"})
    return obs


def targets_lemma(tier):
    from pyvc.runner import StaticCheck

    return [StaticCheck("typeops.try_contracting_literals_in_union.lemma", contraction_lemma,
                        note="induction over the scan: base, step (from the per-item contract) and the conclusion at the moment of contraction")]
