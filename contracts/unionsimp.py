"""C08 'simplifying a union yields a type equivalent to the unsimplified union': union simplification
removes only items that are proper subtypes of (or equal to) kept items.

One generic iteration of the item loop of typeops._remove_redundant_union_items (either direction pass):
the item `ti` is either appended to `new_items` (and becomes findable through `seen` at its own index), or
it is an uninhabited type, or it is dropped in favour of the kept item at `duplicate_index` -- and that is
allowed only when `seen` maps an equal type to that index, or when is_proper_subtype(ti, new_items[j],
keep_erased_types=keep_erased, ignore_promotions=True) answered True for exactly that j.  is_proper_subtype
is under an assumed contract (an arbitrary boolean): the lattice relation itself is not decided here.
"""
from __future__ import annotations

import z3

from pyvc.interp import NONE, LoopSpec
from pyvc.sym import *
from pyvc.target import Target
from pyvc.types import *
from .common import *

import mypy.types as T

TYPE = TObj(T.Type)
KINDS = [T.Instance, T.LiteralType, T.UninhabitedType, T.NoneType]


def ips_contract(I, args, kwargs):
    v = I.make(TBool(), "is_proper_subtype")
    I.ctx.events.append(("is_proper_subtype", list(args), dict(kwargs), v))
    return v


def tof_contract(I, args, kwargs):
    o = I.make(TYPE, "true_or_false")
    o.ghost["true_or_false_of"] = args[0]
    I.ctx.events.append(("true_or_false", list(args), o))
    return o


def lit_eq_contract(I, args, kwargs):
    if args[0] is args[1]:
        return SBool(z3.BoolVal(True))
    return I.make(TBool(), "literal_eq")


OV = {
    "mypy.subtypes:is_proper_subtype": ips_contract,
    "mypy.typeops:true_or_false": tof_contract,
    "mypy.types:get_proper_type": lambda I, a, k: a[0], "mypy.typeops:get_proper_type": lambda I, a, k: a[0],
    "mypy.types:LiteralType.__eq__": lit_eq_contract, "mypy.types:Instance.__eq__": lit_eq_contract,
}

FT = {
    ("Type", "can_be_true"): TBool(), ("Type", "can_be_false"): TBool(),
    ("Instance", "last_known_value"): TOpt(TObj(T.LiteralType)), ("LiteralType", "fallback"): TObj(T.Instance),
}


def setup_item(I):
    ti = I.make(TYPE, "ti")
    ti.cands = list(KINDS)
    new_items = I.make(TLList(TYPE), "new_items")
    seen = I.make(TLDict(TYPE, TInt()), "seen")
    n0 = I.llist_len(new_items)
    # data-structure invariant of `seen` (established by the append branch, checked below): every value is
    # the index in new_items at which the key was appended
    seen.value_inv = lambda I_, k, v: z3.And(v.t >= 0, v.t < n0)
    keep_erased = I.make(TBool(), "keep_erased")
    fb = I.make(TOpt(TLDict(TObj(T.Instance), TBool())), "unduplicated_literal_fallbacks")
    return {"args": [], "locals": {"items": I.make(TLList(TYPE), "items"), "keep_erased": keep_erased, "new_items": new_items, "seen": seen,
                                   "unduplicated_literal_fallbacks": fb, "ti": ti, "_direction": I.make(TInt(), "_direction"),
                                   "is_proper_subtype": I.reflect(__import__("mypy.subtypes", fromlist=["x"]).is_proper_subtype)},
            "ti": ti, "new_items": new_items, "n0": n0, "keep_erased": keep_erased, "seen": seen}


def same_obj(a, b):
    return isinstance(a, SObj) and isinstance(b, SObj) and a is b


def ens_item(I, env, res):
    """ti is appended (and indexed in `seen` at its own position), or is uninhabited, or is dropped for the
    kept item at duplicate_index, which `seen` held for an equal type or for which is_proper_subtype(ti,
    that item, keep_erased_types=keep_erased, ignore_promotions=True) was asked and answered True; the
    only kept item that may be replaced is that one, and only by true_or_false of itself"""
    L = env["__locals"]
    ti, new_items, seen, n0 = env["ti"], env["new_items"], env["seen"], env["n0"]
    if L.get("new_items") is not new_items or L.get("seen") is not seen:
        return z3.BoolVal(False)
    cells_changed = [k for k, v in new_items.cells.items() if getattr(v, "init_cell", True) is False]
    if len(new_items.appended) > 1:
        return z3.BoolVal(False)
    if new_items.appended:
        # append branch: the item itself, no other store, and seen[ti] is its index
        if new_items.sym_writes or not same_obj(new_items.appended[0], ti):
            return z3.BoolVal(False)
        ents = [e for e in seen.entries if same_obj(e[0], ti)]
        if len(ents) != 1 or ents[0][2] is None:
            return z3.BoolVal(False)
        return z3.And(ents[0][1], ents[0][2].t == n0)
    if ti.cands == [T.UninhabitedType]:
        return z3.BoolVal(not new_items.sym_writes)
    # drop branch
    d = L.get("duplicate_index")
    if not isinstance(d, SInt):
        return z3.BoolVal(False)
    just = []
    for e in seen.entries:
        if same_obj(e[0], ti) and e[4] is not None:
            just.append(z3.And(e[3], e[4].t == d.t))
    for ev in I.ctx.events:
        if ev[0] != "is_proper_subtype":
            continue
        a, kw, r = ev[1], ev[2], ev[3]
        if len(a) != 2 or set(kw) != {"keep_erased_types", "ignore_promotions"} or not same_obj(a[0], ti):
            continue
        ke, ip = kw["keep_erased_types"], kw["ignore_promotions"]
        if ke is not env["keep_erased"] or not (isinstance(ip, SBool) and z3.is_true(simp(ip.t))):
            continue
        # the second operand is the element of new_items at the loop index the engine used
        for key, v in I.ctx.ghost.items():
            if isinstance(key, tuple) and key[0] == "llist-sym" and key[1] == new_items.name and v is a[1]:
                idx = I.ctx.ghost.get(("llist-sym-index",) + key[1:])
                if idx is not None:
                    just.append(z3.And(r.t, d.t == idx))
    ok = z3.And(d.t >= 0, d.t < n0, z3.Or(*just) if just else z3.BoolVal(False))
    for wi, wv in new_items.sym_writes:
        tof = wv.ghost.get("true_or_false_of") if isinstance(wv, SObj) else None
        src = [key for key, v in I.ctx.ghost.items() if isinstance(key, tuple) and key[0] == "llist-sym" and key[1] == new_items.name and v is tof]
        if tof is None or not src:
            return z3.BoolVal(False)
        ok = z3.And(ok, wi == d.t)
    return ok


def targets(tier):
    loops = {"for (j, tj) in enumerate(new_items)": LoopSpec(inv=lambda I, env: env["duplicate_index"].t == -1, name="no-duplicate-found-yet")}
    return [
        Target("typeops._remove_redundant_union_items.item", "mypy.typeops:_remove_redundant_union_items", setup_item,
               loop_body=("for ti in items", None), ensures=[("dropped-only-for-an-equal-or-proper-supertype-kept-item", ens_item)],
               raises=(), overrides=OV, field_types=FT, loops=loops, timeout=600,
               note="one generic item of one direction pass; is_proper_subtype an arbitrary boolean (assumed contract)"),
    ]
