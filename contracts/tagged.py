"""C15 'compiled numeric primitives compute exactly what Python computes': contracts on the C fast paths
of mypyc's tagged-integer operations (CPy.h) and the fixed-width divide / remainder helpers
(int_ops.c), discharged on clang's -O1 LLVM IR of the REAL sources (engine E3), for all 2^128 operand
pairs.

Representation (mypyc/lib-rt/mypyc_util.h): a CPyTagged t is *short* iff its low bit is 0 and then
denotes the Python int val(t) = t >> 1 (arithmetic); otherwise it is a tagged pointer to a PyLong whose
value does not fit a short int.  Every contract has the same shape:

  fast path (returns without calling a slow-path function):
        both operands are short, the result is short and val(result) = op(val(left), val(right))
        over the mathematical integers (so a wrapped or truncated value can never be returned);
  slow path: the call receives exactly the original operands and its result is returned unchanged
        (CPyTagged_*_ and CPython's PyLong arithmetic are trusted);
  no instruction with undefined behaviour is reachable.
"""
from __future__ import annotations

import atexit
import hashlib
import os
import shutil
import subprocess
import tempfile
import time

import z3

from llvm2smt import ir as IR
from llvm2smt import sem as SEM
from llvm2smt.wrappers import source as wrapper_source

REPO = os.environ.get("VERIF_REPO", "/repo")
PYINC = "/root/.pyenv/versions/3.12.1/include/python3.12"
W = 64

_cache = {}


def compile_ir(opt="-O1"):
    key = opt
    if key in _cache:
        return _cache[key]
    d = tempfile.mkdtemp(prefix="llvm2smt_")
    src = os.path.join(d, "w.c")
    open(src, "w").write(wrapper_source())
    out = os.path.join(d, "w.ll")
    cmd = ["clang", opt, "-S", "-emit-llvm", "-Wno-everything", f"-I{PYINC}", f"-I{REPO}/mypyc/lib-rt", src, "-o", out]
    p = subprocess.run(cmd, capture_output=True, text=True)
    if p.returncode != 0:
        shutil.rmtree(d, ignore_errors=True)
        _cache[key] = (None, p.stderr[-800:], None)
        return _cache[key]
    text = open(out).read()
    shutil.rmtree(d, ignore_errors=True)
    _cache[key] = (text, None, None)
    return _cache[key]


def lib_rt_hashes():
    out = {}
    for f in ("CPy.h", "int_ops.c", "mypyc_util.h"):
        p = os.path.join(REPO, "mypyc/lib-rt", f)
        out[f] = hashlib.sha256(open(p, "rb").read()).hexdigest()
    return out


# ---------------------------------------------------------------------------- helpers (BV)


def short(t):
    return (t & 1) == 0


def val(t):
    return t >> 1


def sx(t, extra):
    return z3.SignExt(extra, t)


MIN63 = -(2 ** 62)
MAX63 = 2 ** 62 - 1


def bv_spec_binary(name):
    """returns f(l, r, res) -> z3 Bool: the value relation on a fast-path return (BV encoding)"""
    if name == "Add":
        return lambda l, r, res: sx(val(res), 2) == sx(val(l), 2) + sx(val(r), 2)
    if name == "Subtract":
        return lambda l, r, res: sx(val(res), 2) == sx(val(l), 2) - sx(val(r), 2)
    if name == "And":
        return lambda l, r, res: val(res) == (val(l) & val(r))
    if name == "Or":
        return lambda l, r, res: val(res) == (val(l) | val(r))
    if name == "Xor":
        return lambda l, r, res: val(res) == (val(l) ^ val(r))
    if name == "Rshift":
        # Python: x >> n for n >= 0 is floor(x / 2**n): arithmetic shift, saturating for n >= 63
        def f(l, r, res):
            n = val(r)
            big = z3.If(val(l) < 0, z3.BitVecVal(-1, W), z3.BitVecVal(0, W))
            return z3.And(n >= 0, val(res) == z3.If(z3.UGE(n, z3.BitVecVal(63, W)), big, val(l) >> n))

        return f
    if name == "Lshift":
        # x << n = x * 2**n exactly: compare in 256 bits (n < 128 on the fast path is an obligation)
        def f(l, r, res):
            n = val(r)
            wide = 256 - W
            return z3.And(n >= 0, z3.ULT(n, z3.BitVecVal(128, W)), sx(val(res), wide) == (sx(val(l), wide) << z3.ZeroExt(wide, n)))

        return f
    raise KeyError(name)


def bv_spec_cmp(name):
    return {
        "IsEq": lambda a, b: a == b, "IsNe": lambda a, b: a != b, "IsLt": lambda a, b: a < b,
        "IsLe": lambda a, b: a <= b, "IsGt": lambda a, b: a > b, "IsGe": lambda a, b: a >= b,
    }[name]


# ---------------------------------------------------------------------------- helpers (INT)


def ishort(t):
    return t % 2 == 0


def ival(t):
    return t / 2  # t even: exact; floor otherwise


def py_floordiv(a, b):
    return z3.If(b > 0, a / b, (-a) / (-b))


def py_mod(a, b):
    return a - b * py_floordiv(a, b)


def python_modulo(be, a, b, m):
    """m = a % b in Python's sense, with the quotient witnessed by the backend's truncated division"""
    rng = z3.If(b > 0, z3.And(m >= 0, m < b), z3.And(m <= 0, m > b))
    wit = [z3.Or(a == q * b2 + m, a == (q - 1) * b2 + m, a == (q + 1) * b2 + m) for (a2, b2, q, r) in be.divs if a2.eq(a) and b2.eq(b)]
    if not wit:
        return z3.BoolVal(False)
    return z3.And(b != 0, rng, z3.Or(wit))


_fd = [0]


def floor_def(a, b):
    """(f, definition): f is THE integer floor(a / b) for b != 0, given by its defining inequalities
    (a conservative definition: such an f exists and is unique), so that the solver is not asked to
    reason about `div` with a symbolic divisor"""
    _fd[0] += 1
    f = z3.Int(f"floor{_fd[0]}")
    d = z3.Implies(b != 0, z3.If(b > 0, z3.And(f * b <= a, a < f * b + b), z3.And(f * b >= a, a > f * b + b)))
    return f, d


# ---------------------------------------------------------------------------- the target class


class IRTarget:
    """one C function: obligations per path of its IR"""

    def __init__(self, id, cname, kind, spec=None, note="", timeout=300, slow=None):
        self.id = id
        self.cname = cname
        self.kind = kind
        self.spec = spec
        self.note = note
        self.timeout = timeout
        self.slow = slow
        self.func = f"mypyc/lib-rt:{cname}"
        self.overrides = {}

    def prove(self, hyps, goal, timeout_ms=60000):
        """portfolio: z3 with a short budget, then cvc5, then z3 with the full budget.  The nonlinear
        integer queries of the division kernels are unstable in z3 (1 s or > 60 s on identical input)
        while cvc5 decides them in 0.1 s; an answer of either solver is a proof of the same query"""
        s = z3.Solver()
        s.set("timeout", min(10000, timeout_ms))
        s.add(hyps)
        s.add(z3.Not(goal))
        t0 = time.time()
        r = s.check()
        if r == z3.unknown:
            from pyvc.solve import cvc5_check, LAST_MODEL

            r2, _ = cvc5_check(s.to_smt2(), timeout_s=30)
            if r2 == "unsat":
                return "discharged", None, time.time() - t0, "cvc5"
            if r2 == "sat" and isinstance(LAST_MODEL[0], dict):
                return "refuted", LAST_MODEL[0], time.time() - t0, "cvc5"
            s.set("timeout", timeout_ms)
            r = s.check()
        secs = time.time() - t0
        if r == z3.unsat:
            return "discharged", None, secs, "z3"
        if r == z3.sat:
            m = s.model()
            model = {}
            for d in m.decls():
                v = m[d]
                try:
                    model[d.name()] = v.as_signed_long() if z3.is_bv_value(v) else v.as_long() if z3.is_int_value(v) else str(v)
                except Exception:
                    model[d.name()] = str(v)
            return "refuted", model, secs, "z3"
        return "unknown", None, secs, "z3"

    def run(self):
        t0 = time.time()
        res = {"target": self.id, "function": self.func, "status": "undecided", "obligations": [], "unsupported": [], "note": self.note,
               "bounded": None, "bounded_notes": [], "functions_executed": {self.func: 1}}
        text, err, _ = compile_ir()
        if text is None:
            res["unsupported"].append("clang failed: " + (err or ""))
            return res
        try:
            funcs = IR.parse_module(text)
        except IR.Unsupported as e:
            # another function of the unit uses an unsupported instruction: parse only ours
            funcs = {}
        f = funcs.get(self.cname)
        if f is None:
            try:
                funcs = parse_one(text, self.cname)
                f = funcs.get(self.cname)
            except IR.Unsupported as e:
                res["unsupported"].append(f"IR outside the supported subset: {e}")
                return res
        if f is None:
            res["unsupported"].append(f"function {self.cname} not found in the IR")
            return res
        res["function_ast_sha256"] = hashlib.sha256("\n".join(f.text).encode()).hexdigest()
        res["source_sha256"] = hashlib.sha256(repr(sorted(lib_rt_hashes().items())).encode()).hexdigest()
        be = SEM.INT() if SEM.has_hard_arith(f) else SEM.BV()
        res["encoding"] = be.name
        try:
            params, paths = SEM.run(f, be)
        except IR.Unsupported as e:
            res["unsupported"].append(f"IR outside the supported subset: {e}")
            return res
        facts = list(getattr(be, "facts", []))
        obs = []
        solver_secs = 0.0

        def add(name, hyps, goal, where):
            nonlocal solver_secs
            st, model, secs, solver = self.prove(facts + hyps, goal)
            solver_secs += secs
            o = {"name": name, "kind": "ensures", "status": st, "model": model, "where": where, "path": [], "solver": solver, "secs": round(secs, 3),
                 "detail": {"encoding": be.name}, "native_replay": None}
            if st == "refuted" and model is not None:
                o["native_replay"] = native_replay(self, model)
            obs.append(o)

        reachable = 0
        for k, p in enumerate(paths):
            s = z3.Solver()
            s.set("timeout", 20000)
            s.add(facts + p.conds)
            if s.check() == z3.unsat:
                continue
            reachable += 1
            tag = "slow" if any(e[0] == "call" for e in p.events) else "raise" if any(e[0] == "raise" for e in p.events) else "fast"
            where = f"path {k} via blocks {'>'.join(p.blocks)} [{tag}]"
            for conds, ok, desc in p.ub:
                add("no-undefined-behaviour", conds, ok, f"{desc}; {where}")
            for name, goal in self.spec(be, params, p, tag):
                add(name, p.conds, goal, where)
        res["obligations"] = obs
        res["paths"] = len(paths)
        res["exits"] = {"normal": reachable, "exceptional": 0}
        res["solver_secs"] = round(solver_secs, 3)
        res["wall_s"] = round(time.time() - t0, 3)
        if any(o["status"] == "refuted" for o in obs):
            res["status"] = "refuted"
        elif any(o["status"] == "unknown" for o in obs):
            res["status"] = "undecided"
            res["unsupported"].append("solver returned unknown on an obligation")
        elif not obs or not reachable:
            res["status"] = "vacuous"
        else:
            res["status"] = "proved"
        return res


def parse_one(text, name):
    """parse only the named function (others may use instructions outside the subset)"""
    import re

    m = re.search(r"^define[^\n]*@" + re.escape(name) + r"\(.*?^}", text, re.M | re.S)
    if not m:
        return {}
    return IR.parse_module(m.group(0))


# ---------------------------------------------------------------------------- native replay


def native_replay(target, model):
    """call the real C function (compiled from the same sources by the system compiler, -O0) on the
    model's operands in a subprocess and compare with Python's own arithmetic"""
    if target.kind.startswith("conv"):
        return native_replay_conv(target, model)
    args = [model.get(k) for k in sorted(model) if k.startswith("arg_")]
    if not args or any(not isinstance(a, int) for a in args):
        return {"confirmed": False, "note": "model has no integer operands"}
    try:
        so = build_so()
    except Exception as e:
        return {"confirmed": False, "note": f"cannot build native library: {e}"}
    code = f"""
import ctypes, sys, json
lib = ctypes.PyDLL({so!r})
f = getattr(lib, {target.cname!r})
args = {args!r}
kind = {target.kind!r}
W = {{'i64': 64, 'i32': 32, 'i16': 16}}.get(kind.split(':')[-1], 64)
ct = {{64: ctypes.c_int64, 32: ctypes.c_int32, 16: ctypes.c_int16}}[W]
f.restype = ctypes.c_bool if kind == 'cmp' else ct
f.argtypes = [ct] * len(args)
err = None
try:
    r = f(*args)
except BaseException as e:   # PyDLL re-raises the exception the C function set
    r = -113
    err = type(e).__name__
print(json.dumps({{'result': r, 'raised': err}}))
"""
    import json
    import sys

    try:
        p = subprocess.run([sys.executable, "-c", code], capture_output=True, text=True, timeout=60)
    except subprocess.TimeoutExpired:
        return {"confirmed": False, "note": "native call timed out"}
    if p.returncode != 0 or not p.stdout.strip():
        return {"confirmed": p.returncode < 0, "inputs": args, "observed": {"process": f"exit {p.returncode}", "stderr": p.stderr[-300:]},
                "note": "the real function crashed the process" if p.returncode < 0 else "native call failed"}
    got = json.loads(p.stdout.strip().splitlines()[-1])
    exp = expected_native(target, args)
    out = {"inputs": args, "observed": got, "expected": exp}
    if exp == "slow-path":
        # the exact result is not a short int: a correct function delegates and returns a tagged pointer
        out["confirmed"] = isinstance(got["result"], int) and not isinstance(got["result"], bool) and got["result"] % 2 == 0
    else:
        out["confirmed"] = exp is not None and (got["result"] != exp.get("result") or got["raised"] != exp.get("raised"))
    return out


def native_replay_conv(target, model):
    """the model fixes what the CPython API call answered (result, overflow flag, error pending); a Python
    object with exactly that behaviour is passed to the real conversion function"""
    import json
    import sys

    r = next((v for k, v in model.items() if k.startswith("ret!PyLong_As")), None)
    ov = next((v for k, v in model.items() if k.startswith("out!PyLong_As")), 0)
    err = str(model.get("api_error_pending")) == "True"
    if err:
        obj_src = "'not an int'"
    elif isinstance(ov, int) and ov != 0:
        obj_src = f"{ov} * 2 ** 80"
    elif isinstance(r, int):
        obj_src = repr(r)
    else:
        return {"confirmed": False, "note": "model does not determine the converted object"}
    bits = int(target.kind.split(":i")[-1])
    spec = next(c for c in CONVERSIONS if c[0] == target.cname)
    lo, hi, errv = spec[2], spec[3], spec[4]
    try:
        so = build_so()
    except Exception as e:
        return {"confirmed": False, "note": f"cannot build native library: {e}"}
    ct = {64: "c_int64", 32: "c_int32", 16: "c_int16", 8: "c_uint8"}[bits]
    code = f"""
import ctypes, json
lib = ctypes.PyDLL({so!r})
f = getattr(lib, {target.cname!r})
f.restype = ctypes.{ct}
f.argtypes = [ctypes.py_object]
obj = {obj_src}
raised = None
try:
    r = f(obj)
except BaseException as e:
    r = None
    raised = type(e).__name__
print(json.dumps({{'result': r, 'raised': raised}}))
"""
    try:
        p = subprocess.run([sys.executable, "-c", code], capture_output=True, text=True, timeout=60)
    except subprocess.TimeoutExpired:
        return {"confirmed": False, "note": "native call timed out"}
    if p.returncode != 0 or not p.stdout.strip():
        return {"confirmed": False, "inputs": obj_src, "note": "native call failed", "stderr": p.stderr[-300:]}
    got = json.loads(p.stdout.strip().splitlines()[-1])
    v = eval(obj_src) if not err else None
    if err:
        exp = {"result": None, "raised": "TypeError"}
    elif lo <= v <= hi:
        exp = {"result": v, "raised": None}
    else:
        exp = {"result": None, "raised": "ValueError"}
    return {"inputs": obj_src, "observed": got, "expected": exp, "confirmed": got != exp}


def expected_native(target, args):
    """Python's own answer for short operands (None when an operand is not a short int)"""
    kind = target.kind
    if kind.startswith("fixed"):
        x, y = args
        w = int(kind.split(":i")[-1])
        lo = -(2 ** (w - 1))
        if y == 0:
            return {"result": -113, "raised": "ZeroDivisionError"}
        if "Divide" in target.cname:
            if x == lo and y == -1:
                return {"result": -113, "raised": "OverflowError"}
            return {"result": x // y, "raised": None}
        return {"result": x % y, "raised": None}
    if any(a % 2 for a in args):
        return None
    vs = [a // 2 for a in args]
    n = target.cname[2:]
    import operator

    ops = {"Add": operator.add, "Subtract": operator.sub, "Multiply": operator.mul, "And": operator.and_, "Or": operator.or_, "Xor": operator.xor}
    try:
        if n in ops:
            r = ops[n](*vs)
        elif n == "FloorDivide":
            r = vs[0] // vs[1]
        elif n == "Remainder":
            r = vs[0] % vs[1]
        elif n == "Rshift":
            r = vs[0] >> vs[1]
        elif n == "Lshift":
            r = vs[0] << vs[1] if vs[1] < 200 else None
        elif n == "Negate":
            r = -vs[0]
        elif n == "Invert":
            r = ~vs[0]
        elif n in ("IsEq", "IsNe", "IsLt", "IsLe", "IsGt", "IsGe"):
            r = {"IsEq": operator.eq, "IsNe": operator.ne, "IsLt": operator.lt, "IsLe": operator.le, "IsGt": operator.gt, "IsGe": operator.ge}[n](*vs)
            return {"result": bool(r), "raised": None}
        else:
            return None
    except (ZeroDivisionError, ValueError):
        return "slow-path"
    if r is None or not (MIN63 <= r <= MAX63):
        return "slow-path"
    return {"result": r * 2, "raised": None}


_so = {}


def build_so():
    if "so" in _so:
        return _so["so"]
    # worker processes are killed at their deadline, so an atexit hook does not always run: directories
    # left behind by earlier runs are removed here once they are older than an hour
    try:
        import glob

        for old in glob.glob(os.path.join(tempfile.gettempdir(), "llvm2smt_so_*")):
            if time.time() - os.path.getmtime(old) > 3600:
                shutil.rmtree(old, ignore_errors=True)
    except OSError:
        pass
    d = tempfile.mkdtemp(prefix="llvm2smt_so_")
    src = os.path.join(d, "w.c")
    open(src, "w").write(wrapper_source())
    so = os.path.join(d, "w.so")
    obj = os.path.join(d, "w.o")
    cmd = ["cc", "-O0", "-c", "-fPIC", "-w", f"-I{PYINC}", f"-I{REPO}/mypyc/lib-rt", src, "-o", obj]
    p = subprocess.run(cmd, capture_output=True, text=True)
    if p.returncode != 0:
        raise RuntimeError(p.stderr[-400:])
    # other parts of lib-rt referenced by int_ops.c but not needed by the functions under contract:
    # defined as aborting stubs so that the object can be loaded
    nm = subprocess.run(["nm", "-u", obj], capture_output=True, text=True).stdout
    missing = sorted({ln.split()[-1] for ln in nm.splitlines() if ln.split() and ln.split()[-1].startswith(("CPy", "_CPy"))})
    stubs = os.path.join(d, "stubs.c")
    open(stubs, "w").write("#include <stdlib.h>\n" + "".join(f"void {m}(void) {{ abort(); }}\n" for m in missing))
    p = subprocess.run(["cc", "-O0", "-shared", "-fPIC", "-w", obj, stubs, "-o", so], capture_output=True, text=True)
    if p.returncode != 0:
        raise RuntimeError(p.stderr[-400:])
    _so["so"] = so
    atexit.register(shutil.rmtree, d, ignore_errors=True)
    return so


# ---------------------------------------------------------------------------- specifications


def spec_tagged_binary(name):
    def spec(be, params, p, tag):
        l, r = params
        out = []
        if tag == "slow":
            calls = [e for e in p.events if e[0] == "call"]
            ok = len(calls) == 1 and calls[0][1].startswith("CPyTagged_")
            out.append(("slow-path-gets-the-original-operands", z3.And(z3.BoolVal(ok), *(a == b for a, b in zip(calls[0][2], (l, r))) if ok else [z3.BoolVal(False)])))
            return out
        if isinstance(be, SEM.BV):
            out.append(("fast-path-only-for-short-operands", z3.And(short(l), short(r))))
            out.append(("fast-path-result-is-short", short(p.ret)))
            out.append(("fast-path-value-is-python-operator", bv_spec_binary(name)(l, r, p.ret)))
        else:
            a, b = ival(l), ival(r)
            out.append(("fast-path-only-for-short-operands", z3.And(ishort(l), ishort(r))))
            out.append(("fast-path-result-is-short", ishort(p.ret)))
            if name == "Multiply":
                goal = p.ret == 2 * (a * b)
            elif name == "FloorDivide":
                goal = z3.And(b != 0, p.ret == 2 * py_floordiv(a, b))
            else:
                # Python's modulo is THE m with the sign of the divisor, |m| < |divisor| and
                # dividend = k * divisor + m for some integer k.  On tagged values (2A, 2B) the result
                # 2m satisfies the same three conditions; k is witnessed by the truncated quotient
                # of the C `%` or its predecessor.
                goal = python_modulo(be, l, r, p.ret)
            out.append(("fast-path-value-is-python-operator", goal))
            out.append(("fast-path-result-in-range", z3.And(p.ret >= -(2 ** 63), p.ret < 2 ** 63)))
        return out

    return spec


def spec_tagged_unary(name):
    def spec(be, params, p, tag):
        (x,) = params
        if tag == "slow":
            calls = [e for e in p.events if e[0] == "call"]
            return [("slow-path-gets-the-original-operand", z3.And(z3.BoolVal(len(calls) == 1), calls[0][2][0] == x))]
        exp = (-sx(val(x), 2)) if name == "Negate" else (-sx(val(x), 2) - 1)
        return [("fast-path-only-for-short-operand", short(x)), ("fast-path-result-is-short", short(p.ret)),
                ("fast-path-value-is-python-operator", sx(val(p.ret), 2) == exp)]

    return spec


def spec_tagged_cmp(name):
    def spec(be, params, p, tag):
        l, r = params
        if tag == "slow":
            calls = [e for e in p.events if e[0] == "call"]
            ok = len(calls) == 1
            return [("slow-path-is-a-comparison-of-the-operands", z3.BoolVal(ok and calls[0][1] in ("CPyTagged_IsEq_", "CPyTagged_IsLt_")))]
        if name in ("IsEq", "IsNe"):
            # left short; a long right operand denotes an int outside the short range, hence unequal
            exp = z3.And(short(r), val(l) == val(r))
            if name == "IsNe":
                exp = z3.Not(exp)
            return [("fast-path-only-for-short-left-operand", short(l)), ("fast-path-value-is-python-comparison", p.ret == exp)]
        return [("fast-path-only-for-short-operands", z3.And(short(l), short(r))),
                ("fast-path-value-is-python-comparison", p.ret == bv_spec_cmp(name)(val(l), val(r)))]

    return spec


def spec_fixed(name, w):
    lo = -(2 ** (w - 1))

    def spec(be, params, p, tag):
        x, y = params
        raises = [e[1] for e in p.events if e[0] == "raise"]
        out = []
        if isinstance(be, SEM.BV):
            raise IR.Unsupported("fixed-width helpers use the integer encoding")
        zero = y == 0
        ovf = z3.And(x == lo, y == -1)
        if "Divide" in name:
            if raises:
                out.append(("exception-iff-zero-divisor-or-overflow", z3.And(z3.BoolVal(len(raises) == 1),
                            z3.BoolVal(raises[0] == "PyExc_ZeroDivisionError") == zero, z3.BoolVal(raises[0] == "PyExc_OverflowError") == z3.And(z3.Not(zero), ovf))))
                out.append(("error-value-returned", p.ret == -113))
            else:
                out.append(("no-exception-only-when-defined", z3.And(z3.Not(zero), z3.Not(ovf))))
                out.append(("value-is-python-floor-division", p.ret == py_floordiv(x, y)))
        else:
            if raises:
                out.append(("exception-iff-zero-divisor", z3.And(z3.BoolVal(raises == ["PyExc_ZeroDivisionError"]), zero)))
                out.append(("error-value-returned", p.ret == -113))
            else:
                out.append(("no-exception-only-when-defined", z3.Not(zero)))
                out.append(("value-is-python-modulo", python_modulo(be, x, y, p.ret)))
        return out

    return spec


def spec_conv(name, bits, lo, hi, err):
    """CPyLong_As<T>_(o): conversion of a Python int object to a fixed-width C integer.

    Contract of the CPython API call it is built on (trusted): PyLong_AsLong[Long]AndOverflow(o, &ov)
    either fails (an exception is pending, result -1, ov 0), or o is an int V and then result = V, ov = 0
    when V fits a C long, else result = -1 and ov = sign(V) in {-1, +1}; PyErr_Occurred() is non-NULL
    exactly while an exception is pending.
    Specification: if the API call failed, the error value is returned and no further exception is set;
    otherwise V in [lo, hi] is returned unchanged with no exception, and any other V sets ValueError and
    returns the error value."""

    def spec(be, params, p, tag):
        if not isinstance(be, SEM.BV):
            raise IR.Unsupported("conversion helpers use the bit-vector encoding")
        api = [e for e in p.events if e[0] == "call" and e[1].startswith("PyLong_As")]
        if len(api) != 1:
            return [("one-api-call", z3.BoolVal(False))]
        r = api[0][3]
        outs = [a[1] for a in api[0][2] if isinstance(a, tuple) and a and a[0] == "out"]
        if len(outs) != 1:
            return [("overflow-out-parameter", z3.BoolVal(False))]
        ov = outs[0]
        ERR = z3.Bool("api_error_pending")
        hyp = [z3.Or(ov == 0, ov == 1, ov == -1), z3.Implies(ERR, z3.And(r == -1, ov == 0)), z3.Implies(ov != 0, z3.And(r == -1, z3.Not(ERR)))]
        for e in p.events:
            if e[0] == "call" and e[1] == "PyErr_Occurred":
                hyp.append((e[3] != 0) == ERR)
        raises = [e[1] for e in p.events if e[0] == "raise"]
        w = r.size()
        oor = z3.Or(ov != 0, r < z3.BitVecVal(lo, w), r > z3.BitVecVal(hi, w))
        errv = z3.BitVecVal(err % (2 ** bits), bits)
        if raises:
            goal = z3.And(z3.BoolVal(raises == ["PyExc_ValueError"]), z3.Not(ERR), oor, p.ret == errv)
            return [("valueerror-only-for-an-int-out-of-range", z3.Implies(z3.And(hyp), goal))]
        goal = z3.Or(z3.And(ERR, p.ret == errv), z3.And(z3.Not(ERR), z3.Not(oor), p.ret == z3.Extract(bits - 1, 0, r)))
        return [("value-returned-unchanged-iff-in-range-else-error", z3.Implies(z3.And(hyp), goal))]

    return spec


CONVERSIONS = [
    ("CPyLong_AsInt64_", 64, -(2 ** 63), 2 ** 63 - 1, -113),
    ("CPyLong_AsInt32_", 32, -(2 ** 31), 2 ** 31 - 1, -113),
    ("CPyLong_AsInt16_", 16, -(2 ** 15), 2 ** 15 - 1, -113),
    ("CPyLong_AsUInt8_", 8, 0, 255, 239),
]


def spec_pred(name):
    def spec(be, params, p, tag):
        if name == "CheckShort":
            return [("definition", (p.ret != 0) == short(params[0]))]
        if name == "CheckLong":
            return [("definition", (p.ret != 0) == z3.Not(short(params[0])))]
        if name in ("TooBig", "TooBigInt64"):
            v = params[0]
            return [("value-does-not-fit-a-short-int", p.ret == z3.Or(v > z3.BitVecVal(MAX63, W), v < z3.BitVecVal(MIN63, W)))]
        if name == "ShortAsSsize_t":
            return [("definition", z3.Implies(short(params[0]), sx(p.ret, 1) * 2 == sx(params[0], 1)))]
        if name == "IsAddOverflow":
            s, l, r = params
            exact = sx(l, 1) + sx(r, 1)
            return [("signed-overflow-of-the-sum", z3.Implies(s == l + r, p.ret == (sx(s, 1) != exact)))]
        if name == "IsSubtractOverflow":
            s, l, r = params
            exact = sx(l, 1) - sx(r, 1)
            return [("signed-overflow-of-the-difference", z3.Implies(s == l - r, p.ret == (sx(s, 1) != exact)))]
        return []

    return spec


def targets(tier):
    from llvm2smt import wrappers as WR

    ts = []
    for n in WR.TAGGED_BIN:
        ts.append(IRTarget(f"tagged.{n}", f"w_{n}", "tagged", spec_tagged_binary(n)))
    for n in WR.TAGGED_UN:
        ts.append(IRTarget(f"tagged.{n}", f"w_{n}", "tagged", spec_tagged_unary(n)))
    for n in WR.TAGGED_CMP:
        ts.append(IRTarget(f"tagged.{n}", f"w_{n}", "cmp", spec_tagged_cmp(n)))
    for n, ret, args in WR.PREDS:
        if n == "IsMultiplyOverflow":
            continue  # conservative by design; its use is covered by tagged.Multiply
        ts.append(IRTarget(f"tagged.{n}", f"w_{n}", "pred", spec_pred(n)))
    for n, ty in WR.FIXED:
        w = int(ty[3:-2])
        ts.append(IRTarget(f"fixed.{n}", n, f"fixed:i{w}", spec_fixed(n, w)))
    for n, bits, lo, hi, err in CONVERSIONS:
        ts.append(IRTarget(f"conv.{n}", n, f"conv:i{bits}", spec_conv(n, bits, lo, hi, err),
                           note="int object -> fixed-width conversion against the CPython API contract of PyLong_AsLong[Long]AndOverflow / PyErr_Occurred"))
    # compile once in the parent so that the forked workers share the result
    compile_ir()
    return ts
