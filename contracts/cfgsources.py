"""C17, further clauses.

  glob_order      'unstructured wildcard sections (later wins)': Options.build_per_module_cache hands the
                  unstructured sections to clone_for_module (which applies them in list order, see
                  permodule.glob_step) in the order of the section table -- an order frame decided on the
                  source: the list appended to _glob_options is an order-preserving filter of
                  per_module_options' keys; structured sections are processed wildcards (sorted, so a
                  parent precedes its children) before concrete names.
  cmdline_order   'then command line, then the global config section': in main.process_options the
                  config file is applied to the Options object before anything taken from the command
                  line is (the --strict group, then the real argparse pass).
  toml_overrides  'the same effect whichever supported way it is supplied', pyproject.toml overrides:
                  one [[tool.mypy.overrides]] block naming two modules yields, for each of them, its own
                  dict -- not the block's dict and not the sibling's -- so a later block for one module
                  cannot leak settings into the other (ownership condition on destructure_overrides).
"""
from __future__ import annotations

import ast

import z3

from pyvc.interp import NONE, func_node
from pyvc.runner import StaticCheck
from pyvc.sym import *
from pyvc.target import Target, resolve
from pyvc.types import *
from .common import *

ORDER_BREAKING = {"sorted", "reversed", "set", "frozenset"}


def _calls(node):
    return {n.func.id for n in ast.walk(node) if isinstance(n, ast.Call) and isinstance(n.func, ast.Name)}


def _is_keys_of_table(node):
    src = ast.unparse(node).replace(" ", "")
    return src in ("self.per_module_options.keys()", "self.per_module_options", "list(self.per_module_options)", "list(self.per_module_options.keys())")


def check_glob_order():
    live = resolve("mypy.options:Options.build_per_module_cache")
    fnode, mod = func_node(live)
    obs = []
    # (a) the loop that fills _glob_options
    loops = [n for n in fnode.body if isinstance(n, ast.For) and any(
        isinstance(c, ast.Call) and ast.unparse(c.func).replace(" ", "") == "self._glob_options.append" for c in ast.walk(n))]
    where = "mypy/options.py build_per_module_cache"
    if len(loops) != 1 or not isinstance(loops[0].iter, ast.Name) or not isinstance(loops[0].target, ast.Name):
        obs.append({"name": "cfg/unstructured-sections-in-file-order", "status": "unknown", "where": where + f": {len(loops)} loops fill _glob_options"})
    else:
        lp = loops[0]
        src_name = lp.iter.id
        assigns = [n for n in ast.walk(fnode) if isinstance(n, ast.Assign) and any(isinstance(t, ast.Name) and t.id == src_name for t in n.targets)]
        app = [c for c in ast.walk(lp) if isinstance(c, ast.Call) and ast.unparse(c.func).replace(" ", "") == "self._glob_options.append"][0]
        first_is_loop_var = (len(app.args) == 1 and isinstance(app.args[0], ast.Tuple) and app.args[0].elts and isinstance(app.args[0].elts[0], ast.Name)
                             and app.args[0].elts[0].id == lp.target.id)
        st, detail = "unknown", ""
        if len(assigns) == 1:
            val = assigns[0].value
            if _calls(val) & ORDER_BREAKING:
                st, detail = "refuted", f"`{src_name}` is built with {sorted(_calls(val) & ORDER_BREAKING)}: the order of the section table is lost, so 'later wins' no longer refers to the file order"
            elif isinstance(val, ast.ListComp) and len(val.generators) == 1 and _is_keys_of_table(val.generators[0].iter) and isinstance(val.elt, ast.Name) \
                    and isinstance(val.generators[0].target, ast.Name) and val.elt.id == val.generators[0].target.id and first_is_loop_var:
                st = "discharged"
        obs.append({"name": "cfg/unstructured-sections-in-file-order", "status": st, "where": where + f": for {lp.target.id} in {src_name}", "detail": detail,
                    "key": "cfg-glob-order", "confirmed": st == "refuted"})
    # (b) structured sections: sorted wildcards, then concrete names
    loops2 = [n for n in fnode.body if isinstance(n, ast.For) and any(isinstance(c, ast.Subscript) and ast.unparse(c.value).replace(" ", "") == "self._per_module_cache"
                                                                         and isinstance(c.ctx, ast.Store) for c in ast.walk(n))]
    if len(loops2) != 1:
        obs.append({"name": "cfg/structured-wildcards-before-concrete-parents-first", "status": "unknown", "where": where})
    else:
        it = loops2[0].iter
        st, detail = "unknown", ""
        if isinstance(it, ast.BinOp) and isinstance(it.op, ast.Add) and isinstance(it.left, ast.Name) and isinstance(it.right, ast.Name):
            def assigned(name):
                a = [n for n in ast.walk(fnode) if isinstance(n, ast.Assign) and any(isinstance(t, ast.Name) and t.id == name for t in n.targets)]
                return a[0].value if len(a) == 1 else None
            left, right = assigned(it.left.id), assigned(it.right.id)
            if left is not None and right is not None:
                lsrc, rsrc = ast.unparse(left), ast.unparse(right)
                left_wild = "endswith('.*')" in lsrc and "not" not in lsrc
                right_conc = "not" in rsrc and "endswith('.*')" in rsrc
                if left_wild and right_conc:
                    st = "discharged" if (isinstance(left, ast.Call) and isinstance(left.func, ast.Name) and left.func.id == "sorted" and not left.keywords) else "refuted"
                    detail = "" if st == "discharged" else "wildcard sections are no longer processed in sorted order (a parent foo.* must be resolved before foo.bar.*)"
                elif "not" in lsrc and "endswith('.*')" in lsrc and "endswith('.*')" in rsrc:
                    st, detail = "refuted", "concrete sections are processed before the wildcard sections they inherit from"
        obs.append({"name": "cfg/structured-wildcards-before-concrete-parents-first", "status": st, "where": where + f": for key in {ast.unparse(it)}", "detail": detail,
                    "key": "cfg-structured-order", "confirmed": st == "refuted"})
    return obs


def check_cmdline_order():
    live = resolve("mypy.main:process_options")
    fnode, mod = func_node(live)
    where = "mypy/main.py process_options"

    def index_of(pred):
        hits = [k for k, st in enumerate(fnode.body) if pred(st)]
        return hits[0] if len(hits) == 1 else None

    def has_call(st, fname, nested_defs=False):
        for n in ast.walk(st):
            if isinstance(n, ast.Call) and ast.unparse(n.func).replace(" ", "") == fname:
                return n
        return None

    i_cfg = index_of(lambda st: not isinstance(st, ast.FunctionDef) and has_call(st, "parse_config_file") is not None)
    i_strict = index_of(lambda st: isinstance(st, ast.If) and has_call(st, "set_strict_flags") is not None and "special-opts:strict" in ast.unparse(st.test))
    i_real = index_of(lambda st: not isinstance(st, ast.FunctionDef) and (c := has_call(st, "parser.parse_args")) is not None and "SplitNamespace(options" in ast.unparse(c).replace(" ", ""))
    if None in (i_cfg, i_strict, i_real):
        return [{"name": "cfg/config-file-applied-before-the-command-line", "status": "unknown", "where": where + f": landmarks config={i_cfg} strict={i_strict} argparse={i_real}"}]
    # any other write into `options` from the first (dummy) parse before the config file?
    early = []
    for st in fnode.body[:i_cfg]:
        if isinstance(st, (ast.Assign, ast.AugAssign)) and any(isinstance(t, ast.Attribute) and isinstance(t.value, ast.Name) and t.value.id == "options" for t in (st.targets if isinstance(st, ast.Assign) else [st.target])):
            if "dummy" in ast.unparse(st.value):
                early.append(ast.unparse(st))
    ok = i_cfg < i_strict < i_real and not early
    bad = i_cfg > i_strict or i_cfg > i_real or bool(early)
    st = "discharged" if ok else "refuted" if bad else "unknown"
    detail = "" if ok else f"order of application: config file at statement {i_cfg}, --strict group at {i_strict}, argparse pass at {i_real}; early command-line writes {early}: a value from the command line is applied before the config file and is then overridden by it"
    return [{"name": "cfg/config-file-applied-before-the-command-line", "status": st, "where": where, "detail": detail, "key": "cfg-cmdline-order", "confirmed": st == "refuted"}]


# ---- toml overrides: ownership of the per-module dicts


def setup_block(I):
    m1, m2 = I.make(TStr(), "module1"), I.make(TStr(), "module2")
    k, v = I.make(TStr(), "setting"), I.make(TStr(), "value")
    I.ctx.assume(z3.And(m1.t != m2.t, k.t != z3.StringVal("module")))
    modules = SList([m1, m2])
    override = SDict([(SStr(z3.StringVal("module")), modules), (k, v)])
    result = I.make(TLDict(TStr(), TAny()), "result")
    e1 = I.ldict_entry(result, SStr(z3.Concat(z3.StringVal("mypy-"), m1.t)))
    e2 = I.ldict_entry(result, SStr(z3.Concat(z3.StringVal("mypy-"), m2.t)))
    # neither module has a section yet (the case in which the block's settings become the section)
    I.ctx.assume(z3.And(z3.Not(e1[1]), z3.Not(e2[1])))
    return {"args": [], "locals": {"override": override, "result": result, "toml_data": I.make(TAny(), "toml_data")}, "override": override, "result": result, "e1": e1, "e2": e2, "k": k, "v": v}


def ens_block(I, env, res):
    e1, e2, ov = env["e1"], env["e2"], env["override"]
    d1, d2 = e1[2], e2[2]
    if not isinstance(d1, SDict) or not isinstance(d2, SDict):
        return z3.BoolVal(False)
    own = d1 is not d2 and d1 is not ov and d2 is not ov
    # the block itself is left intact and each section holds the block's setting without the module key
    intact = len(ov.entries) == 2

    def content(d):
        return len(d.entries) == 1 and d.entries[0][0] is env["k"] and d.entries[0][1] is env["v"]
    return z3.And(e1[1], e2[1], z3.BoolVal(own and intact and content(d1) and content(d2)))


def targets(tier):
    return [
        StaticCheck("cfg.build_per_module_cache.order", check_glob_order, note="order frame decided on the source"),
        StaticCheck("cfg.process_options.order", check_cmdline_order, note="order frame decided on the source"),
        Target("cfg.destructure_overrides.block", "mypy.config_parser:destructure_overrides", setup_block, loop_body=("for override in result['mypy']['overrides']", None),
               ensures=[("each-module-of-a-block-owns-its-section-dict", ens_block)], raises=(), overrides={}, field_types={},
               bounded="one override block with a module list of exactly two distinct names and one setting; neither module has a section yet",
               note="ownership condition; the two-module shape is what the aliasing statement is about, longer lists are not covered"),
    ]
