"""C14, where a statement starts (the line a whole-module `# type: ignore` is looked for on, and the line
diagnostics about a definition are attached to): a decorated function, coroutine or class starts at its
first decorator -- for all three kinds alike, as in the language reference -- and any other node at its own
line.  fastparse.ASTConverter.get_lineno."""
from __future__ import annotations

import ast

import z3

from pyvc.sym import *
from pyvc.target import Target
from pyvc.types import *
from .common import *

import mypy.fastparse as FP

KINDS = [ast.FunctionDef, ast.AsyncFunctionDef, ast.ClassDef, ast.Assign, ast.Expr, ast.If, ast.Name]
DECORATED = (ast.FunctionDef, ast.AsyncFunctionDef, ast.ClassDef)


def setup(I):
    self = I.make(TObj(FP.ASTConverter), "self")
    self.cands = [FP.ASTConverter]
    k = I.ctx.choose(len(KINDS), "node-kind")
    node = I.make(TObj(ast.AST), "node")
    node.cands = [KINDS[k]]
    node.fields["lineno"] = I.make(TInt(), "lineno")
    first = None
    if KINDS[k] in DECORATED:
        n = I.ctx.choose(3, "number-of-decorators")
        decs = []
        for j in range(n):
            d = I.make(TObj(ast.AST), f"decorator{j}")
            d.cands = [ast.Name]
            d.fields["lineno"] = I.make(TInt(), f"decorator{j}_lineno")
            decs.append(d)
        node.fields["decorator_list"] = SList(decs)
        first = decs[0].fields["lineno"] if decs else None
    return {"args": [self, node], "node": node, "first": first}


def ens(I, env, res):
    want = env["first"] if env["first"] is not None else env["node"].fields["lineno"]
    return res.t == want.t


def targets(tier):
    return [Target("fastparse.get_lineno", "mypy.fastparse:ASTConverter.get_lineno", setup, ensures=[("decorated-definitions-start-at-their-first-decorator", ens)], raises=(),
                   overrides={}, field_types={}, note="node kinds: def, async def, class (0-2 decorators each) and four undecorated kinds")]
