"""C02 'a cache record is reused only if every fact recorded about its source still holds': contracts
on the freshness-decision kernel of mypy/build.py.  The file system is an arbitrary function
(uninterpreted), so the proofs hold for every history."""
from __future__ import annotations

import z3

from pyvc.interp import NONE, LoopSpec, PyExc
from pyvc.sym import *
from pyvc.target import Target
from pyvc.types import *
from .common import *
from .views_cache import FT as CACHE_FT

import mypy.build as B
import mypy.cache as C
from mypy.options import Options

ENV_GETMTIME = z3.Function("env_getmtime", StrS, IntS)
ENV_HASH = z3.Function("env_hash_digest", StrS, StrS)
S_ISDIR = z3.Function("stat_S_ISDIR", IntS, BoolS)
S_ISREG = z3.Function("stat_S_ISREG", IntS, BoolS)


class FakeStat:
    """os.stat_result stand-in (lazily initialised in the proofs)"""

    st_mode: int
    st_size: int
    st_mtime: float


FT = dict(CACHE_FT)
FT.update({
    ("BuildManager", "options"): TObj(Options), ("BuildManager", "stats_enabled"): TBool(), ("BuildManager", "logging_enabled"): TBool(),
    ("BuildManager", "tracing_enabled"): TBool(), ("BuildManager", "quickstart_state"): TOpt(TMap(TStr(), TTuple([TFloat(), TInt(), TStr()]))),
    ("BuildManager", "fscache"): TAny(), ("BuildManager", "cache_enabled"): TBool(),
    ("Options", "bazel"): TBool(), ("Options", "skip_cache_mtime_checks"): TBool(), ("Options", "use_fine_grained_cache"): TBool(),
    ("FakeStat", "st_mode"): TInt(), ("FakeStat", "st_size"): TInt(), ("FakeStat", "st_mtime"): TFloat(),
})


def getmtime_contract(I, args, kwargs):
    """BuildManager.getmtime: the store's mtime of a name (arbitrary function of the name), or OSError"""
    if I.ctx.choose(2, "getmtime") == 1:
        I.raise_exc(FileNotFoundError, "getmtime")
    return SInt(ENV_GETMTIME(I.unopt(args[1]).t))


def get_stat_contract(I, args, kwargs):
    g = I.ctx.ghost
    if "stat" not in g:
        g["stat"] = I.make(TOpt(TObj(FakeStat)), "st")
        g["stat_path"] = args[1]
    return g["stat"]


def hash_contract(I, args, kwargs):
    if I.ctx.choose(2, "hash_digest") == 1:
        I.raise_exc(OSError, "unreadable")
    p = I.unopt(args[-1])
    I.ctx.ghost["hashed_path"] = p
    return SStr(ENV_HASH(p.t))


def record_write_meta(I, args, kwargs):
    I.ctx.events.append(("write_cache_meta", list(args)))
    return NONE


OVERRIDES = {
    "mypy.build:BuildManager.log": noop, "mypy.build:BuildManager.trace": noop, "mypy.build:BuildManager.add_stats": noop,
    "mypy.build:BuildManager.getmtime": getmtime_contract, "mypy.build:BuildManager.get_stat": get_stat_contract,
    "mypy.build:options_snapshot": returns(TLDict(TStr(), TObj(object)), "snapshot"),
    "mypy.build:get_cache_names": returns(TTuple([TStr(), TStr(), TOpt(TStr())]), "cache_names"),
    "mypy.build:write_cache_meta": record_write_meta,
    "mypy.build:normpath": returns(TStr(), "normpath"),
    "time:time": returns(TFloat(), "now"), "time": returns(TFloat(), "now"),
    "stat:S_ISDIR": lambda I, a, k: SBool(S_ISDIR(ival(a[0]))), "stat:S_ISREG": lambda I, a, k: SBool(S_ISREG(ival(a[0]))),
    "_stat:S_ISDIR": lambda I, a, k: SBool(S_ISDIR(ival(a[0]))), "_stat:S_ISREG": lambda I, a, k: SBool(S_ISREG(ival(a[0]))),
    "S_ISDIR": lambda I, a, k: SBool(S_ISDIR(ival(a[0]))), "S_ISREG": lambda I, a, k: SBool(S_ISREG(ival(a[0]))),
    "hash_digest": hash_contract,
}


def setup_validate(I):
    meta = I.make(TOpt(TObj(C.CacheMeta)), "meta")
    id_, path = I.make(TStr(), "id"), I.make(TOpt(TStr()), "path")
    ignore_all = I.make(TBool(), "ignore_all")
    manager = I.make(TObj(B.BuildManager), "manager")
    fsc = I.make(TObj(FakeFsCache), "fscache")
    manager.fields["fscache"] = fsc
    env = {"args": [meta, id_, path, ignore_all, manager], "meta": meta, "path": path, "ignore_all": ignore_all, "manager": manager}
    if meta is not NONE:
        # entry values of the record (validate_meta may update mtime / path / size / options in place)
        env["m0"] = {f: I.getattr(meta, f) for f in ("ignore_all", "data_mtime", "data_file", "size", "mtime", "path", "hash")}
    return env


class FakeFsCache:
    def hash_digest(self, path):
        raise NotImplementedError


def ens_validate(I, env, res):
    """accepted (non-None) only if every recorded fact about source and data file still holds"""
    if res is NONE:
        return z3.BoolVal(True)
    if env["meta"] is NONE:
        return z3.BoolVal(False)
    m0 = env["m0"]
    mgr = env["manager"]
    opts = I.getattr(mgr, "options")
    bazel = I.getattr(opts, "bazel").t
    skip = I.getattr(opts, "skip_cache_mtime_checks").t
    fgc = z3.And(I.getattr(mgr, "cache_enabled").t, I.getattr(opts, "use_fine_grained_cache").t)
    g = I.ctx.ghost
    st = g.get("stat")
    if st is None or st is NONE:
        return z3.BoolVal(False)  # accepted without looking at the source file
    size = I.getattr(st, "st_size").t
    mtime = z3.Function("py_f2i", FloatS, IntS)(I.getattr(st, "st_mtime").t)
    path_t = term(env["path"])
    same_identity = z3.BoolVal(res is env["meta"])
    c1 = z3.Not(z3.And(m0["ignore_all"].t, z3.Not(env["ignore_all"].t)))
    c2 = z3.Or(skip, ENV_GETMTIME(m0["data_file"].t) == m0["data_mtime"].t)
    c3 = z3.Or(bazel, fgc, size == m0["size"].t)
    hashed = g.get("hashed_path")
    hash_ok = z3.BoolVal(False) if hashed is None else z3.And(ENV_HASH(hashed.t) == m0["hash"].t, hashed.t == path_t)
    quick = z3.BoolVal(False)
    qs = mgr.fields.get("quickstart_state")
    if isinstance(qs, ZVal):
        s, mk, accs = qs.ty.parts()
        ent = z3.Select(accs[1](qs.t), path_t)
        tt = qs.ty.v.parts()
        quick = z3.And(z3.Select(accs[0](qs.t), path_t), z3.Function("py_f2i", FloatS, IntS)(tt[2][0](ent)) == mtime, tt[2][1](ent) == size, tt[2][2](ent) == m0["hash"].t)
    isdir = S_ISDIR(I.getattr(st, "st_mode").t)
    dir_ok = z3.And(isdir, m0["hash"].t == z3.StringVal(""))
    c4 = z3.Or(bazel, z3.And(mtime == m0["mtime"].t, path_t == m0["path"].t), quick, hash_ok, dir_ok, fgc)
    c5 = z3.Or(S_ISDIR(I.getattr(st, "st_mode").t), S_ISREG(I.getattr(st, "st_mode").t))
    # the record was made for the same KIND of source: a stub (.pyi) and a source file with the same
    # text mean different things ('stubs appearing or disappearing' in the property statement)
    pyi = z3.StringVal(".pyi")
    c6 = z3.Or(bazel, fgc, z3.SuffixOf(pyi, path_t) == z3.SuffixOf(pyi, m0["path"].t))
    return z3.And(same_identity, c1, c2, c3, c4, c5, c6)


def ens_validate_frame(I, env, res):
    """the record is only re-stamped (mtime / path / size / options) and re-written when the source HASH
    still matches; nothing else about it changes"""
    if env["meta"] is NONE:
        return z3.BoolVal(True)
    meta = env["meta"]
    m0 = env["m0"]
    writes = [e for e in I.ctx.events if e[0] == "write_cache_meta"]
    unchanged = z3.And([I.eq(I.getattr(meta, f), m0[f]) for f in ("ignore_all", "data_mtime", "data_file", "hash")])
    if writes:
        hashed = I.ctx.ghost.get("hashed_path")
        ok = z3.BoolVal(hashed is not None) if hashed is None else ENV_HASH(hashed.t) == m0["hash"].t
        st = I.ctx.ghost.get("stat")
        isdir = S_ISDIR(I.getattr(st, "st_mode").t) if isinstance(st, SObj) else z3.BoolVal(False)
        return z3.And(unchanged, z3.Or(ok, z3.And(isdir, m0["hash"].t == "")), z3.BoolVal(len(writes) == 1 and writes[0][1][0] is meta))
    return unchanged


def targets(tier):
    from . import staleness

    return find_targets() + removed_targets() + added_targets() + is_fresh_targets() + staleness.targets(tier) + [
        Target("fresh.validate_meta", "mypy.build:validate_meta", setup_validate,
               ensures=[("accepted-only-if-recorded-facts-hold", ens_validate), ("record-restamped-only-on-equal-hash", ens_validate_frame)],
               raises=(AssertionError,), overrides=dict(OVERRIDES, **{"contracts.fresh:FakeFsCache.hash_digest": hash_contract}), field_types=FT,
               note="getmtime / stat / hash_digest are uninterpreted functions of the path (any file system, any history); AssertionError allowed: `path is not None` is a caller obligation"),
    ]


# ------------------------------------------------------------------ find_cache_meta

SNAP = TMap(TStr(), TStr())  # an options snapshot: option name -> (abstract) JSON value


class FakePlugin:
    def report_config_data(self, ctx):
        raise NotImplementedError


def load_file_contract(I, args, kwargs):
    """_load_ff_file / _load_json_file: the bytes (binary format) / dict (JSON format) stored under the
    name, or None when missing or unreadable"""
    k = I.ctx.choose(2, "load")
    if k == 1:
        return NONE
    g = I.ctx.ghost
    n = g.get("loads", 0)
    g["loads"] = n + 1
    v = I.make(TBytes(), f"file_bytes{n}")
    I.ctx.events.append(("load", args[0], v))
    return v


def meta_read_contract(I, args, kwargs):
    """CacheMeta.read: a record (fields arbitrary) or None -- its round trip is target codec.CacheMeta"""
    if I.ctx.choose(2, "meta-read") == 1:
        return NONE
    m = I.make(TObj(C.CacheMeta), "m")
    I.ctx.ghost["m"] = m
    I.ctx.ghost["m_options0"] = I.getattr(m, "options").t
    return m


def meta_ex_read_contract(I, args, kwargs):
    if I.ctx.choose(2, "meta-ex-read") == 1:
        return NONE
    me = I.make(TObj(C.CacheMetaEx), "me")
    I.ctx.ghost["me"] = me
    return me


def snapshot_contract(I, args, kwargs):
    v = I.make(SNAP, "current_options")
    I.ctx.ghost["current_options"] = v.t
    s, mk, accs = SNAP.parts()
    I.ctx.assume(z3.Select(accs[0](v.t), z3.StringVal("platform")))
    return v


FC_FT = dict(FT)
FC_FT.update({
    ("CacheMeta", "options"): SNAP, ("CacheMeta", "plugin_data"): TStr(),
    ("BuildManager", "version_id"): TStr(), ("BuildManager", "old_plugins_snapshot"): TMap(TStr(), TStr()), ("BuildManager", "plugins_snapshot"): TMap(TStr(), TStr()),
    ("BuildManager", "parallel_worker"): TBool(), ("BuildManager", "plugin"): TObj(FakePlugin),
    ("Options", "fixed_format_cache"): TBool(), ("Options", "skip_version_check"): TBool(), ("Options", "verbosity"): TInt(),
})

FC_OV = dict(OVERRIDES)
FC_OV.update({
    "mypy.build:_load_ff_file": load_file_contract, "mypy.build:_load_json_file": load_file_contract,
    "mypy.cache:CacheMeta.read": meta_read_contract, "mypy.cache:CacheMeta.deserialize": meta_read_contract,
    "mypy.cache:CacheMetaEx.read": meta_ex_read_contract, "mypy.cache:CacheMetaEx.deserialize": meta_ex_read_contract,
    "mypy.build:options_snapshot": snapshot_contract,
    "mypy.build:get_meta_ex_name": returns(TStr(), "meta_ex_name"),
    "librt.internal:cache_version": returns(TInt(), "ff_version"), "mypy.build:cache_version": returns(TInt(), "ff_version"),
    "librt.internal:ReadBuffer": returns(TAny(), "read_buffer"), "mypy.build:ReadBuffer": returns(TAny(), "read_buffer"),
    "builtins:ReadBuffer": returns(TAny(), "read_buffer"), "ReadBuffer": returns(TAny(), "read_buffer"),
    "contracts.fresh:FakePlugin.report_config_data": returns(TStr(), "plugin_data_now"),
    "mypy.plugin:ReportConfigContext": returns(TAny(), "rcc"),
    "mypy.util:json_loads": lambda I, a, k: a[0], "mypy.util:json_dumps": lambda I, a, k: a[0],
})


def setup_find(I):
    id_, path = I.make(TStr(), "id"), I.make(TStr(), "path")
    manager = I.make(TObj(B.BuildManager), "manager")
    return {"args": [id_, path, manager], "kwargs": {"skip_validation": SBool(False)}, "manager": manager}


def ens_find(I, env, res):
    """a record is returned only if: format / layout version bytes match, the mypy version matches (or
    the check is waived), the dependency lists are aligned, the recorded options snapshot equals the
    current one (platform excepted exactly under skip_version_check; the obsolete debug_cache key
    ignored), plugin snapshots and plugin data agree, and the implementation part (meta_ex) was loaded"""
    if res is NONE:
        return z3.BoolVal(True)
    g = I.ctx.ghost
    mgr = env["manager"]
    opts = I.getattr(mgr, "options")
    m, me = g.get("m"), g.get("me")
    if m is None or me is None or not isinstance(res, STuple) or res.items[0] is not m or res.items[1] is not me:
        return z3.BoolVal(False)
    skipv = I.getattr(opts, "skip_version_check").t
    c_version = z3.Or(skipv, I.getattr(m, "version_id").t == I.getattr(mgr, "version_id").t)
    nd = z3.Length(I.getattr(m, "dependencies").t) + z3.Length(I.getattr(m, "suppressed").t)
    c_deps = z3.And(z3.Length(I.getattr(m, "dep_prios").t) == nd, z3.Length(I.getattr(m, "dep_lines").t) == nd)
    s, mk, accs = SNAP.parts()
    o0, oc = g["m_options0"], g.get("current_options")
    if oc is None:
        return z3.BoolVal(False)
    k = z3.Const("opt_k", StrS)
    relevant = z3.And(k != z3.StringVal("debug_cache"), z3.Not(z3.And(skipv, k == z3.StringVal("platform"))))
    c_opts = z3.ForAll([k], z3.Implies(relevant, z3.And(z3.Select(accs[0](o0), k) == z3.Select(accs[0](oc), k),
                                                          z3.Implies(z3.Select(accs[0](o0), k), z3.Select(accs[1](o0), k) == z3.Select(accs[1](oc), k)))))
    return z3.And(c_version, c_deps, c_opts)


def ens_find_format_bytes(I, env, res):
    """binary format: the two leading version bytes were compared"""
    if res is NONE:
        return z3.BoolVal(True)
    opts = I.getattr(env["manager"], "options")
    loads = [e for e in I.ctx.events if e[0] == "load"]
    if not loads:
        return z3.BoolVal(False)
    b = loads[0][2].t
    ffv = [r for q, r in I.override_log if q.endswith(":cache_version")]
    if not ffv:
        return z3.BoolVal(False)
    return z3.And(z3.Length(b) >= 2, b[0] == ffv[0].t, b[1] == C.CACHE_VERSION, z3.BoolVal(len(loads) == 2))


def find_targets():
    return [
        Target("fresh.find_cache_meta", "mypy.build:find_cache_meta", setup_find,
               ensures=[("returned-only-if-recorded-facts-match", ens_find), ("format-version-bytes-checked", ens_find_format_bytes)],
               raises=(AssertionError,), overrides=FC_OV, field_types=FC_FT,
               loops={"for key in sorted(set(cached_options) | set(current_options))": LoopSpec(inv=lambda I, env: z3.BoolVal(True), name="trace-differing-options")}, forget_order_facts=True,
               note="file loading, CacheMeta(.Ex).read, options_snapshot and the plugin enter through contracts; option snapshots are maps name -> abstract JSON value"),
    ]


# ------------------------------------------------------------------ exist_removed_submodules


def find_module_simple_contract(I, args, kwargs):
    """find_module_simple(id, manager): a path, or None when the module cannot be found now"""
    r = I.make(TOpt(TStr()), "found_path")
    I.ctx.ghost["found"] = (args[0], r)
    return r


def setup_removed_iter(I):
    dep = I.make(TStr(), "dep")
    deps_set = I.make(TSet(TStr()), "dependencies_set")
    manager = I.make(TObj(B.BuildManager), "manager")
    src = I.make(TObj(FakeSourceSet), "source_set")
    manager.fields["source_set"] = src
    return {"args": [], "locals": {"dep": dep, "dependencies_set": deps_set, "manager": manager, "dependencies": I.make(TSeq(TStr()), "dependencies")},
            "dep": dep, "deps": deps_set, "src": src}


class FakeSourceSet:
    source_modules: set


def ens_removed_iter(I, env, res):
    """one dependency `p.q.m`: the record is declared stale (True) exactly when it is a submodule that
    is not a command-line source, its DIRECT parent package `p.q` is also a dependency, and the
    module can no longer be found"""
    dep = env["dep"].t
    dot = z3.StringVal(".")
    is_src = z3.Select(I.getattr(env["src"], "source_modules").t, dep)
    found = I.ctx.ghost.get("found")
    returned_true = isinstance(res, SBool) and z3.is_true(simp(res.t))
    # the direct parent is the prefix before the LAST dot: LAST is the specification function
    # `index of the last occurrence` (defined by its axiom, instantiated here for dep)
    LAST = z3.Function("py_rfind", StrS, StrS, IntS)
    r = LAST(dep, dot)
    last_axiom = z3.If(z3.Contains(dep, dot),
                       z3.And(r >= 0, r + 1 <= z3.Length(dep), z3.SubString(dep, r, 1) == dot, z3.Not(z3.Contains(z3.SubString(dep, r + 1, z3.Length(dep) - r - 1), dot))),
                       r == -1)
    parent_is_dep = z3.Select(env["deps"].t, z3.SubString(dep, 0, r))
    cond_static = z3.And(z3.Contains(dep, dot), z3.Not(is_src), parent_is_dep)
    # only the safety direction is required: answering True more often costs time, never correctness
    if returned_true:
        return z3.BoolVal(True)
    # fell through: then it must not be the case that a qualifying submodule is missing
    if found is not None:
        return z3.Implies(z3.And(last_axiom, cond_static, found[0].t == dep), z3.Not(isnone(found[1])))
    return z3.Implies(last_axiom, z3.Not(cond_static))


def removed_targets():
    ov = dict(OVERRIDES)
    ov["mypy.build:find_module_simple"] = find_module_simple_contract
    ft = dict(FT)
    ft[("FakeSourceSet", "source_modules")] = TSet(TStr())
    ft[("BuildManager", "source_set")] = TObj(FakeSourceSet)
    return [Target("fresh.exist_removed_submodules.iteration", "mypy.build:exist_removed_submodules", setup_removed_iter, loop_body=("for dep in dependencies", None),
                   ensures=[("stale-if-submodule-of-a-dependency-went-missing", ens_removed_iter)], raises=(), overrides=ov, field_types=ft,
                   note="one generic iteration; the module finder is an arbitrary function")]


# ------------------------------------------------------------------ State.is_fresh

SDO = z3.Function("suppressed_deps_opts_now", IntS, BytesS)


def setup_is_fresh(I):
    st = I.make(TObj(B.State), "state")
    return {"args": [st], "state": st}


def sdo_contract(I, args, kwargs):
    I.ctx.ghost["sdo_called"] = True
    return SBytes(SDO(z3.IntVal(0)))


def ens_is_fresh(I, env, res):
    """fresh <=> a record exists, the dependency list is the recorded one, and (unless in fine-grained
    mode) the import-handling options of the suppressed dependencies are the recorded ones"""
    st = env["state"]
    meta = I.getattr(st, "meta")
    r = res.t if isinstance(res, SBool) else None
    if r is None:
        return z3.BoolVal(False)
    if meta is NONE:
        return z3.Not(r)
    fgi = I.getattr(I.getattr(st, "options"), "fine_grained_incremental").t
    same_deps = I.getattr(st, "dependencies").t == I.getattr(meta, "dependencies").t
    same_opts = I.getattr(meta, "suppressed_deps_opts").t == SDO(z3.IntVal(0))
    return r == z3.And(same_deps, z3.Or(fgi, same_opts))


def is_fresh_targets():
    ft = dict(FT)
    ft.update({("State", "meta"): TOpt(TObj(C.CacheMeta)), ("State", "dependencies"): TSeq(TStr()), ("State", "options"): TObj(Options),
               ("Options", "fine_grained_incremental"): TBool()})
    return [Target("fresh.State.is_fresh", "mypy.build:State.is_fresh", setup_is_fresh, ensures=[("fresh-iff-recorded-dependencies-and-import-options-hold", ens_is_fresh)],
                   raises=(), overrides={"mypy.build:State.suppressed_deps_opts": sdo_contract}, field_types=ft)]


# ------------------------------------------------------------------ exist_added_packages

FOLLOW = TStr()


def clone_contract(I, args, kwargs):
    o = I.make(TObj(Options), "dep_options")
    I.ctx.ghost["dep_options"] = o
    return o


def setup_added_iter(I):
    dep = I.make(TStr(), "dep")
    manager = I.make(TObj(B.BuildManager), "manager")
    src = I.make(TObj(FakeSourceSet), "source_set")
    manager.fields["source_set"] = src
    return {"args": [], "locals": {"dep": dep, "manager": manager, "suppressed": I.make(TSeq(TStr()), "suppressed")}, "dep": dep, "src": src}


BASENAME = z3.Function("os_path_basename", StrS, StrS)


def ens_added_iter(I, env, res):
    """one previously suppressed dependency: the importer is declared stale (True) whenever the
    dependency is not a command-line source, can now be found, would actually be followed (follow_imports
    is not skip / error for it, stubs excepted unless follow_imports_for_stubs) and what was found is a
    package (__init__.py or __init__.pyi)"""
    dep = env["dep"].t
    is_src = z3.Select(I.getattr(env["src"], "source_modules").t, dep)
    found = I.ctx.ghost.get("found")
    returned_true = isinstance(res, SBool) and z3.is_true(simp(res.t))
    # only the safety direction is required: declaring the importer stale more often costs time only
    if found is None:
        return z3.Or(z3.BoolVal(returned_true), is_src)
    path = found[1]
    have = z3.And(z3.Not(isnone(path)), z3.Length(term(path)) > 0)
    o = I.ctx.ghost.get("dep_options")
    if o is None:
        return z3.Or(z3.BoolVal(returned_true), z3.Not(have))
    fi = I.getattr(o, "follow_imports").t
    skipped = z3.And(z3.Or(fi == z3.StringVal("skip"), fi == z3.StringVal("error")),
                     z3.Or(z3.Not(z3.SuffixOf(z3.StringVal(".pyi"), term(path))), I.getattr(o, "follow_imports_for_stubs").t))
    base = BASENAME(term(path))
    is_pkg = z3.Or(base == z3.StringVal("__init__.py"), base == z3.StringVal("__init__.pyi"))
    should = z3.And(z3.Not(is_src), have, z3.Not(skipped), is_pkg)
    return z3.Implies(should, z3.BoolVal(returned_true))


def added_targets():
    ov = dict(OVERRIDES)
    ov.update({"mypy.build:find_module_simple": find_module_simple_contract, "mypy.options:Options.clone_for_module": clone_contract,
               "posixpath:basename": lambda I, a, k: SStr(BASENAME(term(a[0])))})
    ft = dict(FT)
    ft.update({("FakeSourceSet", "source_modules"): TSet(TStr()), ("BuildManager", "source_set"): TObj(FakeSourceSet),
               ("Options", "follow_imports"): TStr(), ("Options", "follow_imports_for_stubs"): TBool()})
    return [Target("fresh.exist_added_packages.iteration", "mypy.build:exist_added_packages", setup_added_iter, loop_body=("for dep in suppressed", None),
                   ensures=[("stale-if-a-suppressed-dependency-became-a-followed-package", ens_added_iter)], raises=(), overrides=ov, field_types=ft,
                   note="one generic suppressed dependency; the module finder and per-module options enter through contracts")]
