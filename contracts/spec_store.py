"""executable stand-ins used by contracts/store.py (run by the same engine)"""
from __future__ import annotations


class FakeFile:
    """what open(name, 'wb') returns; its effects are the contracts fs_write / fs_close"""

    name: str

    def __enter__(self):
        return self

    def __exit__(self, a, b, c):
        fs_close(self)
        return False

    def write(self, data):
        return fs_write(self, data)


def fs_write(f, data):
    raise NotImplementedError


def fs_close(f):
    raise NotImplementedError




class FakeTree:
    """MypyFile stand-in: only its serialization entry points are used by write_cache"""

    path: str

    def write(self, data):
        raise NotImplementedError

    def serialize(self):
        raise NotImplementedError


class FakeWriteBuffer:
    def getvalue(self):
        raise NotImplementedError


class FakeStore:
    """MetadataStore stand-in: the operations are contracts over the ghost event log"""

    def write(self, name, data, mtime=None):
        raise NotImplementedError

    def commit_path(self, name):
        raise NotImplementedError


def flush_errors_stub(filename, msgs, serious):
    """BuildManager.flush_errors is a callable field; output is not part of the store protocol"""
    raise NotImplementedError


class FakeConn:
    """sqlite3.Connection stand-in"""

    def execute(self, sql, params=()):
        raise NotImplementedError

    def executescript(self, sql):
        raise NotImplementedError


class FakeDbList:
    """SqliteMetadataStore.dbs stand-in: a list of connections, connection i belongs to shard i"""

    def __getitem__(self, i):
        raise NotImplementedError

    def __len__(self):
        raise NotImplementedError

    def commit_all_marker(self):
        raise NotImplementedError


class FakeShardConn:
    shard: int

    def execute(self, sql, params=()):
        raise NotImplementedError

    def commit(self):
        raise NotImplementedError
