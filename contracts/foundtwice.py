"""C18 'no source file ends up in the build under two module names': one generic dependency of
build.load_graph's collection loop.  A newly created State whose file is already in the graph under another
module id stops the build with the blocking 'found twice' error -- whether the new module is an ordinary
dependency or an ancestor package of the module being processed; otherwise the State is entered into the
graph and its file recorded as seen."""
from __future__ import annotations

import z3

from pyvc.interp import NONE, PyExc
from pyvc.sym import *
from pyvc.target import Target
from pyvc.types import *
from .common import *

import mypy.build as B
from mypy.errors import CompileError


class FakeErrors:
    def set_file(self, *a, **k):
        raise NotImplementedError

    def raise_error(self):
        raise NotImplementedError


class FakeManager:
    errors: FakeErrors

    def use_fine_grained_cache(self):
        raise NotImplementedError

    def error(self, *a, **k):
        raise NotImplementedError

    def note_multiline(self, *a, **k):
        raise NotImplementedError


class FakeNewState:
    pass


def setup_dep(I):
    dep = I.make(TStr(), "dep")
    st = I.new_object(B.State)
    is_ancestor = I.ctx.choose(2, "dep-is-an-ancestor?")
    st.fields["ancestors"] = SList([dep]) if is_ancestor else SList([])
    st.fields["suppressed_set"] = I.make(TSet(TStr()), "suppressed_set")
    st.fields["dependencies_set"] = I.make(TSet(TStr()), "dependencies_set")
    st.fields["dep_line_map"] = I.make(TMap(TStr(), TInt()), "dep_line_map")
    I.ctx.assume(z3.Not(z3.Select(st.fields["suppressed_set"].t, dep.t)))  # the case in which a new State is created
    newst = I.new_object(FakeNewState)
    has_path = I.ctx.choose(2, "new-state-has-a-file?")
    newst.fields["path"] = I.make(TStr(), "path") if has_path else NONE
    if has_path:
        I.ctx.assume(z3.Length(newst.fields["path"].t) > 0)
    newst.fields["abspath"] = I.make(TStr(), "abspath")
    newst.fields["id"] = dep
    newst.fields["xpath"] = I.make(TStr(), "xpath")
    newst.fields["needs_parse"] = I.make(TBool(), "needs_parse")
    other = I.new_object(FakeNewState)
    other.fields["id"] = I.make(TStr(), "other_id")
    seen_before = I.ctx.choose(2, "file-already-in-the-graph?")
    seen_files = SDict([(newst.fields["abspath"], other)]) if seen_before else SDict([])
    mgr = I.new_object(FakeManager)
    mgr.fields["errors"] = I.new_object(FakeErrors)
    mgr.fields["options"] = I.make(TAny(), "options")
    mgr.fields["missing_modules"] = SDict([])
    I.ctx.ghost["newst"] = newst
    graph = SDict([])
    return {"args": [], "locals": {"dep": dep, "st": st, "graph": graph, "entry_points": I.make(TSet(TStr()), "entry_points"), "added": SList([]), "manager": mgr,
                                   "seen_files": seen_files, "new": SList([]), "not_ready": SList([]), "ready": SSet([])},
            "newst": newst, "graph": graph, "seen_files": seen_files, "has_path": has_path, "seen_before": seen_before, "dep": dep}


def raise_error(I, args, kwargs):
    I.ctx.events.append(("raise_error",))
    raise PyExc(CompileError, None, "blocking error", "manager.errors.raise_error")


def ens_dep(I, env, res):
    """normal exit: the file was not in the graph yet (or the module has no file); the State is now in the
    graph and its file is recorded"""
    if env["has_path"] and env["seen_before"]:
        return z3.BoolVal(False)  # must not get here
    in_graph = any(v is env["newst"] for k, v in env["graph"].entries)
    recorded = (not env["has_path"]) or any(v is env["newst"] for k, v in env["seen_files"].entries)
    return z3.BoolVal(in_graph and recorded)


def exc_dep(I, env, e):
    """the only exceptional exit is the found-twice blocker, and it is taken only for a file already seen"""
    err = [x for x in I.ctx.events if x[0] == "error"]
    return z3.BoolVal(bool(env["has_path"] and env["seen_before"] and err and not any(v is env["newst"] for k, v in env["graph"].entries)))


def targets(tier):
    rec_ = lambda tag: (lambda I, a, k: (I.ctx.events.append((tag,) + tuple(a[1:])), NONE)[1])
    ov = {"mypy.build:State.new_state": lambda I, a, k: I.ctx.ghost["newst"], "contracts.foundtwice:FakeManager.use_fine_grained_cache": returns(TBool(), "fine_grained_cache"),
          "contracts.foundtwice:FakeManager.error": rec_("error"), "contracts.foundtwice:FakeManager.note_multiline": rec_("note"),
          "contracts.foundtwice:FakeErrors.set_file": noop, "contracts.foundtwice:FakeErrors.raise_error": raise_error}
    return [Target("load_graph.dependency.found_twice", "mypy.build:load_graph", setup_dep, loop_body=("for dep in st.ancestors + dependencies + st.suppressed", None),
                   ensures=[("new-state-enters-the-graph-only-with-an-unseen-file", ens_dep)], exc_ensures=[("found-twice-stops-the-build", exc_dep)],
                   raises=(CompileError,), overrides=ov, field_types={},
                   note="one generic dependency for which a new State is created (ordinary dependency or ancestor package), with / without a file, file seen before or not")]
