"""C18 'no source file ends up in the build under two module names': one generic dependency of
build.load_graph's collection loop.  A newly created State whose file is already in the graph under another
module id stops the build with the blocking 'found twice' error -- whether the new module is an ordinary
dependency or an ancestor package of the module being processed; otherwise the State is entered into the
graph and its file recorded as seen."""
from __future__ import annotations

import z3

from pyvc.interp import NONE, PyExc
from pyvc.sym import *
from pyvc.target import Target
from pyvc.types import *
from .common import *

import mypy.build as B
from mypy.errors import CompileError


class FakeErrors:
    def set_file(self, *a, **k):
        raise NotImplementedError

    def raise_error(self):
        raise NotImplementedError


class FakeManager:
    errors: FakeErrors

    def use_fine_grained_cache(self):
        raise NotImplementedError

    def error(self, *a, **k):
        raise NotImplementedError

    def note_multiline(self, *a, **k):
        raise NotImplementedError


class FakeNewState:
    pass


def setup_dep(I):
    dep = I.make(TStr(), "dep")
    st = I.new_object(B.State)
    is_ancestor = I.ctx.choose(2, "dep-is-an-ancestor?")
    st.fields["ancestors"] = SList([dep]) if is_ancestor else SList([])
    st.fields["suppressed_set"] = I.make(TSet(TStr()), "suppressed_set")
    st.fields["dependencies_set"] = I.make(TSet(TStr()), "dependencies_set")
    st.fields["dep_line_map"] = I.make(TMap(TStr(), TInt()), "dep_line_map")
    I.ctx.assume(z3.Not(z3.Select(st.fields["suppressed_set"].t, dep.t)))  # the case in which a new State is created
    newst = I.new_object(FakeNewState)
    has_path = I.ctx.choose(2, "new-state-has-a-file?")
    newst.fields["path"] = I.make(TStr(), "path") if has_path else NONE
    if has_path:
        I.ctx.assume(z3.Length(newst.fields["path"].t) > 0)
    newst.fields["abspath"] = I.make(TStr(), "abspath")
    newst.fields["id"] = dep
    newst.fields["xpath"] = I.make(TStr(), "xpath")
    newst.fields["needs_parse"] = I.make(TBool(), "needs_parse")
    other = I.new_object(FakeNewState)
    other.fields["id"] = I.make(TStr(), "other_id")
    seen_before = I.ctx.choose(2, "file-already-in-the-graph?")
    seen_files = SDict([(newst.fields["abspath"], other)]) if seen_before else SDict([])
    mgr = I.new_object(FakeManager)
    mgr.fields["errors"] = I.new_object(FakeErrors)
    mgr.fields["options"] = I.make(TAny(), "options")
    mgr.fields["missing_modules"] = SDict([])
    I.ctx.ghost["newst"] = newst
    graph = SDict([])
    return {"args": [], "locals": {"dep": dep, "st": st, "graph": graph, "entry_points": I.make(TSet(TStr()), "entry_points"), "added": SList([]), "manager": mgr,
                                   "seen_files": seen_files, "new": SList([]), "not_ready": SList([]), "ready": SSet([])},
            "newst": newst, "graph": graph, "seen_files": seen_files, "has_path": has_path, "seen_before": seen_before, "dep": dep}


def raise_error(I, args, kwargs):
    I.ctx.events.append(("raise_error",))
    raise PyExc(CompileError, None, "blocking error", "manager.errors.raise_error")


def ens_dep(I, env, res):
    """normal exit: the file was not in the graph yet (or the module has no file); the State is now in the
    graph and its file is recorded"""
    if env["has_path"] and env["seen_before"]:
        return z3.BoolVal(False)  # must not get here
    in_graph = any(v is env["newst"] for k, v in env["graph"].entries)
    recorded = (not env["has_path"]) or any(v is env["newst"] for k, v in env["seen_files"].entries)
    return z3.BoolVal(in_graph and recorded)


def exc_dep(I, env, e):
    """the only exceptional exit is the found-twice blocker, and it is taken only for a file already seen"""
    err = [x for x in I.ctx.events if x[0] == "error"]
    return z3.BoolVal(bool(env["has_path"] and env["seen_before"] and err and not any(v is env["newst"] for k, v in env["graph"].entries)))


def targets(tier):
    rec_ = lambda tag: (lambda I, a, k: (I.ctx.events.append((tag,) + tuple(a[1:])), NONE)[1])
    ov = {"mypy.build:State.new_state": lambda I, a, k: I.ctx.ghost["newst"], "contracts.foundtwice:FakeManager.use_fine_grained_cache": returns(TBool(), "fine_grained_cache"),
          "contracts.foundtwice:FakeManager.error": rec_("error"), "contracts.foundtwice:FakeManager.note_multiline": rec_("note"),
          "contracts.foundtwice:FakeErrors.set_file": noop, "contracts.foundtwice:FakeErrors.raise_error": raise_error}
    return [Target("load_graph.dependency.found_twice", "mypy.build:load_graph", setup_dep, loop_body=("for dep in st.ancestors + dependencies + st.suppressed", None),
                   ensures=[("new-state-enters-the-graph-only-with-an-unseen-file", ens_dep)], exc_ensures=[("found-twice-stops-the-build", exc_dep)],
                   raises=(CompileError,), overrides=ov, field_types={},
                   note="one generic dependency for which a new State is created (ordinary dependency or ancestor package), with / without a file, file seen before or not")]


# ---- FindModuleCache._find_module, one generic search-path entry: what is found in it is considered in the
# order  stubs-only package  >  package (__init__.pyi, __init__.py)  >  namespace directory  >  module file
# (.pyi, .py) -- the same preference find_sources_in_dir applies ('a directory claims its name').  Candidates
# that need verification and fail it are remembered as near misses IN THAT ORDER (the first near miss wins
# later), and a candidate is returned only if every candidate of higher rank was absent or failed.

import mypy.modulefinder as MF


class FakeFsCache:
    def isfile_case(self, path, prefix):
        raise NotImplementedError

    def exists_case(self, path, prefix):
        raise NotImplementedError


def setup_entry(I):
    from pyvc.interp import LoopSpec  # noqa: F401

    self = I.make(TObj(MF.FindModuleCache), "self")
    self.cands = [MF.FindModuleCache]
    opts = I.new_object(FakeOptionsMF)
    opts.fields["namespace_packages"] = I.make(TBool(), "namespace_packages")
    self.fields["options"] = opts
    base_dir, verify = I.make(TStr(), "base_dir"), I.make(TBool(), "verify")
    seplast = I.make(TStr(), "seplast")
    near = SList([])
    return {"args": [], "locals": {"self": self, "base_dir": base_dir, "verify": verify, "seplast": seplast, "sepinit": SStr(z3.StringVal("/__init__")),
                                   "components": SList([I.make(TStr(), "c0"), I.make(TStr(), "c1")]), "fscache": I.new_object(FakeFsCache), "near_misses": near,
                                   "id": I.make(TStr(), "id")},
            "near": near, "base_dir": base_dir, "seplast": seplast}


class FakeOptionsMF:
    namespace_packages: bool


def _rank_terms(env):
    bp = z3.Concat(env["base_dir"].t, env["seplast"].t)
    S = z3.StringVal
    return [(0, z3.Concat(bp, S("-stubs"), S("/__init__"), S(".pyi"))), (1, z3.Concat(bp, S("/__init__"), S(".pyi"))), (2, z3.Concat(bp, S("/__init__"), S(".py"))),
            (3, bp), (4, z3.Concat(bp, S(".pyi"))), (5, z3.Concat(bp, S(".py")))]


def _rank_of(term, env):
    t = str(simp(term))
    for r, cand in _rank_terms(env):
        if str(simp(cand)) == t:
            return r
    return None


def ens_entry(I, env, res):
    ranks = []
    for it in env["near"].items:
        if not isinstance(it, STuple) or not isinstance(it.items[0], SStr):
            return z3.BoolVal(False)
        r = _rank_of(it.items[0].t, env)
        if r is None:
            return z3.BoolVal(False)
        ranks.append(r)
    ordered = all(a < b for a, b in zip(ranks, ranks[1:]))
    ok = ordered
    if isinstance(res, STuple) and isinstance(res.items[0], SStr):
        rr = _rank_of(res.items[0].t, env)
        ok = ok and rr is not None and all(r < rr for r in ranks)
    return z3.BoolVal(bool(ok))


def targets_find_module(tier):
    ov = {"contracts.foundtwice:FakeFsCache.isfile_case": returns(TBool(), "isfile_case"), "contracts.foundtwice:FakeFsCache.exists_case": returns(TBool(), "exists_case"),
          "mypy.modulefinder:verify_module": returns(TBool(), "verify_module"), "posixpath:dirname": returns(TStr(), "dirname"), "os.path:dirname": returns(TStr(), "dirname")}
    return [Target("modulefinder._find_module.entry_precedence", "mypy.modulefinder:FindModuleCache._find_module", setup_entry,
                   loop_body=("for base_dir, verify in candidate_base_dirs", None), ensures=[("candidates-of-one-entry-in-precedence-order", ens_entry)], raises=(),
                   overrides=ov, field_types={}, note="one generic search-path entry; the file system is an arbitrary function; a two-component module id (the dir_prefix loop runs once)")]
