"""C11, transient re-linking: CallableType.definition is not serialized (views_types pins it as
're-linked by fixup'); here that reason becomes obligations on the real mypy/fixup.py NodeFixer:

  visit_func_def             func.type is a CallableType      =>  func.type.definition is func
  visit_decorator            d.var.type is a CallableType     =>  d.var.type.definition is d.func
  visit_overloaded_func_def  o.type is an Overloaded  <=>  the linking loop over zip(o.type.items, o.items) is
                             reached (whatever o.info / o.impl are), and one generic iteration of that loop
                             sets typ.definition to its item.
The nested accept() calls (type fixer, nested nodes) are under an assumed frame: they do not assign
`definition` of the types handled here.
"""
from __future__ import annotations

import z3

from pyvc.interp import NONE, LoopSpec
from pyvc.sym import *
from pyvc.target import Target
from pyvc.types import *
from .common import *

import mypy.fixup as FX
import mypy.nodes as N
import mypy.types as T


def accept_contract(I, args, kwargs):
    I.ctx.events.append(("accept", args[0], args[1] if len(args) > 1 else None))
    return NONE


def _accepts():
    ov = {}
    for mod, names in ((N, ("FuncDef", "OverloadedFuncDef", "Decorator", "Var", "Node", "FuncItem", "SymbolNode", "Statement", "FuncBase")),
                       (T, ("Type", "ProperType", "CallableType", "Overloaded", "Instance", "AnyType", "FunctionLike"))):
        for n in names:
            if hasattr(mod, n):
                ov[f"{mod.__name__}:{n}.accept"] = accept_contract
    return ov


OV = _accepts()
TYPE_CANDS = [T.CallableType, T.Overloaded, T.Instance, T.AnyType]
FT = {
    ("FuncDef", "type"): TOpt(TObj(T.ProperType)), ("OverloadedFuncDef", "type"): TOpt(TObj(T.ProperType)), ("OverloadedFuncDef", "impl"): TOpt(TObj(N.FuncDef)),
    ("OverloadedFuncDef", "items"): TLList(TObj(N.Decorator)), ("OverloadedFuncDef", "info"): TOpt(TObj(N.TypeInfo)), ("Overloaded", "_items"): TLList(TObj(T.CallableType)),
    ("Decorator", "func"): TObj(N.FuncDef), ("Decorator", "var"): TObj(N.Var), ("Var", "type"): TOpt(TObj(T.ProperType)),
    ("NodeFixer", "type_fixer"): TObj(FX.TypeFixer),
}


def narrow(o, fieldname, I):
    v = I.getattr(o, fieldname)
    if isinstance(v, SObj):
        v.cands = [k for k in v.cands if k in TYPE_CANDS]
    return v


def setup_func(I):
    self = I.make(TObj(FX.NodeFixer), "self")
    self.cands = [FX.NodeFixer]
    func = I.make(TObj(N.FuncDef), "func")
    func.cands = [N.FuncDef]
    narrow(func, "type", I)
    return {"args": [self, func], "self": self, "node": func}


def ens_func(I, env, res):
    func = env["node"]
    ty = I.getattr(func, "type")
    if isinstance(ty, SObj) and ty.cands == [T.CallableType]:
        return z3.BoolVal(ty.fields.get("definition") is func)
    return z3.BoolVal(True)


def setup_dec(I):
    self = I.make(TObj(FX.NodeFixer), "self")
    self.cands = [FX.NodeFixer]
    d = I.make(TObj(N.Decorator), "d")
    d.cands = [N.Decorator]
    fn, var = I.getattr(d, "func"), I.getattr(d, "var")
    fn.cands, var.cands = [N.FuncDef], [N.Var]
    narrow(var, "type", I)
    return {"args": [self, d], "self": self, "node": d, "func": fn, "var": var}


def ens_dec(I, env, res):
    ty = I.getattr(env["var"], "type")
    if isinstance(ty, SObj) and ty.cands == [T.CallableType]:
        return z3.BoolVal(ty.fields.get("definition") is env["func"])
    return z3.BoolVal(True)


def setup_ov(I):
    self = I.make(TObj(FX.NodeFixer), "self")
    self.cands = [FX.NodeFixer]
    o = I.make(TObj(N.OverloadedFuncDef), "o")
    o.cands = [N.OverloadedFuncDef]
    narrow(o, "type", I)
    return {"args": [self, o], "self": self, "node": o}


def ens_ov_reach(I, env, res):
    """the linking loop is reached exactly when o.type is an Overloaded"""
    ty = I.getattr(env["node"], "type")
    is_ov = isinstance(ty, SObj) and ty.cands == [T.Overloaded]
    return z3.BoolVal(bool(env.get("__cut")) == is_ov)


def setup_ov_iter(I):
    typ = I.make(TObj(T.CallableType), "typ")
    typ.cands = [T.CallableType]
    item = I.make(TObj(N.Decorator), "item")
    item.cands = [N.Decorator]
    o = I.make(TObj(N.OverloadedFuncDef), "o")
    o.cands = [N.OverloadedFuncDef]
    self = I.make(TObj(FX.NodeFixer), "self")
    return {"args": [], "locals": {"self": self, "o": o, "typ": typ, "item": item}, "typ": typ, "item": item}


def ens_ov_iter(I, env, res):
    return z3.BoolVal(env["typ"].fields.get("definition") is env["item"])


def check_zip_operands():
    """the loop pairs o.type.items with o.items (same positions), decided on the source"""
    import ast
    from pyvc.interp import func_node
    from pyvc.target import resolve

    fnode, mod = func_node(resolve("mypy.fixup:NodeFixer.visit_overloaded_func_def"))
    loops = [n for n in ast.walk(fnode) if isinstance(n, ast.For) and any(isinstance(t, ast.Attribute) and t.attr == "definition" and isinstance(t.ctx, ast.Store) for t in ast.walk(n))]
    if len(loops) != 1:
        return [{"name": "fixup/overload-items-paired-by-position", "status": "unknown", "where": f"{len(loops)} linking loops"}]
    src = ast.unparse(loops[0].iter).replace(" ", "")
    tgt = ast.unparse(loops[0].target).replace(" ", "")
    ok = src == "zip(o.type.items,o.items)" and tgt in ("(typ,item)", "typ,item")
    bad = src in ("zip(o.items,o.type.items)",) and tgt in ("(typ,item)", "typ,item")
    return [{"name": "fixup/overload-items-paired-by-position", "status": "discharged" if ok else "refuted" if bad else "unknown", "where": f"mypy/fixup.py: for {tgt} in {src}",
             "key": "fixup-overload-zip", "confirmed": True}]


# ---- TypeAlias.tvar_tuple_index is derived from constructor arguments only; fixup assigns alias_tvars of a
# special alias (named tuples, TypedDicts) afterwards, so it has to re-derive the index in the same place:
# wherever visit_type_info sets `special_alias.alias_tvars`, the same block sets `tvar_tuple_index` for the
# TypeVarTupleType among them (class invariant of TypeAlias: the index is the position of the variadic one)


def check_special_alias_index():
    import ast
    from pyvc.interp import func_node
    from pyvc.target import resolve

    fnode, _ = func_node(resolve("mypy.fixup:NodeFixer.visit_type_info"))
    blocks = []
    for n in ast.walk(fnode):
        if isinstance(n, ast.If) and "special_alias" in ast.unparse(n.test):
            sets_tvars = any(isinstance(a, ast.Assign) and any(isinstance(t, ast.Attribute) and t.attr == "alias_tvars" for t in a.targets) for a in n.body)
            if sets_tvars:
                sets_index = any(isinstance(x, ast.Assign) and any(isinstance(t, ast.Attribute) and t.attr == "tvar_tuple_index" for t in x.targets)
                                 for st in n.body if isinstance(st, ast.For) for x in ast.walk(st))
                mentions_tvt = any("TypeVarTupleType" in ast.unparse(st) for st in n.body if isinstance(st, ast.For))
                blocks.append((n.lineno, sets_index and mentions_tvt))
    if len(blocks) < 2:
        return [{"name": "fixup/special-alias-variadic-index-rederived", "status": "unknown", "where": f"{len(blocks)} special_alias blocks found in visit_type_info"}]
    obs = []
    for ln, ok in blocks:
        obs.append({"name": f"fixup/special-alias-variadic-index-rederived/line{ln}", "status": "discharged" if ok else "refuted", "where": f"mypy/fixup.py:{ln}",
                    "detail": "" if ok else "alias_tvars of the special alias is re-assigned without re-deriving tvar_tuple_index: a variadic generic NamedTuple / TypedDict loaded from the cache rejects its own type arguments",
                    "key": "fixup-special-alias-index", "confirmed": True})
    return obs



def targets(tier):
    from pyvc.runner import StaticCheck

    loops = {"for item in o.items": LoopSpec(inv=lambda I, env: z3.BoolVal(True), name="visit-items")}
    return [
        Target("fixup.visit_func_def.definition", "mypy.fixup:NodeFixer.visit_func_def", setup_func, ensures=[("callable-type-definition-relinked", ens_func)], raises=(), overrides=OV, field_types=FT),
        Target("fixup.visit_decorator.definition", "mypy.fixup:NodeFixer.visit_decorator", setup_dec, ensures=[("callable-type-definition-relinked", ens_dec)], raises=(), overrides=OV, field_types=FT),
        Target("fixup.visit_overloaded_func_def.reach", "mypy.fixup:NodeFixer.visit_overloaded_func_def", setup_ov, ensures=[("linking-loop-reached-iff-type-is-overloaded", ens_ov_reach)],
               raises=(), overrides=OV, field_types=FT, loops=loops, cut_at="for typ, item in zip(o.type.items, o.items)"),
        Target("fixup.visit_overloaded_func_def.link", "mypy.fixup:NodeFixer.visit_overloaded_func_def", setup_ov_iter, loop_body=("for typ, item in zip(o.type.items, o.items)", None),
               ensures=[("item-type-definition-relinked", ens_ov_iter)], raises=(), overrides=OV, field_types=FT),
        StaticCheck("fixup.visit_overloaded_func_def.pairing", check_zip_operands, note="operands of the zip, decided on the source"),
        StaticCheck("fixup.visit_type_info.special_alias_index", check_special_alias_index, note="source-level frame on the two special-alias blocks"),
    ]