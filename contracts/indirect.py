"""C02, indirect dependencies ('indirect dependency patching so opaque interfaces stay valid'): the set of
modules a type's meaning depends on, computed by mypy/indirection.py TypeIndirectionVisitor.

  cover         frame: for every Type class, each nested type its cache writer serializes (the components
                that are part of the type's meaning) is mentioned by the indirection visitor method of that
                class -- or pinned below with the reason it cannot name a module of its own.
  instance.*    visit_instance, in regions and per iteration: the MRO loop is reached iff the Instance has
                a TypeInfo; one generic MRO entry s contributes s.module_name; one generic base of it with
                type arguments has those arguments visited; afterwards the EFFECTIVE metaclass
                (metaclass_type, inherited ones included), typeddict_type and tuple_type are visited exactly
                when present; nest: the loop over bases runs over the bases of the MRO loop's own variable.
"""
from __future__ import annotations

import ast

import z3

from pyvc.interp import NONE, LoopSpec, func_node
from pyvc.runner import StaticCheck
from pyvc.sym import *
from pyvc.target import Target, resolve
from pyvc.types import *
from .common import *

import mypy.indirection as IND
import mypy.nodes as N
import mypy.types as T

# nested types a writer serializes that the visitor need not enter (reason pinned; reported as assumptions)
EXEMPT = {
    ("Instance", "last_known_value"): "a LiteralType whose fallback is this very Instance type: no further module",
    ("Instance", "extra_attrs"): "module attribute narrowing of a module object: analysis-local",
    ("CallableType", "fallback"): "builtins.function / builtins.type: builtins is a dependency of every module",
    ("TypeVarTupleType", "tuple_fallback"): "builtins.tuple[object, ...]: builtins is a dependency of every module",
    ("AnyType", "source_any"): "an AnyType: names no module",
    ("Parameters", "variables"): "ASSUMED, not established: type variables of a bare Parameters occur only with the callable they were taken from, whose own visitor method visits `variables`",
}


def visitor_methods(module=None, clsname="TypeIndirectionVisitor"):
    tree, _ = None, None
    import inspect

    src = inspect.getsource(module or IND)
    tree = ast.parse(src)
    cls = next(n for n in tree.body if isinstance(n, ast.ClassDef) and n.name == clsname)
    out = {}
    for m in cls.body:
        if isinstance(m, ast.FunctionDef) and m.name.startswith("visit_") and len(m.args.args) >= 2:
            p = m.args.args[1].arg
            out[m.name] = {n.attr for n in ast.walk(m) if isinstance(n, ast.Attribute) and isinstance(n.value, ast.Name) and n.value.id == p}
            # the whole type handed on to a helper: what the helper looks at is not decided syntactically
            if any(isinstance(n, ast.Call) and any(isinstance(a, ast.Name) and a.id == p for a in n.args) for n in ast.walk(m)):
                out[m.name].add("*delegated*")
    return out


def check_cover():
    from frames import fixupcover as FC

    vm = visitor_methods()
    rows = []
    for name, cls in FC._classes("mypy/types.py").items():
        nested = FC.written_nested(cls)
        if not nested:
            continue
        meth = FC.accept_target(cls)
        if meth is None:
            continue  # not a Type (e.g. ExtraAttrs): reached through its owner
        for a in sorted(nested):
            rows.append((name, meth, a))
    if len(rows) < 20:
        return [{"name": "indirect-cover/scan", "status": "unknown", "where": f"only {len(rows)} nested written types found"}]
    obs = []
    for cls, meth, attr in rows:
        if meth in vm and (attr in vm[meth] or attr.lstrip("_") in vm[meth]):
            obs.append({"name": f"indirect-cover/{cls}.{attr}", "status": "discharged", "where": f"mypy/indirection.py {meth}"})
        elif (cls, attr) in EXEMPT:
            obs.append({"name": f"indirect-cover/exempt/{cls}.{attr}", "status": "discharged", "where": str(meth), "detail": EXEMPT[(cls, attr)]})
        elif meth not in vm or "*delegated*" in vm[meth]:
            obs.append({"name": f"indirect-cover/{cls}.{attr}", "status": "unknown", "where": f"no indirection visitor method {meth}, or it hands the type on to a helper"})
        else:
            obs.append({"name": f"indirect-cover/{cls}.{attr}", "status": "refuted", "where": f"mypy/indirection.py {meth}",
                        "detail": f"{cls}.{attr} is a component type of {cls} (its cache writer serializes it) but {meth} never looks at it: modules it refers to are missing from the indirect dependencies",
                        "key": f"indirect-cover:{cls}.{attr}", "confirmed": True})
    return obs


# ---- visit_instance


def rec(tag):
    def h(I, args, kwargs):
        I.ctx.events.append((tag,) + tuple(args[1:]))
        return NONE
    return h


OV = {"mypy.indirection:TypeIndirectionVisitor._visit": rec("_visit"), "mypy.indirection:TypeIndirectionVisitor._visit_type_tuple": rec("_visit_type_tuple"),
      "mypy.indirection:TypeIndirectionVisitor._visit_type_list": rec("_visit_type_list")}
FT = {
    ("TypeIndirectionVisitor", "modules"): TSet(TStr()),
    ("Instance", "type"): TOpt(TObj(N.TypeInfo)), ("Instance", "args"): TLList(TObj(T.Type)),
    ("TypeInfo", "mro"): TLList(TObj(N.TypeInfo)), ("TypeInfo", "bases"): TLList(TObj(T.Instance)), ("TypeInfo", "module_name"): TStr(),
    ("TypeInfo", "metaclass_type"): TOpt(TObj(T.Instance)), ("TypeInfo", "declared_metaclass"): TOpt(TObj(T.Instance)),
    ("TypeInfo", "typeddict_type"): TOpt(TObj(T.TypedDictType)), ("TypeInfo", "tuple_type"): TOpt(TObj(T.TupleType)), ("TypeInfo", "is_protocol"): TBool(),
    ("TypeInfo", "names"): TLDict(TStr(), TObj(N.SymbolTableNode)),
}


def mk_self(I):
    self = I.make(TObj(IND.TypeIndirectionVisitor), "self")
    self.cands = [IND.TypeIndirectionVisitor]
    return self


def mk_info(I, name):
    o = I.make(TObj(N.TypeInfo), name)
    o.cands = [N.TypeInfo]
    return o


def setup_reach(I):
    self = mk_self(I)
    t = I.make(TObj(T.Instance), "t")
    t.cands = [T.Instance]
    ti = I.getattr(t, "type")
    if isinstance(ti, SObj):
        ti.cands = [N.TypeInfo]
    return {"args": [self, t], "t": t}


def ens_reach(I, env, res):
    ti = I.getattr(env["t"], "type")
    return z3.BoolVal(bool(env.get("__cut")) == isinstance(ti, SObj))


def setup_mro(I):
    self, s = mk_self(I), mk_info(I, "s")
    t = I.make(TObj(T.Instance), "t")
    t.cands = [T.Instance]
    mods0 = I.getattr(self, "modules").t
    return {"args": [], "locals": {"self": self, "t": t, "s": s}, "self": self, "s": s, "mods0": mods0}


def ens_mro(I, env, res):
    mods1 = I.getattr(env["self"], "modules").t
    name = I.getattr(env["s"], "module_name").t
    x = z3.Const("ind_x", StrS)
    return z3.And(z3.Select(mods1, name), z3.ForAll([x], z3.Implies(z3.Select(env["mods0"], x), z3.Select(mods1, x))))


def setup_base(I):
    self, s = mk_self(I), mk_info(I, "s")
    base = I.make(TObj(T.Instance), "base")
    base.cands = [T.Instance]
    return {"args": [], "locals": {"self": self, "s": s, "base": base}, "base": base}


def ens_base(I, env, res):
    args = I.getattr(env["base"], "args")
    visited = any(e[0] == "_visit_type_tuple" and e[1] is args for e in I.ctx.events)
    return z3.Implies(I.llist_len(args) > 0, z3.BoolVal(visited))


def setup_tail(I):
    self = mk_self(I)
    t = I.make(TObj(T.Instance), "t")
    t.cands = [T.Instance]
    ti = I.getattr(t, "type")
    if not isinstance(ti, SObj):
        from pyvc.ctx import Infeasible

        raise Infeasible()
    ti.cands = [N.TypeInfo]
    return {"args": [self, t], "info": ti}


def ens_tail(I, env, res):
    ti = env["info"]
    ok = True
    for f in ("metaclass_type", "typeddict_type", "tuple_type"):
        v = I.getattr(ti, f)
        visited = any(e[0] == "_visit" and e[1] is v for e in I.ctx.events)
        ok = ok and (visited == isinstance(v, SObj))
    return z3.BoolVal(ok)


def check_nest():
    fnode, _ = func_node(resolve("mypy.indirection:TypeIndirectionVisitor.visit_instance"))
    outer = [n for n in ast.walk(fnode) if isinstance(n, ast.For) and ast.unparse(n.iter).replace(" ", "").endswith(".mro")]
    inner = [n for n in ast.walk(fnode) if isinstance(n, ast.For) and ast.unparse(n.iter).replace(" ", "").endswith(".bases")]
    if len(outer) != 1 or len(inner) != 1 or not isinstance(outer[0].target, ast.Name):
        return [{"name": "indirect/bases-of-every-mro-entry", "status": "unknown", "where": f"{len(outer)} mro loops, {len(inner)} bases loops in visit_instance"}]
    nested = any(n is inner[0] for n in ast.walk(outer[0]))
    of_var = ast.unparse(inner[0].iter).replace(" ", "") == outer[0].target.id + ".bases"
    over_all = ast.unparse(outer[0].iter).replace(" ", "") == "t.type.mro"
    st = "discharged" if nested and of_var and over_all else "refuted" if (not nested or not of_var) else "unknown"
    return [{"name": "indirect/bases-of-every-mro-entry", "status": st, "where": f"mypy/indirection.py visit_instance: for {ast.unparse(inner[0].target)} in {ast.unparse(inner[0].iter)}",
             "detail": "" if st == "discharged" else "the generic bases that are traversed are not those of each MRO entry: type arguments written in an intermediate base class are missed",
             "key": "indirect-nest", "confirmed": True}]


def targets(tier):
    loops = {"for s in t.type.mro": LoopSpec(inv=lambda I, env: z3.BoolVal(True), name="mro"), "for base in s.bases": LoopSpec(inv=lambda I, env: z3.BoolVal(True), name="bases"),
             "for m in t.type.protocol_members": LoopSpec(inv=lambda I, env: z3.BoolVal(True), name="protocol-members")}
    return [
        StaticCheck("indirect.cover", check_cover, note="component types of every Type class are looked at by its indirection visitor method (syntactic)"),
        Target("indirect.visit_instance.reach", "mypy.indirection:TypeIndirectionVisitor.visit_instance", setup_reach, ensures=[("mro-loop-reached-iff-the-instance-has-a-typeinfo", ens_reach)],
               raises=(), overrides=OV, field_types=FT, cut_at="for s in t.type.mro"),
        Target("indirect.visit_instance.mro_entry", "mypy.indirection:TypeIndirectionVisitor.visit_instance", setup_mro, loop_body=("for s in t.type.mro", None),
               ensures=[("module-of-the-mro-entry-recorded", ens_mro)], raises=(), overrides=OV, field_types=FT, loops={"for base in s.bases": loops["for base in s.bases"]}),
        Target("indirect.visit_instance.generic_base", "mypy.indirection:TypeIndirectionVisitor.visit_instance", setup_base, loop_body=("for base in s.bases", None),
               ensures=[("type-arguments-of-a-generic-base-visited", ens_base)], raises=(), overrides=OV, field_types=FT),
        Target("indirect.visit_instance.tail", "mypy.indirection:TypeIndirectionVisitor.visit_instance", setup_tail,
               ensures=[("effective-metaclass-typeddict-and-tuple-types-visited-iff-present", ens_tail)], raises=(), overrides=dict(OV, **{"mypy.nodes:SymbolTableNode.type": returns(TOpt(TObj(T.Type)), "member_type"), "mypy.nodes:TypeInfo.protocol_members": returns(TLList(TStr()), "protocol_members")}), field_types=FT, loops=loops,
               note="whole function at its normal exits, the loops under trivial invariants (their bodies are the per-iteration targets); the protocol-member clause is not under contract"),
        StaticCheck("indirect.visit_instance.nest", check_nest, note="loop nest, decided on the source"),
    ] + targets_reset(tier) + targets_patch(tier)


# ---- the visitor is shared by all modules of a build: find_modules() must start from a clean state, or
# what is recorded for a module depends on which modules were processed before it (C10 file order, C02)


def check_visitor_reset():
    import inspect

    tree = ast.parse(inspect.getsource(IND))
    cls = next(n for n in tree.body if isinstance(n, ast.ClassDef) and n.name == "TypeIndirectionVisitor")
    init = next((m for m in cls.body if isinstance(m, ast.FunctionDef) and m.name == "__init__"), None)
    fm = next((m for m in cls.body if isinstance(m, ast.FunctionDef) and m.name == "find_modules"), None)
    if init is None or fm is None:
        return [{"name": "indirect/find_modules-starts-clean", "status": "unknown", "where": "__init__ / find_modules not found"}]

    def self_targets(fn, only_top=False):
        out = {}
        nodes = fn.body if only_top else list(ast.walk(fn))
        for n in nodes:
            tgts = n.targets if isinstance(n, ast.Assign) else [n.target] if isinstance(n, ast.AnnAssign) and n.value is not None else []
            for t in tgts:
                if isinstance(t, ast.Attribute) and isinstance(t.value, ast.Name) and t.value.id == "self":
                    out[t.attr] = n.value
        return out

    def fresh_container(v):
        return isinstance(v, (ast.Set, ast.Dict, ast.List)) and not (getattr(v, "elts", None) or getattr(v, "keys", None)) or \
            (isinstance(v, ast.Call) and isinstance(v.func, ast.Name) and v.func.id in ("set", "dict", "list") and not v.args)

    state = {a for a, v in self_targets(init).items() if fresh_container(v)}
    # only assignments that precede the first loop of find_modules count as a reset
    first_loop = next((k for k, st in enumerate(fm.body) if isinstance(st, (ast.For, ast.While))), len(fm.body))
    pre = ast.Module(body=fm.body[:first_loop], type_ignores=[])
    reset = {a for a, v in self_targets(pre).items() if fresh_container(v)}
    obs = []
    if not state:
        return [{"name": "indirect/find_modules-starts-clean", "status": "unknown", "where": "no accumulated state found in __init__"}]
    for a in sorted(state):
        ok = a in reset
        obs.append({"name": f"indirect/find_modules-starts-clean/{a}", "status": "discharged" if ok else "refuted", "where": "mypy/indirection.py TypeIndirectionVisitor.find_modules",
                    "detail": "" if ok else f"self.{a} accumulates across calls of find_modules on the shared visitor: the modules recorded for one module depend on which modules were processed before it",
                    "key": f"indirect-reset:{a}", "confirmed": True})
    return obs


def targets_reset(tier):
    return [StaticCheck("indirect.find_modules.reset", check_visitor_reset, note="every container the visitor's __init__ creates is re-created before find_modules starts visiting (source-level frame)")]


# ---- State.patch_indirect_dependencies, one generic newly encountered module: it becomes a dependency of
# priority PRI_INDIRECT exactly when it is a module of this build; nothing else is touched


class FakeManagerP:
    modules: dict


def setup_patch(I):
    import mypy.build as B

    self = I.new_object(B.State)
    dep = I.make(TStr(), "dep")
    mgr = I.new_object(FakeManagerP)
    known = I.ctx.choose(2, "module-of-this-build?")
    mgr.fields["modules"] = SDict([(dep, SOpaque("tree"))]) if known else SDict([])
    self.fields["manager"] = mgr
    pr = I.make(TMap(TStr(), TInt()), "priorities")
    self.fields["priorities"] = pr
    return {"args": [], "locals": {"self": self, "dep": dep}, "self": self, "dep": dep, "known": known, "pr0": pr.t}


def ens_patch(I, env, res):
    import mypy.build as B

    adds = [e for e in I.ctx.events if e[0] == "add_dependency"]
    pr1 = I.getattr(env["self"], "priorities").t
    ty = TMap(TStr(), TInt())
    s, mk, accs = ty.parts()
    if not env["known"]:
        return z3.And(z3.BoolVal(not adds), pr1 == env["pr0"])
    ok = len(adds) == 1 and adds[0][1] is env["dep"]
    return z3.And(z3.BoolVal(ok), z3.Select(accs[0](pr1), env["dep"].t), z3.Select(accs[1](pr1), env["dep"].t) == B.PRI_INDIRECT)


def targets_patch(tier):
    ov = {"mypy.build:State.add_dependency": lambda I, a, k: (I.ctx.events.append(("add_dependency",) + tuple(a[1:])), NONE)[1]}
    return [Target("indirect.patch_indirect_dependencies.entry", "mypy.build:State.patch_indirect_dependencies", setup_patch, loop_body=("for dep in sorted(encountered - existing_deps)", None),
                   ensures=[("encountered-module-of-this-build-becomes-an-indirect-dependency", ens_patch)], raises=(), overrides=ov, field_types={},
                   note="one generic encountered module that is not yet a dependency")]


# ---- the same coverage frame for the fine-grained dependency side (C03): the types a target depends on are
# collected by server/deps.py TypeTriggersVisitor; each component type of a Type class must be looked at by its
# visitor method, or the daemon never re-checks the target when that component's definition changes

TRIGGER_EXEMPT = {
    ("Instance", "last_known_value"): "a LiteralType whose fallback is this very Instance type",
    ("Instance", "extra_attrs"): "module attribute narrowing: analysis-local",
    ("CallableType", "fallback"): "documented in the visitor: the fallback is a metaclass type for class objects and is processed separately",
    ("CallableType", "variables"): "ASSUMED: bounds / defaults of a callable's own type variables reach the dependency map through the definition of the function",
    ("Parameters", "variables"): "ASSUMED: as for CallableType.variables",
    ("TypeVarTupleType", "tuple_fallback"): "builtins.tuple[object, ...]",
    ("AnyType", "source_any"): "an AnyType: names nothing",
    ("TupleType", "partial_fallback"): None,
    ("UnboundType", "args"): "an UnboundType does not survive semantic analysis: the type map the triggers are computed from holds none",
}
TRIGGER_EXEMPT = {k: v for k, v in TRIGGER_EXEMPT.items() if v}


def check_trigger_cover():
    from frames import fixupcover as FC
    import mypy.server.deps as DEPS

    vm = visitor_methods(DEPS, "TypeTriggersVisitor")
    rows = []
    for name, cls in FC._classes("mypy/types.py").items():
        nested = FC.written_nested(cls)
        meth = FC.accept_target(cls) if nested else None
        if not nested or meth is None:
            continue
        for a in sorted(nested):
            rows.append((name, meth, a))
    if len(rows) < 20:
        return [{"name": "trigger-cover/scan", "status": "unknown", "where": f"only {len(rows)} nested written types found"}]
    obs = []
    for cls, meth, attr in rows:
        if meth in vm and (attr in vm[meth] or attr.lstrip("_") in vm[meth]):
            obs.append({"name": f"trigger-cover/{cls}.{attr}", "status": "discharged", "where": f"mypy/server/deps.py {meth}"})
        elif (cls, attr) in TRIGGER_EXEMPT:
            obs.append({"name": f"trigger-cover/exempt/{cls}.{attr}", "status": "discharged", "where": str(meth), "detail": TRIGGER_EXEMPT[(cls, attr)]})
        elif meth not in vm or "*delegated*" in vm[meth]:
            obs.append({"name": f"trigger-cover/{cls}.{attr}", "status": "unknown", "where": f"no TypeTriggersVisitor method {meth}, or it hands the type on to a helper"})
        else:
            obs.append({"name": f"trigger-cover/{cls}.{attr}", "status": "refuted", "where": f"mypy/server/deps.py {meth}",
                        "detail": f"{cls}.{attr} is a component type of {cls} but {meth} never looks at it: a target using such a type is not re-checked when what {attr} refers to changes",
                        "key": f"trigger-cover:{cls}.{attr}", "confirmed": True})
    return obs


def targets_trigger_cover(tier):
    return [StaticCheck("deps.type_triggers.cover", check_trigger_cover, note="component types of every Type class are looked at by its TypeTriggersVisitor method (syntactic)")]
