"""C11: round-trip contracts for every class of mypy/types.py that has a write/read pair."""
from __future__ import annotations

import inspect

import z3

from pyvc.codec_target import CodecTarget
from pyvc.sym import *
from pyvc.types import *
from .common import *

import mypy.types as T
import mypy.nodes as N

from pyvc.interp import NONE

NESTED_READERS = {"mypy.types:read_type", "mypy.types:read_function_like"}

# slots that are deliberately not part of the serialized interface (reason pinned here)
COMMON_TRANSIENT = {
    "line": "position: not part of the interface", "column": "position", "end_line": "position", "end_column": "position",
    "_can_be_true": "derived cache", "_can_be_false": "derived cache", "_hash": "derived cache",
}

FT = {
    ("Type", "line"): TInt(), ("Type", "column"): TInt(), ("Type", "end_line"): TOpt(TInt()), ("Type", "end_column"): TOpt(TInt()),
    ("TypeInfo", "_fullname"): TStr(), ("TypeInfo", "fullname"): TStr(),
    ("TypeAlias", "_fullname"): TStr(),
}


# classes whose constructor has too many optional parameters to enumerate: the object under proof is
# lazily initialised (arbitrary field values) instead of constructor-built
LAZY = {"CallableType"}

UNVERIFIED = {
    "TypeType": "read() re-normalizes the item through TypeType.make_normalized (unions are distributed); the round trip holds only for items that are already normalized, and idempotence of the normalization is not established here",
}


def classes():
    out = []
    for name, cls in sorted(vars(T).items()):
        if inspect.isclass(cls) and cls.__module__ == "mypy.types" and "write" in cls.__dict__ and "read" in cls.__dict__ and cls is not T.Type and cls.__name__ not in UNVERIFIED:
            out.append(cls)
    return out


def assume_meta_level_zero(I, obj):
    """ASSUMPTION: type variables stored in a cached interface have meta_level 0 (non-zero levels exist
    only during inference)"""
    tid = I.getattr(obj, "id")
    I.ctx.assume(I.getattr(tid, "meta_level").t == 0)


AFTER = {"TypeVarType": assume_meta_level_zero, "ParamSpecType": assume_meta_level_zero, "TypeVarTupleType": assume_meta_level_zero}


def inv_any_source(I, o, val):
    """class invariant of AnyType (established by its constructor): the recorded source is itself a root
    (source_any.source_any is None), is not from_another_any, and carries the missing import name"""
    if isinstance(val, SObj):
        val.fields["source_any"] = NONE
        val.init["source_any"] = NONE
        I.ctx.assume(I.getattr(val, "type_of_any").t != T.TypeOfAny.from_another_any)
        m = I.getattr(val, "missing_import_name")
        if "missing_import_name" in o.fields:
            I.ctx.assume(I.eq(o.fields["missing_import_name"], m))
        else:
            o.fields["missing_import_name"] = m
            o.init["missing_import_name"] = m


def inv_paramspec_prefix(I, o, val):
    """constructor assert of CallableType: a ParamSpecType that is directly an argument type has an
    empty prefix"""
    if o.ghost.get("callable_arg") and isinstance(val, SObj):
        at = I.getattr(val, "arg_types")
        I.ctx.assume(I.llist_len(at) == 0)


FIELD_INVS = {("AnyType", "source_any"): inv_any_source, ("ParamSpecType", "prefix"): inv_paramspec_prefix}


def req_callable(I, env):
    """class invariants asserted by CallableType.__init__ (the object under proof is lazily
    initialised, so they are stated here): equal lengths of the three argument lists, no bound-method
    name, empty prefix for ParamSpec argument types"""
    o = env["self"]
    at, ak, an = I.getattr(o, "arg_types"), I.getattr(o, "arg_kinds"), I.getattr(o, "arg_names")
    I.ctx.assume(z3.And(I.llist_len(at) == I.llist_len(ak), I.llist_len(ak) == I.llist_len(an)))
    nm = I.getattr(o, "name")
    I.ctx.assume(z3.Or(isnone(nm), z3.Not(z3.Contains(term(nm), z3.StringVal("<bound method")))))
    k, elem, n = I.codec.generic_of(at)
    if isinstance(elem, SObj):
        elem.ghost["callable_arg"] = True


def req_any(I, env):
    """ASSUMPTION (from the call sites): an Any that records a source is of kind from_another_any; the
    source's missing_import_name obeys the constructor's own assertion"""
    o = env["self"]
    src = I.getattr(o, "source_any")
    if src is not NONE:
        I.ctx.assume(I.getattr(o, "type_of_any").t == T.TypeOfAny.from_another_any)
        I.ctx.assume(I.getattr(src, "type_of_any").t != T.TypeOfAny.from_another_any)
        if "source_any" not in src.fields:
            src.fields["source_any"] = NONE


def req_alias(I, env):
    """requires: only alias types whose alias is resolved are written (write() asserts it)"""
    from pyvc.ctx import Infeasible

    if I.getattr(env["self"], "alias") is NONE:
        raise Infeasible()
def not_union():
    """requires (class invariant of UnionType, established by flatten_nested_unions in its constructor):
    no item is itself a union"""
    t = TObj(T.Type)
    t.exclude = (T.UnionType,)
    return TLList(t)


INIT_TYPES = {
    ("TypeType", "item"): TObj(T.Type),
    ("UnionType", "items"): not_union(),
}
VIEWS = {
    "TypeAliasType": {"type_ref": lambda I, o: I.getattr(I.getattr(o, "alias"), "fullname")},
    "Instance": {"type_ref": lambda I, o: I.getattr(I.getattr(o, "type"), "fullname")},
}
ANALYSIS_LOCAL = "analysis-local / presentation only, not part of the interface other modules see (assumption from the DESIGN survey)"
TRANSIENT = {
    "TypeAliasType": {"alias": "re-linked from type_ref by fixup"},
    "Instance": {"type": "re-linked from type_ref by fixup", "invalid": ANALYSIS_LOCAL},
    "UnboundType": {"optional": ANALYSIS_LOCAL, "empty_tuple_index": ANALYSIS_LOCAL},
    "UninhabitedType": {"ambiguous": ANALYSIS_LOCAL},
    "UnpackType": {"from_star_syntax": ANALYSIS_LOCAL},
    "UnionType": {"is_evaluated": ANALYSIS_LOCAL, "original_str_expr": ANALYSIS_LOCAL, "original_str_fallback": ANALYSIS_LOCAL},
    "CallableType": {"definition": "re-linked by fixup", "special_sig": ANALYSIS_LOCAL, "from_type_type": ANALYSIS_LOCAL, "min_args": "derived from arg_kinds", "def_extras": ANALYSIS_LOCAL, "bound_args": ANALYSIS_LOCAL},
    "Parameters": {"min_args": "derived from arg_kinds"},
    "TypedDictType": {"extra_items_from": ANALYSIS_LOCAL, "to_be_mutated": ANALYSIS_LOCAL},
    "TupleType": {"implicit": ANALYSIS_LOCAL, "partial_fallback": "written as partial_fallback"},
}
REQUIRES = {"AnyType": req_any, "TypeAliasType": req_alias, "CallableType": req_callable}
LT = TLList(TObj(T.Type))
FT.update({
    ("Parameters", "arg_types"): LT, ("Parameters", "arg_kinds"): TLList(TObj(N.ArgKind)), ("Parameters", "arg_names"): TLList(TOpt(TStr())),
    ("Parameters", "variables"): TLList(TObj(T.TypeVarLikeType)),
    ("CallableType", "arg_types"): LT, ("CallableType", "arg_kinds"): TLList(TObj(N.ArgKind)), ("CallableType", "arg_names"): TLList(TOpt(TStr())),
    ("CallableType", "variables"): TLList(TObj(T.TypeVarLikeType)),
    ("CallableType", "ret_type"): TObj(T.Type), ("CallableType", "fallback"): TObj(T.Instance), ("CallableType", "name"): TOpt(TStr()),
    ("CallableType", "type_guard"): TOpt(TObj(T.Type)), ("CallableType", "type_is"): TOpt(TObj(T.Type)),
    ("CallableType", "instance_type"): TOpt(TObj(T.ProperType)),
    ("CallableType", "is_ellipsis_args"): TBool(), ("CallableType", "implicit"): TBool(), ("CallableType", "is_bound"): TBool(),
    ("CallableType", "from_concatenate"): TBool(), ("CallableType", "imprecise_arg_kinds"): TBool(), ("CallableType", "unpack_kwargs"): TBool(),
    ("UnionType", "items"): LT, ("TupleType", "items"): LT, ("Overloaded", "_items"): TLList(TObj(T.CallableType)),
    ("Instance", "args"): LT, ("UnboundType", "args"): LT, ("TypeAliasType", "args"): LT,
    ("TypeAlias", "tvar_tuple_index"): TOpt(TInt()),
})


# dict-valued fields whose insertion order is observable in diagnostics
ORDERED_DICTS = {"TypedDictType": {"items": "the items of a TypedDict are printed in declaration order (reveal_type, error messages)"}}


def targets(tier):
    ts = []
    for cls in classes():
        tr = dict(COMMON_TRANSIENT)
        tr.update(TRANSIENT.get(cls.__name__, {}))
        ts.append(CodecTarget(f"codec.types.{cls.__name__}", cls, view=VIEWS.get(cls.__name__), transient=tr, field_types=FT,
                              nested_readers=NESTED_READERS, requires=REQUIRES.get(cls.__name__), construct=cls.__name__ not in LAZY, field_invs=FIELD_INVS,
                              after_construct=AFTER.get(cls.__name__), init_types=INIT_TYPES, ordered_dicts=ORDERED_DICTS.get(cls.__name__)))
    return ts
