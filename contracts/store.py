"""C04 'a killed run or failed cache write never makes later runs wrong': contracts on the cache
store operations (mypy/metastore.py) and on the write protocol of mypy/build.py.

The operating system enters through contracts whose effects are appended to a ghost event log; every
primitive may fail (OSError) or the process may die after it.  Because the obligations below are
stated over the *prefixes* of that log (they only constrain what happened before an event), proving
them at the end of every path proves them at every crash point of that path."""
from __future__ import annotations

import z3

from pyvc.interp import NONE, LoopSpec, PyExc
from pyvc.sym import *
from pyvc.target import Target
from pyvc.types import *
from .common import *

import mypy.metastore as MS


# ------------------------------------------------------------------ file-system primitives


from .spec_store import FakeFile, FakeConn


def ev(I, *e):
    I.ctx.events.append(tuple(e))


def may_fail(I, what):
    """every primitive may raise OSError before having any effect"""
    if I.ctx.choose(2, what) == 1:
        ev(I, "failed", what)
        I.raise_exc(OSError, what)


def open_contract(I, args, kwargs):
    name, mode = args[0], args[1]
    if not (isinstance(mode, SStr) and concrete_str(mode.t) == "wb"):
        raise Exception("open contract: only mode 'wb' is specified")
    may_fail(I, "open")
    f = I.new_object(FakeFile)
    f.fields["name"] = name
    ev(I, "truncate", name)  # from here on the name holds a partial record
    return f


def fs_write_contract(I, args, kwargs):
    f, data = args
    if I.ctx.choose(2, "write") == 1:
        ev(I, "partial", f.fields["name"])
        I.raise_exc(OSError, "write")
    ev(I, "write", f.fields["name"], data)
    return SInt(z3.Length(data.t))


def fs_close_contract(I, args, kwargs):
    f = args[0]
    if I.ctx.choose(2, "close") == 1:
        ev(I, "partial", f.fields["name"])
        I.raise_exc(OSError, "close")
    ev(I, "close", f.fields["name"])
    return NONE


def replace_contract(I, args, kwargs):
    may_fail(I, "replace")
    ev(I, "replace", args[0], args[1])  # atomic (POSIX rename): trusted
    return NONE


def utime_contract(I, args, kwargs):
    may_fail(I, "utime")
    ev(I, "utime", args[0], kwargs.get("times"))
    return NONE


def makedirs_contract(I, args, kwargs):
    may_fail(I, "makedirs")
    ev(I, "makedirs", args[0])
    return NONE


JOIN = z3.Function("os_path_join", StrS, StrS, StrS)
DIRNAME = z3.Function("os_path_dirname", StrS, StrS)
ISABS = z3.Function("os_path_isabs", StrS, BoolS)

FS_OV = {
    "builtins:open": open_contract, "io:open": open_contract, "_io:open": open_contract,
    "contracts.spec_store:fs_write": fs_write_contract, "contracts.spec_store:fs_close": fs_close_contract,
    "posix:replace": replace_contract, "os:replace": replace_contract,
    "posix:utime": utime_contract, "os:utime": utime_contract,
    "os:makedirs": makedirs_contract,
    "mypy.metastore:random_string": returns(TStr(), "random_suffix"),
    "mypy.util:os_path_join": lambda I, a, k: SStr(JOIN(I.unopt(a[0]).t, I.unopt(a[1]).t)),
    "posixpath:dirname": lambda I, a, k: SStr(DIRNAME(a[0].t)),
    "posixpath:isabs": lambda I, a, k: SBool(ISABS(a[0].t)),
}

FS_FT = {("FilesystemMetadataStore", "cache_dir_prefix"): TOpt(TStr())}


def setup_fs_write(I):
    self = I.make(TObj(MS.FilesystemMetadataStore), "store")
    name, data = I.make(TStr(), "name"), I.make(TBytes(), "data")
    mtime = I.make(TOpt(TFloat()), "mtime")
    return {"args": [self, name, data, mtime], "self": self, "name": name, "data": data, "mtime": mtime}


def target_path(I, env):
    pre = I.getattr(env["self"], "cache_dir_prefix")
    return JOIN(term(pre), env["name"].t)


def never_torn(I, env):
    """the record's name is only ever touched by os.replace from a temporary that was completely
    written with `data` and closed -- at every prefix of the event log"""
    path = target_path(I, env)
    conj = []
    log = I.ctx.events
    for k, e in enumerate(log):
        if e[0] in ("truncate", "partial", "write", "close"):
            conj.append(e[1].t != path)
        elif e[0] == "replace":
            src, dst = e[1], e[2]
            conj.append(dst.t == path)
            before = [x for x in log[:k] if x[0] in ("truncate", "partial", "write", "close") and x[1] is src]
            shape = [x[0] for x in before] == ["truncate", "write", "close"]
            conj.append(z3.BoolVal(shape))
            if shape:
                conj.append(before[1][2].t == env["data"].t)
            others = [x for x in log[:k] if x[0] in ("truncate", "partial", "write", "close") and x[1] is not src]
            for x in others:
                conj.append(x[1].t != src.t)
        elif e[0] == "utime":
            conj.append(e[1].t == path)
    return z3.And(conj) if conj else z3.BoolVal(True)


def ens_fs_write(I, env, res):
    """True => the record was replaced by the complete new bytes (and stamped when asked);
    in every case the record is never torn"""
    log = I.ctx.events
    replaced = any(e[0] == "replace" for e in log)
    stamped = any(e[0] == "utime" for e in log)
    mt = env["mtime"]
    ok = z3.And(z3.BoolVal(replaced), z3.Or(isnone(mt), z3.BoolVal(stamped)))
    rt = res.t if isinstance(res, SBool) else z3.BoolVal(False)
    return z3.And(never_torn(I, env), z3.Implies(rt, ok), z3.BoolVal(isinstance(res, SBool)))


def exc_fs_write(I, env, e):
    return never_torn(I, env)


def fs_targets():
    return [
        Target("store.fs.write", "mypy.metastore:FilesystemMetadataStore.write", setup_fs_write,
               ensures=[("never-torn-and-true-means-replaced", ens_fs_write)], exc_ensures=[("never-torn", exc_fs_write)],
               raises=(AssertionError,), overrides=FS_OV, field_types=FS_FT,
               note="open/write/close/os.replace/os.utime/os.makedirs are contracts that may each fail; os.replace is trusted atomic; "
                    "AssertionError allowed: relative names are a caller obligation"),
    ]


# ------------------------------------------------------------------ build.write_cache


def store_write_contract(I, args, kwargs):
    """MetadataStore.write(name, data): True and the record now holds `data`, or False (see
    store.fs.write / store.sqlite.write for what a False leaves behind)"""
    ok = I.ctx.choose(2, "store.write") == 0
    ev(I, "store.write", args[1], args[2], ok)
    return SBool(ok)


def store_commit_path_contract(I, args, kwargs):
    ev(I, "store.commit_path", args[1])
    return NONE


def mgr_getmtime_contract(I, args, kwargs):
    """BuildManager.getmtime(name): the store's current mtime of the record, or OSError"""
    if I.ctx.choose(2, "getmtime") == 1:
        ev(I, "getmtime-failed", args[1])
        I.raise_exc(FileNotFoundError, "getmtime")
    k = len([e for e in I.ctx.events if e[0] == "getmtime"])
    v = I.make(TInt(), f"store_mtime{k}")
    ev(I, "getmtime", args[1], v)
    return v


def cache_names_contract(I, args, kwargs):
    g = I.ctx.ghost
    if "names" not in g:
        g["names"] = (I.make(TStr(), "meta_file"), I.make(TStr(), "data_file"), I.make(TOpt(TStr()), "deps_json"))
    return STuple(list(g["names"]))


TREE_BYTES = z3.Function("tree_bytes", IntS, BytesS)
JSON_DUMPS = z3.Function("json_dumps_any", IntS, BytesS)
HASH_BYTES = z3.Function("hash_digest_bytes", BytesS, BytesS)


def getvalue_contract(I, args, kwargs):
    return SBytes(TREE_BYTES(z3.IntVal(0)))


def json_dumps_contract(I, args, kwargs):
    """json_dumps(x): bytes that are a function of x -- x is identified by the order of the calls"""
    g = I.ctx.ghost
    k = g.get("dumps", 0) + 1
    g["dumps"] = k
    return SBytes(JSON_DUMPS(z3.IntVal(k)))


def os_remove_contract(I, args, kwargs):
    may_fail(I, "os.remove")
    ev(I, "os.remove", args[0])
    return NONE


from . import fresh as FR  # noqa: E402
from .spec_store import FakeTree, FakeWriteBuffer, FakeStore, flush_errors_stub  # noqa: E402
import mypy.build as B  # noqa: E402
import mypy.cache as C  # noqa: E402
import mypy.errors as ER  # noqa: E402

def os_stat_contract(I, args, kwargs):
    """os.stat(path): what the file system says NOW -- not the snapshot the file system cache took when
    the source was read and hashed (BuildManager.get_stat); the two may differ"""
    may_fail(I, "os.stat")
    k = len([e for e in I.ctx.events if e[0] == "os.stat"])
    st = I.make(TObj(FR.FakeStat), f"fresh_stat{k}")
    ev(I, "os.stat", args[0], st)
    return st


WC_OV = dict(FR.FC_OV)
WC_OV.update({
    "posix:stat": os_stat_contract, "os:stat": os_stat_contract,
    "mypy.build:BuildManager.maybe_swap_for_shadow_path": lambda I, a, k: a[1],
    "mypy.build:BuildManager.getmtime": mgr_getmtime_contract,
    "mypy.build:get_cache_names": cache_names_contract,
    "contracts.spec_store:FakeStore.write": store_write_contract,
    "contracts.spec_store:FakeStore.commit_path": store_commit_path_contract,
    "contracts.spec_store:FakeTree.write": noop, "contracts.spec_store:FakeTree.serialize": returns(TAny(), "tree_dict"),
    "contracts.spec_store:FakeWriteBuffer.getvalue": getvalue_contract,
    "librt.internal:WriteBuffer": lambda I, a, k: I.new_object(FakeWriteBuffer), "builtins:WriteBuffer": lambda I, a, k: I.new_object(FakeWriteBuffer),
    "mypy.build:WriteBuffer": lambda I, a, k: I.new_object(FakeWriteBuffer), "WriteBuffer": lambda I, a, k: I.new_object(FakeWriteBuffer),
    "mypy.util:json_dumps": json_dumps_contract, "mypy.build:json_dumps": json_dumps_contract,
    "mypy.util:hash_digest_bytes": lambda I, a, k: SBytes(HASH_BYTES(a[0].t)), "mypy.build:hash_digest_bytes": lambda I, a, k: SBytes(HASH_BYTES(a[0].t)),
    "posix:remove": os_remove_contract, "os:remove": os_remove_contract,
})

WC_FT = dict(FR.FC_FT)
WC_FT.update({
    ("BuildManager", "metastore"): TObj(FakeStore), ("Options", "debug_cache"): TBool(),
    ("FakeTree", "path"): TStr(),
})


def setup_write_cache(I):
    mk = I.make
    id_, path = mk(TStr(), "id"), mk(TStr(), "path")
    tree = mk(TObj(FakeTree), "tree")
    strs = TSeq(TStr())
    ints = TSeq(TInt())
    deps, supp = mk(strs, "dependencies"), mk(strs, "suppressed")
    sdo = mk(TBytes(), "suppressed_deps_opts")
    imports_ignored = mk(TAny(), "imports_ignored")
    prios, lines = mk(ints, "dep_prios"), mk(ints, "dep_lines")
    old_ih, tdh = mk(TBytes(), "old_interface_hash"), mk(TBytes(), "trans_dep_hash")
    sh = mk(TStr(), "source_hash")
    ign = mk(TBool(), "ignore_all")
    manager = mk(TObj(B.BuildManager), "manager")
    args = [id_, path, tree, deps, supp, sdo, imports_ignored, prios, lines, old_ih, tdh, sh, ign, manager]
    return {"args": args, "manager": manager, "id": id_, "path": path, "old_ih": old_ih, "source_hash": sh, "deps": deps, "supp": supp,
            "prios": prios, "lines": lines, "ignore_all": ign, "tdh": tdh}


def ens_write_cache(I, env, res):
    """a meta record is handed to the caller only if the data record it describes is in the store:
    either the interface is unchanged (data record untouched) or the ONE data write succeeded;
    data_mtime is the store's mtime read AFTER that write; the meta describes exactly the given
    source facts and the interface hash of the bytes written.  No meta record is written here."""
    log = I.ctx.events
    if not (isinstance(res, STuple) and len(res.items) == 2):
        return z3.BoolVal(False)
    ih, inner = res.items
    writes = [(k, e) for k, e in enumerate(log) if e[0] == "store.write"]
    names = I.ctx.ghost.get("names")
    if names is None:
        return z3.BoolVal(False)
    meta_file, data_file, _ = names
    conj = [z3.BoolVal(len(writes) <= 1)]
    for k, e in writes:
        conj.append(e[1].t == data_file.t)
        conj.append(ih.t == HASH_BYTES(z3.Concat(e[2].t, JSON_DUMPS(z3.IntVal(I.ctx.ghost.get("dumps", 0))))))
    if inner is NONE:
        return z3.And(conj)
    if not (isinstance(inner, STuple) and len(inner.items) == 2 and isinstance(inner.items[0], SObj)):
        return z3.BoolVal(False)
    meta, mf = inner.items
    conj.append(mf.t == meta_file.t)
    if writes:
        conj.append(z3.BoolVal(writes[0][1][3]))  # the write succeeded
    else:
        conj.append(env["old_ih"].t == ih.t)
    gm = [(k, e) for k, e in enumerate(log) if e[0] == "getmtime"]
    conj.append(z3.BoolVal(len(gm) == 1))
    if len(gm) == 1:
        k, e = gm[0]
        conj.append(z3.BoolVal(all(k > kw for kw, _ in writes)))
        conj.append(e[1].t == data_file.t)
        conj.append(I.getattr(meta, "data_mtime").t == e[2].t)
    st = I.ctx.ghost.get("stat")
    if not isinstance(st, SObj):
        return z3.BoolVal(False)
    opts = I.getattr(env["manager"], "options")
    bazel = I.getattr(opts, "bazel").t
    f2i = z3.Function("py_f2i", FloatS, IntS)
    conj += [
        I.getattr(meta, "data_file").t == data_file.t,
        I.getattr(meta, "interface_hash").t == ih.t,
        I.getattr(meta, "hash").t == env["source_hash"].t,
        I.getattr(meta, "size").t == I.getattr(st, "st_size").t,
        I.getattr(meta, "mtime").t == z3.If(bazel, 0, f2i(I.getattr(st, "st_mtime").t)),
        I.getattr(meta, "id").t == env["id"].t, I.getattr(meta, "path").t == env["path"].t,
        I.getattr(meta, "dependencies").t == env["deps"].t, I.getattr(meta, "suppressed").t == env["supp"].t,
        I.getattr(meta, "dep_prios").t == env["prios"].t, I.getattr(meta, "dep_lines").t == env["lines"].t,
        I.getattr(meta, "ignore_all").t == env["ignore_all"].t, I.getattr(meta, "trans_dep_hash").t == env["tdh"].t,
        I.getattr(meta, "version_id").t == I.getattr(env["manager"], "version_id").t,
    ]
    return z3.And(conj)


def protocol_targets():
    return [
        Target("proto.write_cache", "mypy.build:write_cache", setup_write_cache,
               ensures=[("meta-only-after-data-in-store", ens_write_cache)], raises=(AssertionError,), overrides=WC_OV, field_types=WC_FT,
               note="the store, get_stat / getmtime, serialization and hashing enter through contracts; every store write may fail"),
    ]


# ------------------------------------------------------------------ the write tails of process_stale_scc*
# One generic iteration of each cache-writing loop is verified from arbitrary locals (the other
# iterations only touch other modules' records: the callee contracts name the records they touch).


def rec(tag):
    def h(I, args, kwargs):
        ev(I, tag, *args)
        return NONE
    return h


def state_write_cache_contract(I, args, kwargs):
    """State.write_cache(): None, or the (meta, meta_file) pair of build.write_cache (target
    proto.write_cache) -- the data record is in the store when a pair is returned"""
    r = I.make(TOpt(TTuple([TObj(C.CacheMeta), TStr()])), "meta_tuple")
    ev(I, "State.write_cache", args[0], r)
    return r


PH_OV = dict(FR.FC_OV)
PH_OV.update({
    "mypy.build:write_cache_meta": rec("write_cache_meta"), "mypy.build:write_cache_meta_ex": rec("write_cache_meta_ex"),
    "mypy.build:BuildManager.commit_module": rec("commit_module"),
    "mypy.build:State.write_cache": state_write_cache_contract,
    "contracts.spec_store:flush_errors_stub": noop,
    "mypy.errors:Errors.file_messages": returns(TSeq(TInt()), "error_tuples"), "mypy.errors:Errors.format_messages": returns(TSeq(TStr()), "formatted"),
    "mypy.errors:Errors.simplify_path": returns(TStr(), "simple_path"),
})

PH_FT = dict(WC_FT)
PH_FT.update({
    ("State", "dependencies"): TSeq(TStr()), ("State", "suppressed"): TSeq(TStr()), ("State", "priorities"): TMap(TStr(), TInt()),
    ("State", "interface_hash"): TBytes(), ("State", "xpath"): TStr(), ("State", "id"): TStr(),
    ("BuildManager", "errors"): TObj(ER.Errors), ("BuildManager", "error_formatter"): TAny(),
    ("Errors", "ignored_files"): TSet(TStr()),
})


def setup_phase2(I):
    id_ = I.make(TStr(), "id")
    graph = I.make(TLDict(TStr(), TObj(B.State)), "graph")
    manager = I.make(TObj(B.BuildManager), "manager")
    tup = I.make(TOpt(TTuple([TObj(C.CacheMeta), TStr()])), "meta_tuple_of_id")
    meta_tuples = SDict([(id_, tup)])
    errors_by_id = I.make(TMap(TStr(), TSeq(TInt())), "errors_by_id")
    return {"args": [], "locals": {"id": id_, "graph": graph, "manager": manager, "meta_tuples": meta_tuples, "errors_by_id": errors_by_id,
                                   "stale": I.make(TSeq(TStr()), "stale"), "scc_result": SList([])},
            "tup": tup, "id": id_, "manager": manager}


def store_events(I):
    return [e for e in I.ctx.events if e[0] in ("write_cache_meta", "write_cache_meta_ex", "commit_module", "State.write_cache")]


def ens_phase2(I, env, res):
    """a module whose data write did not produce a meta pair gets no record at all; otherwise exactly:
    write_cache_meta(meta, manager, meta_file) of ITS pair, then write_cache_meta_ex(meta_file, ...),
    then commit_module(meta_file) -- nothing else touches the store"""
    log = store_events(I)
    tup = env["tup"]
    if tup is NONE:
        return z3.BoolVal(not log)
    meta, mf = tup.items
    shape = [e[0] for e in log] == ["write_cache_meta", "write_cache_meta_ex", "commit_module"]
    if not shape:
        return z3.BoolVal(False)
    m, x, c = log
    return z3.And(z3.BoolVal(m[1] is meta), m[3].t == mf.t, x[1].t == mf.t, c[2].t == mf.t)


def ens_tied(I, env, res):
    """crash consistency: there is no crash point at which the NEW meta record can be durable while
    the meta_ex record is still the OLD one (nothing in either record lets a later run tell)"""
    log = store_events(I)
    names = [e[0] for e in log]
    if "write_cache_meta" not in names:
        return z3.BoolVal(True)
    # a crash point lies after every store operation: between write_cache_meta and the
    # write_cache_meta_ex that follows it the new meta is in the store and the old meta_ex still is
    k = names.index("write_cache_meta")
    return z3.BoolVal("write_cache_meta_ex" in names[:k])


def setup_phase1(I):
    id_ = I.make(TStr(), "id")
    graph = I.make(TLDict(TStr(), TObj(B.State)), "graph")
    manager = I.make(TObj(B.BuildManager), "manager")
    errs = I.make(TObj(ER.Errors), "errors")
    manager.fields["errors"] = errs
    manager.fields["flush_errors"] = SFunc(flush_errors_stub)
    meta_tuples, errors_by_id = SDict([]), SDict([])
    return {"args": [], "locals": {"id": id_, "graph": graph, "manager": manager, "meta_tuples": meta_tuples, "errors_by_id": errors_by_id,
                                   "stale": I.make(TSeq(TStr()), "stale"), "scc_result": SList([])},
            "id": id_, "manager": manager, "meta_tuples": meta_tuples}


def ens_phase1(I, env, res):
    """data phase of one module: the only store operations are State.write_cache() of graph[id] and,
    when it produced a pair, commit_module of that pair's meta file; the pair is what the meta phase
    will find under meta_tuples[id]; no meta / meta_ex record is written in this phase"""
    log = store_events(I)
    if not log or log[0][0] != "State.write_cache":
        return z3.BoolVal(False)
    r = log[0][2]
    mt = env["meta_tuples"]
    stored = [v for k, v in mt.entries if k is env["id"]]
    if len(stored) != 1 or stored[0] is not r:
        return z3.BoolVal(False)
    if r is NONE:
        return z3.BoolVal(len(log) == 1)
    if [e[0] for e in log] != ["State.write_cache", "commit_module"]:
        return z3.BoolVal(False)
    return log[1][2].t == r.items[1].t


def ens_phase2_interface(I, env, res):
    """interface phase (parallel build): write_cache_meta of the module's own pair, then commit"""
    log = store_events(I)
    tup = env["tup"]
    if tup is NONE:
        return z3.BoolVal(not log)
    meta, mf = tup.items
    if [e[0] for e in log] != ["write_cache_meta", "commit_module"]:
        return z3.BoolVal(False)
    m, c = log
    return z3.And(z3.BoolVal(m[1] is meta), m[3].t == mf.t, c[2].t == mf.t)


def setup_impl(I):
    id_, mf = I.make(TStr(), "id"), I.make(TStr(), "meta_file")
    graph = I.make(TLDict(TStr(), TObj(B.State)), "graph")
    manager = I.make(TObj(B.BuildManager), "manager")
    errs = I.make(TObj(ER.Errors), "errors")
    manager.fields["errors"] = errs
    return {"args": [], "locals": {"id": id_, "meta_file": mf, "graph": graph, "manager": manager, "scc_result": SDict([]),
                                   "stale": I.make(TSeq(TStr()), "stale")}, "mf": mf}


def ens_impl(I, env, res):
    """implementation phase: exactly one write_cache_meta_ex for the module, under the meta file name
    the interface phase reported, then its commit -- on every path"""
    log = store_events(I)
    if [e[0] for e in log] != ["write_cache_meta_ex", "commit_module"]:
        return z3.BoolVal(False)
    return z3.And(log[0][1].t == env["mf"].t, log[1][2].t == env["mf"].t)


def classify_site(site):
    return lambda o: site


def phase_targets():
    t = []
    t.append(Target("proto.scc.meta_phase", "mypy.build:process_stale_scc", setup_phase2, loop_body=("for id in stale", "write_cache_meta(meta, manager, meta_file)"),
                    ensures=[("meta-then-meta_ex-then-commit-of-own-pair", ens_phase2), ("meta-and-meta_ex-tied-at-every-crash-point", ens_tied)],
                    raises=(KeyError,), overrides=PH_OV, field_types=PH_FT, classify=classify_site("process_stale_scc:meta-before-meta_ex"), forget_order_facts=True,
                    note="one generic iteration; KeyError allowed: `every dependency is in the graph` is the caller's invariant"))
    t.append(Target("proto.scc.data_phase", "mypy.build:process_stale_scc", setup_phase1, loop_body=("for id in stale", "meta_tuple = graph[id].write_cache()"),
                    ensures=[("only-data-write-and-its-commit", ens_phase1)], raises=(KeyError,), overrides=PH_OV, field_types=PH_FT, forget_order_facts=True,
                    note="one generic iteration of the data-file loop"))
    t.append(Target("proto.scc_interface.data_phase", "mypy.build:process_stale_scc_interface", setup_phase1, loop_body=("for id in stale", "meta_tuple = graph[id].write_cache()"),
                    ensures=[("only-data-write-and-its-commit", ens_phase1)], raises=(KeyError,), overrides=PH_OV, field_types=PH_FT, forget_order_facts=True))
    t.append(Target("proto.scc_interface.meta_phase", "mypy.build:process_stale_scc_interface", setup_phase2, loop_body=("for id in stale", "write_cache_meta(meta, manager, meta_file)"),
                    ensures=[("meta-then-commit-of-own-pair", ens_phase2_interface), ("meta-and-meta_ex-tied-at-every-crash-point", ens_tied)],
                    raises=(KeyError,), overrides=PH_OV, field_types=PH_FT, classify=classify_site("process_stale_scc_interface:meta-committed-before-meta_ex"), forget_order_facts=True))
    t.append(Target("proto.scc_implementation.meta_ex_phase", "mypy.build:process_stale_scc_implementation", setup_impl,
                    loop_body=("for id, meta_file in zip(stale, meta_files)", None),
                    ensures=[("exactly-one-meta_ex-under-the-reported-name", ens_impl)], raises=(KeyError,), overrides=PH_OV, field_types=PH_FT, forget_order_facts=True))
    return t


# ------------------------------------------------------------------ sqlite store: transactional connections


def connect_contract(I, args, kwargs):
    """sqlite3.connect: in the default (legacy) isolation mode a connection opens a transaction
    implicitly before INSERT / DELETE and keeps it until commit(); isolation_level=None or
    autocommit=True would make every statement durable on its own"""
    conn = I.new_object(FakeConn)
    ev(I, "sqlite.connect", list(args), dict(kwargs), conn)
    return conn


def ens_connect(I, env, res):
    """the store's per-module transaction relies on connections that are NOT in autocommit mode"""
    cs = [e for e in I.ctx.events if e[0] == "sqlite.connect"]
    if len(cs) != 1 or res is not cs[0][3]:
        return z3.BoolVal(False)
    kw = cs[0][2]
    conj = [z3.BoolVal(len(cs[0][1]) == 1)]
    if "isolation_level" in kw:
        conj.append(z3.BoolVal(kw["isolation_level"] is not NONE))
    if "autocommit" in kw:
        a = kw["autocommit"]
        conj.append(z3.Not(a.t) if isinstance(a, SBool) else z3.BoolVal(False))
    return z3.And(conj)


def setup_connect(I):
    return {"args": [I.make(TStr(), "db_file"), I.make(TBool(), "set_journal_mode")]}


SQ_OV = {
    "sqlite3.dbapi2:connect": connect_contract, "_sqlite3:connect": connect_contract, "sqlite3:connect": connect_contract,
    "contracts.spec_store:FakeConn.execute": rec("sqlite.execute"), "contracts.spec_store:FakeConn.executescript": rec("sqlite.executescript"),
}


# ---- sharded store: every uncommitted change lies in a shard listed in dirty_shards

from .spec_store import FakeDbList, FakeShardConn  # noqa: E402

NDBS = z3.Int("n_dbs")
UNC0 = z3.Array("uncommitted0", IntS, BoolS)
SHARD = z3.Function("shard_of_name", StrS, IntS)


def unc(I):
    return I.ctx.ghost.get("unc", UNC0)


def dbs_len_contract(I, args, kwargs):
    return SInt(NDBS)


def dbs_getitem_contract(I, args, kwargs):
    i = args[1]
    I.check_or_raise(z3.And(i.t >= -NDBS, i.t < NDBS), IndexError, "list index out of range")
    conn = I.new_object(FakeShardConn)
    conn.fields["shard"] = SInt(z3.If(i.t < 0, i.t + NDBS, i.t))
    return conn


def shard_execute_contract(I, args, kwargs):
    """Connection.execute(INSERT / DELETE): sqlite3.OperationalError and nothing changed, or the change is
    pending in this connection's open transaction"""
    import sqlite3

    conn = args[0]
    if I.ctx.choose(2, "execute") == 1:
        I.raise_exc(sqlite3.OperationalError, "database is locked")
    s_ = conn.fields["shard"].t
    I.ctx.ghost["unc"] = z3.Store(unc(I), s_, z3.BoolVal(True))
    ev(I, "sqlite.execute", conn.fields["shard"], args[1] if len(args) > 1 else None)
    return NONE


def shard_commit_contract(I, args, kwargs):
    conn = args[0]
    s_ = conn.fields["shard"].t
    I.ctx.ghost["unc"] = z3.Store(unc(I), s_, z3.BoolVal(False))
    ev(I, "sqlite.commit", conn.fields["shard"])
    return NONE


def shard_index_contract(I, args, kwargs):
    """_shard_index(name): a function of the name, within range (target store.sqlite.shard_index)"""
    self = args[0]
    n = I.getattr(self, "num_shards").t
    r = SHARD(args[1].t)
    I.ctx.assume(z3.And(r >= 0, r < z3.If(n <= 1, 1, n)))
    return SInt(r)


SH_OV = {
    "contracts.spec_store:FakeDbList.__getitem__": dbs_getitem_contract, "contracts.spec_store:FakeDbList.__len__": dbs_len_contract,
    "contracts.spec_store:FakeShardConn.execute": shard_execute_contract, "contracts.spec_store:FakeShardConn.commit": shard_commit_contract,
    "mypy.metastore:SqliteMetadataStore._shard_index": shard_index_contract,
    "time:time": returns(TFloat(), "now"),
}
SH_FT = {("SqliteMetadataStore", "dbs"): TObj(FakeDbList), ("SqliteMetadataStore", "num_shards"): TInt(), ("SqliteMetadataStore", "dirty_shards"): TSet(TInt()),
         ("FakeShardConn", "shard"): TInt()}


def store_inv(I, self, u=None):
    """representation invariant: no connections (null store) or one per shard; every shard with an
    uncommitted change is listed in dirty_shards; dirty_shards only names existing shards"""
    n = I.getattr(self, "num_shards").t
    dirty = I.getattr(self, "dirty_shards").t
    u = unc(I) if u is None else u
    i = z3.Int("sh_i")
    return z3.And(NDBS >= 0, z3.Or(NDBS == 0, NDBS == z3.If(n <= 1, 1, n)),
                  z3.ForAll([i], z3.Implies(z3.Select(u, i), z3.Select(dirty, i))),
                  z3.ForAll([i], z3.Implies(z3.Select(dirty, i), z3.And(i >= 0, i < NDBS))))


def setup_sq(with_name=True, extra=()):
    def setup(I):
        self = I.make(TObj(MS.SqliteMetadataStore), "store")
        I.ctx.assume(store_inv(I, self, UNC0))
        args = [self]
        env = {"self": self}
        if with_name:
            env["name"] = I.make(TStr(), "name")
            args.append(env["name"])
        for nm, ty in extra:
            env[nm] = I.make(ty, nm)
            args.append(env[nm])
        env["args"] = args
        env["dirty0"] = I.getattr(self, "dirty_shards").t
        return env
    return setup


def ens_sq_write(I, env, res):
    """invariant kept; True => the change is pending in the name's shard and that shard is dirty; a null
    store answers False and does nothing"""
    self = env["self"]
    s_ = SHARD(env["name"].t)
    ex = [e for e in I.ctx.events if e[0] == "sqlite.execute"]
    r = res.t if isinstance(res, SBool) else None
    if r is None:
        return z3.BoolVal(False)
    did = z3.BoolVal(len(ex) == 1) if ex else z3.BoolVal(False)
    on_shard = ex[0][1].t == s_ if ex else z3.BoolVal(True)
    return z3.And(store_inv(I, self), on_shard, z3.Implies(r, z3.And(did, z3.Select(I.getattr(self, "dirty_shards").t, s_))),
                  z3.Implies(NDBS == 0, z3.And(z3.Not(r), z3.BoolVal(not ex))))


def exc_sq_inv(I, env, e):
    return store_inv(I, env["self"])


def ens_sq_remove(I, env, res):
    return store_inv(I, env["self"])


def ens_sq_commit_path(I, env, res):
    """afterwards nothing is pending in the name's shard; other shards are untouched; invariant kept"""
    self = env["self"]
    s_ = SHARD(env["name"].t)
    i = z3.Int("sh_j")
    u1 = unc(I)
    d1 = I.getattr(self, "dirty_shards").t
    frame = z3.ForAll([i], z3.Implies(i != s_, z3.And(z3.Select(u1, i) == z3.Select(UNC0, i), z3.Select(d1, i) == z3.Select(env["dirty0"], i))))
    return z3.And(store_inv(I, self), z3.Not(z3.Select(u1, s_)), frame)


def ens_shard_index(I, env, res):
    n = I.getattr(env["self"], "num_shards").t
    return z3.And(res.t >= 0, res.t < z3.If(n <= 1, 1, n))


def setup_commit_iter(I):
    self = I.make(TObj(MS.SqliteMetadataStore), "store")
    I.ctx.assume(store_inv(I, self, UNC0))
    i = I.make(TInt(), "i")
    I.ctx.assume(z3.Select(I.getattr(self, "dirty_shards").t, i.t))
    return {"args": [], "locals": {"self": self, "i": i}, "self": self, "i": i}


def ens_commit_iter(I, env, res):
    """one dirty shard: its connection is committed (nothing pending there afterwards), no other shard is
    touched, no index error"""
    i = env["i"].t
    j = z3.Int("sh_k")
    u1 = unc(I)
    return z3.And(z3.Not(z3.Select(u1, i)), z3.ForAll([j], z3.Implies(j != i, z3.Select(u1, j) == z3.Select(UNC0, j))))


def sqlite_shard_targets():
    mk = lambda id, fn, **kw: Target(id, "mypy.metastore:SqliteMetadataStore." + fn, field_types=SH_FT, **kw)
    ov_noidx = {k: v for k, v in SH_OV.items() if not k.endswith("_shard_index")}
    return [
        mk("store.sqlite.shard_index", "_shard_index", setup=setup_sq(), ensures=[("within-range", ens_shard_index)], raises=(),
           overrides=dict(ov_noidx, **{"mypy.util:hash_path_stem": returns(TInt(), "stem_hash"), "mypy.metastore:hash_path_stem": returns(TInt(), "stem_hash")})),
        mk("store.sqlite.write", "write", setup=setup_sq(extra=(("data", TBytes()), ("mtime", TOpt(TFloat())))), ensures=[("pending-change-is-in-a-dirty-shard", ens_sq_write)],
           exc_ensures=[("invariant-kept", exc_sq_inv)], raises=(), overrides=SH_OV),
        mk("store.sqlite.remove", "remove", setup=setup_sq(), ensures=[("invariant-kept", ens_sq_remove)], exc_ensures=[("invariant-kept", exc_sq_inv)],
           raises=(FileNotFoundError, __import__("sqlite3").OperationalError), overrides=SH_OV),
        mk("store.sqlite.commit_path", "commit_path", setup=setup_sq(), ensures=[("shard-of-the-name-is-committed", ens_sq_commit_path)], raises=(), overrides=SH_OV),
        mk("store.sqlite.commit.iteration", "commit", setup=setup_commit_iter, loop_body=("for i in self.dirty_shards", None),
           ensures=[("dirty-shard-committed", ens_commit_iter)], raises=(), overrides=SH_OV),
    ]


def sqlite_targets():
    return sqlite_shard_targets() + [
        Target("store.sqlite.connect_db", "mypy.metastore:connect_db", setup_connect, ensures=[("connections-are-transactional", ens_connect)],
               raises=(), overrides=SQ_OV, note="sqlite3 is external: its transaction semantics are the stated contract of connect()"),
    ]


def targets(tier):
    return fs_targets() + sqlite_targets() + protocol_targets() + phase_targets()
