"""stand-ins used by contracts/paths.py"""
from __future__ import annotations


class FakeFsCache:
    def isdir(self, path):
        raise NotImplementedError

    def isfile(self, path):
        raise NotImplementedError
