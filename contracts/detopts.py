"""C10, hash-seed clause for the options snapshot: Options.select_options_affecting_cache turns every
set-valued option into a sorted list before it is hashed into a cache record (static frame check over
the real source, with the set-valued options found by reflection on a live Options object)."""
from __future__ import annotations

import ast
import os

from pyvc.runner import StaticCheck

REPO = os.environ.get("VERIF_REPO", "/repo")


def check_select_options():
    import mypy.options as O

    opts = O.Options()
    unordered = sorted(n for n in O.OPTIONS_AFFECTING_CACHE_NO_PLATFORM if isinstance(getattr(opts, n), (set, frozenset, dict)))
    tree = ast.parse(open(os.path.join(REPO, "mypy/options.py")).read())
    fn = None
    for c in tree.body:
        if isinstance(c, ast.ClassDef) and c.name == "Options":
            fn = next((m for m in c.body if isinstance(m, ast.FunctionDef) and m.name == "select_options_affecting_cache"), None)
    if fn is None:
        return [{"name": "detopts/located", "status": "unknown", "where": "Options.select_options_affecting_cache not found"}]
    # shape: for opt in <LIST>: val = getattr(self, opt); if opt in (<names>): val = sorted(...); result.append(val)
    loops = [n for n in fn.body if isinstance(n, ast.For)]
    obs = []
    if len(loops) != 1 or not isinstance(loops[0].target, ast.Name):
        return [{"name": "detopts/shape", "status": "unknown", "where": "select_options_affecting_cache no longer has the single-loop shape this check understands"}]
    loop = loops[0]
    var = loop.target.id
    sorted_names = set()
    for st in loop.body:
        if isinstance(st, ast.If) and isinstance(st.test, ast.Compare) and isinstance(st.test.left, ast.Name) and st.test.left.id == var \
                and len(st.test.ops) == 1 and isinstance(st.test.ops[0], (ast.In, ast.Eq)):
            comp = st.test.comparators[0]
            names = [e.value for e in comp.elts if isinstance(e, ast.Constant)] if isinstance(comp, (ast.Tuple, ast.List, ast.Set)) else [comp.value] if isinstance(comp, ast.Constant) else []
            assigns = [a for a in st.body if isinstance(a, ast.Assign) and isinstance(a.value, ast.Call) and isinstance(a.value.func, ast.Name) and a.value.func.id == "sorted"]
            if assigns and len(assigns) == len([a for a in st.body if isinstance(a, ast.Assign)]):
                sorted_names.update(names)
    for n in unordered:
        ok = n in sorted_names
        obs.append({"name": f"detopts/unordered-option-sorted-before-hashing/{n}", "status": "discharged" if ok else "refuted",
                    "where": "mypy/options.py Options.select_options_affecting_cache", "detail": "" if ok else f"{n} is a set/dict and enters the snapshot in container order", "key": f"unsorted:{n}"})
    if not obs:
        obs.append({"name": "detopts/no-unordered-option-in-key", "status": "discharged", "where": "OPTIONS_AFFECTING_CACHE", "detail": "no set/dict valued option in the cache key"})
    return obs


# writers that may emit a set in container order, with the reason it cannot reach a result
SET_ORDER_EXEMPT = {
    ("mypy/build.py", "GraphMessage.write"): "coordinator -> worker IPC message: the reader rebuilds a set, the bytes are neither hashed nor stored",
}


def check_writer_set_order():
    from frames import setorder

    seen, found = setorder.scan()
    if seen < 40:
        return [{"name": "set-order/writers-found", "status": "unknown", "where": f"only {seen} writer functions found: layout changed?"}]
    obs = [{"name": "set-order/writers-scanned", "status": "discharged", "where": f"{seen} write/serialize functions in {', '.join(setorder.MODULES)}"}]
    for rel, qual, ln, txt in found:
        if (rel, qual) in SET_ORDER_EXEMPT:
            obs.append({"name": f"set-order/exempt/{qual}", "status": "discharged", "where": f"{rel}:{ln} {txt}", "detail": SET_ORDER_EXEMPT[(rel, qual)]})
            continue
        obs.append({"name": f"set-order/no-container-order-in-writer/{qual}", "status": "refuted", "where": f"{rel}:{ln} {txt}",
                    "detail": "a set-valued expression is emitted in container order: the bytes depend on the hash seed", "key": f"set-order:{qual}:{txt}", "confirmed": True})
    return obs


# diagnostic builders that consume a set order-sensitively, with the reason that order cannot reach the text
DIAG_ORDER_PINNED = {
    ("mypy/errors.py", "IterationDependentErrors.yield_uselessness_error_infos"): "ASSUMED: the yielded infos are re-ordered by line/column before they are printed (Errors.sort_messages); ties on one position are not examined",
    ("mypy/errors.py", "IterationDependentErrors.yield_nonoverlapping_types"): "ASSUMED: as above, consumers sort by position",
    ("mypy/errors.py", "Errors.blocker_module"): "ASSUMED: at most one not-yet-flushed file has blockers when this is asked (the build stops at the first blocking file)",
}


def check_diag_set_order():
    from frames import setorder

    seen, found = setorder.scan_diagnostics()
    if seen < 150:
        return [{"name": "diag-set-order/functions-found", "status": "unknown", "where": f"only {seen} functions found in {setorder.DIAG_MODULES}: layout changed?"}]
    obs = [{"name": "diag-set-order/functions-scanned", "status": "discharged", "where": f"{seen} functions of {', '.join(setorder.DIAG_MODULES)}"}]
    for rel, qual, ln, txt, resorts in found:
        if (rel, qual) in DIAG_ORDER_PINNED:
            obs.append({"name": f"diag-set-order/pinned/{qual}", "status": "discharged", "where": f"{rel}:{ln} {txt}", "detail": DIAG_ORDER_PINNED[(rel, qual)]})
            continue
        if resorts and not txt.startswith("join("):
            obs.append({"name": f"diag-set-order/no-container-order-in-message/{qual}", "status": "unknown", "where": f"{rel}:{ln} {txt}",
                        "detail": "a set is iterated, but the function also sorts: whether the container order reaches the output is not decided syntactically"})
            continue
        obs.append({"name": f"diag-set-order/no-container-order-in-message/{qual}", "status": "refuted", "where": f"{rel}:{ln} {txt}",
                    "detail": "a set is turned into message text (or a sequence of messages) in container order: the diagnostics depend on PYTHONHASHSEED", "key": f"diag-set-order:{qual}:{txt}", "confirmed": True})
    return obs


def set_order_targets():
    return [StaticCheck("writers.no_set_in_container_order", check_writer_set_order,
                        note="syntactic: set-valued attributes / locals (by annotation or construction) consumed order-sensitively inside write / serialize functions")]


def targets(tier):
    return set_order_targets() + [StaticCheck("diagnostics.no_set_in_container_order", check_diag_set_order,
                        note="syntactic: set-valued expressions consumed order-sensitively in mypy/errors.py and mypy/messages.py")] + [StaticCheck("detopts.select_options_affecting_cache", check_select_options,
                        note="set-valued options are found by reflection on Options(); the loop shape is matched syntactically (another shape is reported undecided, not passed)")]
