"""C11: round-trip contracts for the classes of mypy/nodes.py and mypy/errors.py that have a write/read pair."""
from __future__ import annotations

import inspect

import z3

from pyvc.codec_target import CodecTarget
from pyvc.sym import *
from pyvc.types import *
from pyvc.interp import NONE
from .common import *

import mypy.nodes as N
import mypy.types as T
import mypy.errors as E

NESTED_READERS = {"mypy.types:read_type", "mypy.types:read_function_like", "mypy.nodes:read_symbol", "mypy.nodes:read_overload_part"}

NODE_TRANSIENT = {
    "line": "position: not part of the interface", "column": "position", "end_line": "position", "end_column": "position",
}
LOCAL = "analysis-local state, rebuilt or irrelevant after loading (assumption)"

# classes in scope and how they are built
SIMPLE = {
    "DataclassTransformSpec": dict(construct=True),
    "TypeVarExpr": dict(construct=False),
    "ParamSpecExpr": dict(construct=False),
    "TypeVarTupleExpr": dict(construct=False),
    "Decorator": dict(construct=False),
    "Var": dict(construct=False),
    "FuncDef": dict(construct=False),
    "OverloadedFuncDef": dict(construct=False),
    "TypeAlias": dict(construct=False),
    "ClassDef": dict(construct=False),
}

UNVERIFIED = {
    "TypeInfo": "not attempted in this round: ~40 fields, MRO / metaclass / special-alias recomputation in read()",
    "MypyFile": "not attempted: delegates to SymbolTable.write with a prefix and lazy symbol bytes",
    "SymbolTable": "not attempted: writes only symbols that are not module-public cross references; read() keeps lazy bytes",
    "SymbolTableNode": "not attempted: cross-reference decision (fullname != prefix + '.' + name) and lazy node bytes",
    "FileRawData": "not attempted (parser cache, not part of the module interface)",
}

VIEWS = {}
TRANSIENT = {}
FT = {
    ("FuncItem", "arg_names"): TLList(TOpt(TStr())), ("FuncItem", "arg_kinds"): TLList(TObj(N.ArgKind)),
    ("FuncDef", "arg_names"): TLList(TOpt(TStr())), ("FuncDef", "arg_kinds"): TLList(TObj(N.ArgKind)),
    ("FuncDef", "_fullname"): TStr(), ("FuncDef", "_name"): TStr(), ("FuncBase", "_fullname"): TStr(),
    ("OverloadedFuncDef", "items"): TLList(TObj(N.OverloadPart if hasattr(N, "OverloadPart") and isinstance(N.OverloadPart, type) else N.FuncDef)),
    ("OverloadedFuncDef", "impl"): TOpt(TObj(N.FuncDef)), ("OverloadedFuncDef", "_fullname"): TStr(),
    ("OverloadedFuncDef", "deprecated"): TOpt(TStr()), ("OverloadedFuncDef", "setter_index"): TOpt(TInt()),
    ("OverloadedFuncDef", "type"): TOpt(TObj(T.ProperType)),
    ("TypeAlias", "alias_tvars"): TLList(TObj(T.TypeVarLikeType)), ("TypeAlias", "_fullname"): TStr(), ("TypeAlias", "module"): TStr(),
    ("TypeAlias", "target"): TObj(T.Type), ("TypeAlias", "no_args"): TBool(), ("TypeAlias", "normalized"): TBool(),
    ("TypeAlias", "python_3_12_type_alias"): TBool(),
    ("Var", "_fullname"): TStr(), ("Var", "_name"): TStr(), ("Var", "type"): TOpt(TObj(T.Type)), ("Var", "setter_type"): TOpt(TObj(T.CallableType)),
    ("Var", "final_value"): TUnion([TNone(), TInt(), TStr(), TBool(), TFloat()]),
    ("FuncDef", "abstract_status"): TInt(), ("FuncDef", "deprecated"): TOpt(TStr()), ("FuncDef", "dataclass_transform_spec"): TOpt(TObj(N.DataclassTransformSpec)),
    ("FuncDef", "type"): TOpt(TObj(T.ProperType)), ("FuncDef", "original_first_arg"): TOpt(TStr()),
}
for _names, _cls in ((N.VAR_FLAGS, "Var"), (N.FUNCDEF_FLAGS, "FuncDef"), (N.FUNCBASE_FLAGS, "OverloadedFuncDef"), (N.FUNCITEM_FLAGS, "FuncItem")):
    for _n in _names:
        FT.setdefault((_cls, _n), TBool())


def fields_read_by(cls, method):
    """attribute names read as self.<x> in cls.<method> (syntactic)"""
    import ast

    from pyvc.interp import func_node

    st = inspect.getattr_static(cls, method, None)
    fn = st.__func__ if isinstance(st, (classmethod, staticmethod)) else st
    node, mod = func_node(fn)
    out = set()
    if node is None:
        return out
    selfname = node.args.args[0].arg
    for n in ast.walk(node):
        if isinstance(n, ast.Attribute) and isinstance(n.value, ast.Name) and n.value.id == selfname:
            out.add(n.attr)
        if isinstance(n, ast.Call) and isinstance(n.func, ast.Name) and n.func.id == "get_flags" and len(n.args) == 2:
            # flags travel through get_flags(self, <NAMES>): the names are read from the real constant
            try:
                names = eval(compile(ast.Expression(n.args[1]), "<flags>", "eval"), dict(mod.__dict__, **{cls.__name__: cls}))
                out.update(names)
            except Exception:
                pass
    return out


def auto_transient(cls):
    """slots that neither write() nor serialize() mentions: AST / analysis state.  NOT individually
    justified for nodes.py (reported as an assumption); a slot mentioned by only one of the two formats
    is NOT transient and will fail the view obligation."""
    from pyvc.codec_target import all_slots
    from pyvc.interp import instance_fields

    w, s_ = fields_read_by(cls, "write"), fields_read_by(cls, "serialize")
    slots = all_slots(cls) or sorted(instance_fields(cls))
    return {f: "mentioned by neither write() nor serialize(): AST / analysis-local state (not individually justified)" for f in slots if f not in w and f not in s_}


def classes():
    return [getattr(N, n) for n in SIMPLE]


def targets(tier):
    ts = []
    for cls in classes():
        opts = SIMPLE[cls.__name__]
        tr = dict(NODE_TRANSIENT)
        tr.update(auto_transient(cls))
        tr.update(TRANSIENT.get(cls.__name__, {}))
        ts.append(CodecTarget(f"codec.nodes.{cls.__name__}", cls, view=VIEWS.get(cls.__name__), transient=tr, field_types=FT,
                              nested_readers=NESTED_READERS, construct=opts.get("construct", False), requires=opts.get("requires")))
    return ts
