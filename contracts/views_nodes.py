"""C11: round-trip contracts for the classes of mypy/nodes.py and mypy/errors.py that have a write/read pair."""
from __future__ import annotations

import inspect

import z3

from pyvc.codec_target import CodecTarget
from pyvc.sym import *
from pyvc.types import *
from pyvc.interp import NONE
from .common import *

import mypy.nodes as N
import mypy.types as T
import mypy.errors as E

NESTED_READERS = {"mypy.types:read_type", "mypy.types:read_function_like", "mypy.nodes:read_symbol", "mypy.nodes:read_overload_part"}

NODE_TRANSIENT = {
    "line": "position: not part of the interface", "column": "position", "end_line": "position", "end_column": "position",
}
LOCAL = "analysis-local state, rebuilt or irrelevant after loading (assumption)"

def json_pair_overrides():
    """mypy.cache.write_json / read_json are a writer/reader pair over JSON values (recursive on the
    dynamic type of the value); inside class proofs the value travels as ONE token -- the pair's own
    round trip is an ASSUMED contract (reported in the evidence)"""
    def write_json(I, args, kw):
        args[0].put(("json", args[1]))
        return NONE

    def read_json(I, args, kw):
        return args[0].take("json")[1]

    return {"mypy.cache:write_json": write_json, "mypy.cache:read_json": read_json}


# classes in scope and how they are built
SIMPLE = {
    "DataclassTransformSpec": dict(construct=True),
    "TypeVarExpr": dict(construct=False),
    "ParamSpecExpr": dict(construct=False),
    "TypeVarTupleExpr": dict(construct=False),
    "Decorator": dict(construct=False),
    "Var": dict(construct=False),
    "FuncDef": dict(construct=False),
    "OverloadedFuncDef": dict(construct=False),
    "TypeAlias": dict(construct=False),
    "ClassDef": dict(construct=False),
    "TypeInfo": dict(construct=False, extra_overrides=json_pair_overrides),
    "MypyFile": dict(construct=False, read_skips_tag=False),
}

UNVERIFIED = {
    "SymbolTable": "write(): two per-iteration contracts (contracts/symtab.py), not a lock-step round trip: the filtered, sorted write has no lock-step rule; read() is not under contract",
    "FileRawData": "not attempted (parser cache, not part of the module interface)",
}

def mro_names(I, o):
    """[c.fullname for c in o.mro] as the lock-step image of the mro list"""
    cd = I.codec
    coll = cd.as_collection(I.getattr(o, "mro"), None)
    k, elem, n = cd.generic_of(coll)
    return cd.lift(coll, elem, I.getattr(elem, "fullname"))


VIEWS = {
    "TypeInfo": {"_mro_refs": mro_names, "_fullname": lambda I, o: I.getattr(o, "fullname")},
}
TRANSIENT = {
    "MypyFile": {
        "defs": "the AST is not cached: a loaded module is a cache skeleton (names only)", "imports": "same (dependencies travel in CacheMeta)",
        "alias_deps": "fine-grained dependency data, stored in the separate deps cache", "plugin_deps": "same",
        "ignored_lines": "per-parse table, only needed while the module is checked", "skipped_lines": "same", "is_bom": "parser detail",
        "module_refs": "filled during analysis of the module itself", "raw_data": "parser cache", "uses_template_strings": "parser detail",
        "_is_typeshed_file": "memo", "is_cache_skeleton": "set to True by read(): marks the object as loaded from the cache",
    },
    "TypeInfo": {
        "mro": "re-linked by fixup from _mro_refs (the names of the written mro: view slot _mro_refs)",
        "assuming": "subtype-check recursion stack (analysis-local)", "assuming_proper": "same", "inferring": "inference recursion stack (analysis-local)",
        "bad_mro": "set while the class is analysed; a class with a bad MRO has a blocking error and is not cached",
        "has_type_var_tuple_type": "recomputed by add_type_vars() in __init__ from defn.type_vars", "type_var_tuple_prefix": "same", "type_var_tuple_suffix": "same",
        "special_alias": "recomputed from tuple_type / typeddict_type by fixup", "type_object_type": "memo of type_object_type()",
        "typeddict_data": "semantic-analysis deferral state", "default_depends": "semantic-analysis deferral state",
        "is_type_check_only": "read by stubtest only, which does not load modules from the cache (assumption)",
    },
}
FT = {
    ("FuncItem", "arg_names"): TLList(TOpt(TStr())), ("FuncItem", "arg_kinds"): TLList(TObj(N.ArgKind)),
    ("FuncDef", "arg_names"): TLList(TOpt(TStr())), ("FuncDef", "arg_kinds"): TLList(TObj(N.ArgKind)),
    ("FuncDef", "_fullname"): TStr(), ("FuncDef", "_name"): TStr(), ("FuncBase", "_fullname"): TStr(),
    ("OverloadedFuncDef", "items"): TLList(TObj(N.OverloadPart if hasattr(N, "OverloadPart") and isinstance(N.OverloadPart, type) else N.FuncDef)),
    ("OverloadedFuncDef", "impl"): TOpt(TObj(N.FuncDef)), ("OverloadedFuncDef", "_fullname"): TStr(),
    ("OverloadedFuncDef", "deprecated"): TOpt(TStr()), ("OverloadedFuncDef", "setter_index"): TOpt(TInt()),
    ("OverloadedFuncDef", "type"): TOpt(TObj(T.ProperType)),
    ("TypeAlias", "alias_tvars"): TLList(TObj(T.TypeVarLikeType)), ("TypeAlias", "_fullname"): TStr(), ("TypeAlias", "module"): TStr(),
    ("TypeAlias", "target"): TObj(T.Type), ("TypeAlias", "no_args"): TBool(), ("TypeAlias", "normalized"): TBool(),
    ("TypeAlias", "python_3_12_type_alias"): TBool(),
    ("Var", "_fullname"): TStr(), ("Var", "_name"): TStr(), ("Var", "type"): TOpt(TObj(T.Type)), ("Var", "setter_type"): TOpt(TObj(T.CallableType)),
    ("Var", "final_value"): TUnion([TNone(), TInt(), TStr(), TBool(), TFloat()]),
    ("FuncDef", "abstract_status"): TInt(), ("FuncDef", "deprecated"): TOpt(TStr()), ("FuncDef", "dataclass_transform_spec"): TOpt(TObj(N.DataclassTransformSpec)),
    ("FuncDef", "type"): TOpt(TObj(T.ProperType)), ("FuncDef", "original_first_arg"): TOpt(TStr()),
}
for _names, _cls in ((N.VAR_FLAGS, "Var"), (N.FUNCDEF_FLAGS, "FuncDef"), (N.FUNCBASE_FLAGS, "OverloadedFuncDef"), (N.FUNCITEM_FLAGS, "FuncItem")):
    for _n in _names:
        FT.setdefault((_cls, _n), TBool())


def fields_read_by(cls, method):
    """attribute names read as self.<x> in cls.<method> (syntactic)"""
    import ast

    from pyvc.interp import func_node

    st = inspect.getattr_static(cls, method, None)
    fn = st.__func__ if isinstance(st, (classmethod, staticmethod)) else st
    node, mod = func_node(fn)
    out = set()
    if node is None:
        return out
    selfname = node.args.args[0].arg
    for n in ast.walk(node):
        if isinstance(n, ast.Attribute) and isinstance(n.value, ast.Name) and n.value.id == selfname:
            out.add(n.attr)
        if isinstance(n, ast.Call) and isinstance(n.func, ast.Name) and n.func.id == "get_flags" and len(n.args) == 2:
            # flags travel through get_flags(self, <NAMES>): the names are read from the real constant
            try:
                names = eval(compile(ast.Expression(n.args[1]), "<flags>", "eval"), dict(mod.__dict__, **{cls.__name__: cls}))
                out.update(names)
            except Exception:
                pass
    return out


def auto_transient(cls):
    """slots that neither write() nor serialize() mentions: AST / analysis state.  NOT individually
    justified for nodes.py (reported as an assumption); a slot mentioned by only one of the two formats
    is NOT transient and will fail the view obligation."""
    from pyvc.codec_target import all_slots
    from pyvc.interp import instance_fields

    w, s_ = fields_read_by(cls, "write"), fields_read_by(cls, "serialize")
    slots = all_slots(cls) or sorted(instance_fields(cls))
    return {f: "mentioned by neither write() nor serialize(): AST / analysis-local state (not individually justified)" for f in slots if f not in w and f not in s_}


def classes():
    return [getattr(N, n) for n in SIMPLE]


# ------------------------------------------------------------------ SymbolTableNode

SYMBOL_NODE_CLASSES = [N.MypyFile, N.TypeInfo, N.FuncDef, N.OverloadedFuncDef, N.Decorator, N.Var, N.TypeAlias, N.TypeVarExpr, N.ParamSpecExpr, N.TypeVarTupleExpr]


def stn_cross_ref(I, o):
    """the cross reference the writer emits: a module is always referenced; any other node is referenced
    iff its full name is dotted and is not `prefix.name` (it lives elsewhere), except module-level
    __getattr__ results"""
    g = I.ctx.ghost
    node = I.getattr(o, "node_written") if False else o.fields.get("_node")
    env = g["stn_env"]
    prefix, name = env["prefix"], env["name"]
    if isinstance(node, SObj) and node.cands and issubclass(node.cands[0], N.MypyFile):
        return I.getattr(node, "fullname")
    fn = I.getattr(node, "fullname")
    dotted = z3.Contains(fn.t, z3.StringVal("."))
    elsewhere = fn.t != z3.Concat(prefix.t, z3.StringVal("."), name.t)
    getattr_var = z3.BoolVal(False)
    if isinstance(node, SObj) and node.cands and issubclass(node.cands[0], N.Var):
        getattr_var = I.getattr(node, "from_module_getattr").t
    is_ref = z3.And(dotted, elsewhere, z3.Not(getattr_var))
    return SOpt(z3.Not(is_ref), fn)


def stn_node(I, o):
    """eagerly decoded only for a TypeInfo defined here; otherwise left to the lazy decoder / fixup"""
    node = o.fields.get("_node")
    cr = stn_cross_ref(I, o)
    if isinstance(node, SObj) and node.cands and issubclass(node.cands[0], N.TypeInfo) and not issubclass(node.cands[0], N.MypyFile):
        if isinstance(cr, SOpt) and I.ctx.implied(cr.isnone):
            return node
    return NONE


def _stn_case(I, o):
    """('ref' | 'typeinfo' | 'lazy', node) -- which of the reader's three cases this path is in"""
    node = o.fields.get("_node")
    cr = stn_cross_ref(I, o)
    if isinstance(cr, SStr):
        return "ref", node
    if I.ctx.implied(z3.Not(cr.isnone)):
        return "ref", node
    if not I.ctx.implied(cr.isnone):
        return "undetermined", node
    if node.cands and issubclass(node.cands[0], N.TypeInfo):
        return "typeinfo", node
    return "lazy", node


def stn_node_view(I, o):
    case, node = _stn_case(I, o)
    return node if case == "typeinfo" else NONE if case in ("ref", "lazy") else SStr("undetermined")


def stn_bytes_view(I, o):
    from pyvc.codec import SBytesOf

    case, node = _stn_case(I, o)
    if case == "lazy":
        cache = I.ctx.ghost.setdefault("bytes_of", {})
        if id(node) not in cache:
            cache[id(node)] = SBytesOf(node)
        return cache[id(node)]
    return SBytes(z3.Empty(BytesS)) if case in ("ref", "typeinfo") else SStr("undetermined")


def stn_tag_view(I, o):
    from pyvc.codec import class_tag

    case, node = _stn_case(I, o)
    if case == "lazy":
        return SInt(int(class_tag(node.cands[0])))
    return SInt(0) if case in ("ref", "typeinfo") else SStr("undetermined")


def stn_requires(I, env):
    o = env["self"]
    node = I.make(TObj(N.SymbolNode), "node")
    # class invariant: a serialized symbol refers to a concrete, complete node (never a PlaceholderNode)
    node.cands = list(SYMBOL_NODE_CLASSES)
    o.fields["_node"] = node
    o.fields["unfixed"] = SBool(False)  # a symbol being written has been fixed up: .node is ._node
    o.fields["cross_ref"] = NONE
    I.ctx.ghost["stn_env"] = env


def stn_write_args(I, env):
    env["prefix"], env["name"] = I.make(TStr(), "prefix"), I.make(TStr(), "name")
    return [env["prefix"], env["name"]]


def stn_targets():
    ft = dict(FT)
    ft.update({("SymbolTableNode", "kind"): TInt(), ("SymbolTableNode", "module_hidden"): TBool(), ("SymbolTableNode", "module_public"): TBool(),
               ("SymbolTableNode", "implicit"): TBool(), ("SymbolTableNode", "plugin_generated"): TBool(), ("SymbolTableNode", "no_serialize"): TBool(),
               ("MypyFile", "_fullname"): TStr(), ("TypeInfo", "_fullname"): TStr(), ("Decorator", "func"): TObj(N.FuncDef), ("Var", "from_module_getattr"): TBool(),
               ("TypeVarExpr", "_fullname"): TStr(), ("ParamSpecExpr", "_fullname"): TStr(), ("TypeVarTupleExpr", "_fullname"): TStr(),
               ("TypeVarLikeExpr", "_fullname"): TStr()})
    ty = TObj(N.SymbolNode)
    view = {
        "cross_ref": stn_cross_ref,
        "_node": stn_node_view,        # the node itself for a TypeInfo defined here, else None
        "_node_bytes": stn_bytes_view,  # else the extracted bytes of the node's body (decoded lazily by .node)
        "_node_tag": stn_tag_view,      # ... with the node's class tag
    }
    tr = {
        "unfixed": "set by read(): the node still needs fixup", "stored_info": "fixup-local", "no_serialize": "symbols with no_serialize are skipped by SymbolTable.write",
    }
    return [CodecTarget("codec.nodes.SymbolTableNode", N.SymbolTableNode, view=view, transient=tr, field_types=ft, nested_readers=NESTED_READERS,
                        requires=stn_requires, write_args=stn_write_args, read_skips_tag=False,
                        note="the node is a nested object (modular); extract_symbol / ReadBuffer are trusted librt.internal primitives")]


class _FakeNodeFixer:
    """stands for modules_state.node_fixer while the lazy decoder is verified"""


def setup_lazy_node(I):
    from pyvc.codec import Codec, SBytesOf, class_tag
    import mypy.modules_state as MST

    MST.modules_state.node_fixer = _FakeNodeFixer()  # the checker process is forked per target
    I.codec = Codec(I, nested_readers=NESTED_READERS)
    I.codec.root_read_started = True  # every read here is a nested one
    sym = I.make(TObj(N.SymbolTableNode), "sym")
    node = I.make(TObj(N.SymbolNode), "node")
    node.cands = [k for k in SYMBOL_NODE_CLASSES if k not in (N.TypeInfo, N.MypyFile)]
    i = I.ctx.choose(len(node.cands), "node-class")
    node.cands = [node.cands[i]]
    sym.fields.update({"unfixed": SBool(True), "cross_ref": NONE, "_node": NONE, "_node_bytes": SBytesOf(node), "_node_tag": SInt(int(class_tag(node.cands[0]))),
                       "stored_info": NONE})
    return {"args": [sym], "sym": sym, "node": node}


def ens_lazy_node(I, env, res):
    """the lazy decoder returns the node whose extracted bytes the reader kept, and marks the symbol fixed"""
    sym = env["sym"]
    unf = sym.fields.get("unfixed")
    return z3.And(z3.BoolVal(res is env["node"]), z3.BoolVal(sym.fields.get("_node") is env["node"]), z3.Not(unf.t) if isinstance(unf, SBool) else z3.BoolVal(False))


def lazy_node_targets():
    from pyvc.codec import prim_overrides
    from pyvc.target import Target

    ov = prim_overrides()
    for k in SYMBOL_NODE_CLASSES:
        ov[f"mypy.nodes:{k.__name__}.accept"] = noop
    return [Target("codec.nodes.SymbolTableNode.lazy_node", "mypy.nodes:SymbolTableNode.node", setup_lazy_node, ensures=[("decodes-the-extracted-node", ens_lazy_node)],
                   raises=(), overrides=ov, field_types=FT, note="SymbolTableNode.node for a symbol read with lazy bytes; node.accept(node_fixer) (fixup) is a no-op contract")]


def targets(tier):
    ts = []
    for cls in classes():
        opts = SIMPLE[cls.__name__]
        tr = dict(NODE_TRANSIENT)
        tr.update(auto_transient(cls))
        tr.update(TRANSIENT.get(cls.__name__, {}))
        for k in VIEWS.get(cls.__name__, {}):
            tr.pop(k, None)  # a slot with a pinned view is compared, never transient
        ts.append(CodecTarget(f"codec.nodes.{cls.__name__}", cls, view=VIEWS.get(cls.__name__), transient=tr, field_types=FT,
                              nested_readers=NESTED_READERS, construct=opts.get("construct", False), requires=opts.get("requires"),
                              extra_overrides=opts["extra_overrides"]() if opts.get("extra_overrides") else None,
                              read_skips_tag=opts.get("read_skips_tag", True)))
    return ts + stn_targets() + lazy_node_targets()
