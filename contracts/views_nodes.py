"""C11: round-trip contracts for the classes of mypy/nodes.py and mypy/errors.py that have a write/read pair."""
from __future__ import annotations

import inspect

import z3

from pyvc.codec_target import CodecTarget
from pyvc.sym import *
from pyvc.types import *
from pyvc.interp import NONE
from .common import *

import mypy.nodes as N
import mypy.types as T
import mypy.errors as E

NESTED_READERS = {"mypy.types:read_type", "mypy.types:read_function_like", "mypy.nodes:read_symbol", "mypy.nodes:read_overload_part"}

NODE_TRANSIENT = {
    "line": "position: not part of the interface", "column": "position", "end_line": "position", "end_column": "position",
}
LOCAL = "analysis-local state, rebuilt or irrelevant after loading (assumption)"

def json_pair_overrides():
    """mypy.cache.write_json / read_json are a writer/reader pair over JSON values (recursive on the
    dynamic type of the value); inside class proofs the value travels as ONE token -- the pair's own
    round trip is an ASSUMED contract (reported in the evidence)"""
    def write_json(I, args, kw):
        args[0].put(("json", args[1]))
        return NONE

    def read_json(I, args, kw):
        return args[0].take("json")[1]

    return {"mypy.cache:write_json": write_json, "mypy.cache:read_json": read_json}


# classes in scope and how they are built
SIMPLE = {
    "DataclassTransformSpec": dict(construct=True),
    "TypeVarExpr": dict(construct=False),
    "ParamSpecExpr": dict(construct=False),
    "TypeVarTupleExpr": dict(construct=False),
    "Decorator": dict(construct=False),
    "Var": dict(construct=False),
    "FuncDef": dict(construct=False),
    "OverloadedFuncDef": dict(construct=False),
    "TypeAlias": dict(construct=False),
    "ClassDef": dict(construct=False),
    "TypeInfo": dict(construct=False, extra_overrides=json_pair_overrides),
}

UNVERIFIED = {
    "MypyFile": "not attempted: delegates to SymbolTable.write with a prefix and lazy symbol bytes",
    "SymbolTable": "not attempted: writes only symbols that are not module-public cross references; read() keeps lazy bytes",
    "SymbolTableNode": "not attempted: cross-reference decision (fullname != prefix + '.' + name) and lazy node bytes",
    "FileRawData": "not attempted (parser cache, not part of the module interface)",
}

def mro_names(I, o):
    """[c.fullname for c in o.mro] as the lock-step image of the mro list"""
    cd = I.codec
    coll = cd.as_collection(I.getattr(o, "mro"), None)
    k, elem, n = cd.generic_of(coll)
    return cd.lift(coll, elem, I.getattr(elem, "fullname"))


VIEWS = {
    "TypeInfo": {"_mro_refs": mro_names, "_fullname": lambda I, o: I.getattr(o, "fullname")},
}
TRANSIENT = {
    "TypeInfo": {
        "mro": "re-linked by fixup from _mro_refs (the names of the written mro: view slot _mro_refs)",
        "assuming": "subtype-check recursion stack (analysis-local)", "assuming_proper": "same", "inferring": "inference recursion stack (analysis-local)",
        "bad_mro": "set while the class is analysed; a class with a bad MRO has a blocking error and is not cached",
        "has_type_var_tuple_type": "recomputed by add_type_vars() in __init__ from defn.type_vars", "type_var_tuple_prefix": "same", "type_var_tuple_suffix": "same",
        "special_alias": "recomputed from tuple_type / typeddict_type by fixup", "type_object_type": "memo of type_object_type()",
        "typeddict_data": "semantic-analysis deferral state", "default_depends": "semantic-analysis deferral state",
        "is_type_check_only": "read by stubtest only, which does not load modules from the cache (assumption)",
    },
}
FT = {
    ("FuncItem", "arg_names"): TLList(TOpt(TStr())), ("FuncItem", "arg_kinds"): TLList(TObj(N.ArgKind)),
    ("FuncDef", "arg_names"): TLList(TOpt(TStr())), ("FuncDef", "arg_kinds"): TLList(TObj(N.ArgKind)),
    ("FuncDef", "_fullname"): TStr(), ("FuncDef", "_name"): TStr(), ("FuncBase", "_fullname"): TStr(),
    ("OverloadedFuncDef", "items"): TLList(TObj(N.OverloadPart if hasattr(N, "OverloadPart") and isinstance(N.OverloadPart, type) else N.FuncDef)),
    ("OverloadedFuncDef", "impl"): TOpt(TObj(N.FuncDef)), ("OverloadedFuncDef", "_fullname"): TStr(),
    ("OverloadedFuncDef", "deprecated"): TOpt(TStr()), ("OverloadedFuncDef", "setter_index"): TOpt(TInt()),
    ("OverloadedFuncDef", "type"): TOpt(TObj(T.ProperType)),
    ("TypeAlias", "alias_tvars"): TLList(TObj(T.TypeVarLikeType)), ("TypeAlias", "_fullname"): TStr(), ("TypeAlias", "module"): TStr(),
    ("TypeAlias", "target"): TObj(T.Type), ("TypeAlias", "no_args"): TBool(), ("TypeAlias", "normalized"): TBool(),
    ("TypeAlias", "python_3_12_type_alias"): TBool(),
    ("Var", "_fullname"): TStr(), ("Var", "_name"): TStr(), ("Var", "type"): TOpt(TObj(T.Type)), ("Var", "setter_type"): TOpt(TObj(T.CallableType)),
    ("Var", "final_value"): TUnion([TNone(), TInt(), TStr(), TBool(), TFloat()]),
    ("FuncDef", "abstract_status"): TInt(), ("FuncDef", "deprecated"): TOpt(TStr()), ("FuncDef", "dataclass_transform_spec"): TOpt(TObj(N.DataclassTransformSpec)),
    ("FuncDef", "type"): TOpt(TObj(T.ProperType)), ("FuncDef", "original_first_arg"): TOpt(TStr()),
}
for _names, _cls in ((N.VAR_FLAGS, "Var"), (N.FUNCDEF_FLAGS, "FuncDef"), (N.FUNCBASE_FLAGS, "OverloadedFuncDef"), (N.FUNCITEM_FLAGS, "FuncItem")):
    for _n in _names:
        FT.setdefault((_cls, _n), TBool())


def fields_read_by(cls, method):
    """attribute names read as self.<x> in cls.<method> (syntactic)"""
    import ast

    from pyvc.interp import func_node

    st = inspect.getattr_static(cls, method, None)
    fn = st.__func__ if isinstance(st, (classmethod, staticmethod)) else st
    node, mod = func_node(fn)
    out = set()
    if node is None:
        return out
    selfname = node.args.args[0].arg
    for n in ast.walk(node):
        if isinstance(n, ast.Attribute) and isinstance(n.value, ast.Name) and n.value.id == selfname:
            out.add(n.attr)
        if isinstance(n, ast.Call) and isinstance(n.func, ast.Name) and n.func.id == "get_flags" and len(n.args) == 2:
            # flags travel through get_flags(self, <NAMES>): the names are read from the real constant
            try:
                names = eval(compile(ast.Expression(n.args[1]), "<flags>", "eval"), dict(mod.__dict__, **{cls.__name__: cls}))
                out.update(names)
            except Exception:
                pass
    return out


def auto_transient(cls):
    """slots that neither write() nor serialize() mentions: AST / analysis state.  NOT individually
    justified for nodes.py (reported as an assumption); a slot mentioned by only one of the two formats
    is NOT transient and will fail the view obligation."""
    from pyvc.codec_target import all_slots
    from pyvc.interp import instance_fields

    w, s_ = fields_read_by(cls, "write"), fields_read_by(cls, "serialize")
    slots = all_slots(cls) or sorted(instance_fields(cls))
    return {f: "mentioned by neither write() nor serialize(): AST / analysis-local state (not individually justified)" for f in slots if f not in w and f not in s_}


def classes():
    return [getattr(N, n) for n in SIMPLE]


def targets(tier):
    ts = []
    for cls in classes():
        opts = SIMPLE[cls.__name__]
        tr = dict(NODE_TRANSIENT)
        tr.update(auto_transient(cls))
        tr.update(TRANSIENT.get(cls.__name__, {}))
        for k in VIEWS.get(cls.__name__, {}):
            tr.pop(k, None)  # a slot with a pinned view is compared, never transient
        ts.append(CodecTarget(f"codec.nodes.{cls.__name__}", cls, view=VIEWS.get(cls.__name__), transient=tr, field_types=FT,
                              nested_readers=NESTED_READERS, construct=opts.get("construct", False), requires=opts.get("requires"),
                              extra_overrides=opts["extra_overrides"]() if opts.get("extra_overrides") else None))
    return ts
