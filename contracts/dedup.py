"""C13 'each diagnostic is reported exactly once where it applies': Errors.remove_duplicates, one generic
error of the first scan.  An error without a parent is kept exactly when no earlier kept error on its line
has the same (severity, message); its key is then remembered for that line only.  An error with a parent is
always kept by this scan (it goes when its parent goes, second scan).  Nothing but this error's own line is
touched."""
from __future__ import annotations

import z3

from pyvc.interp import NONE
from pyvc.sym import *
from pyvc.target import Target
from pyvc.types import *
from .common import *

from mypy.errors import ErrorInfo

KEY = TTuple([TStr(), TStr()])


def setup(I):
    err = I.make(TObj(ErrorInfo), "err")
    err.cands = [ErrorInfo]
    has_parent = I.ctx.choose(2, "has-parent?")
    err.fields["parent_error"] = I.new_object(ErrorInfo) if has_parent else NONE
    err.fields["line"] = I.make(TInt(), "line")
    err.fields["severity"] = I.make(TStr(), "severity")
    err.fields["message"] = I.make(TStr(), "message")
    seen = I.make(TMap(TInt(), TSet(KEY), default=True), "seen_by_line")
    kept, removed = SList([]), SSet([])
    return {"args": [], "locals": {"err": err, "seen_by_line": seen, "filtered_errors": kept, "removed": removed, "self": I.make(TAny(), "self")},
            "err": err, "seen": seen, "seen0": seen.t, "kept": kept, "removed": removed, "has_parent": has_parent}


def ens(I, env, res):
    err = env["err"]
    ty = TMap(TInt(), TSet(KEY), default=True)
    s, mk, accs = ty.parts()
    ks, kmk, _ = KEY.parts()
    key = kmk(err.fields["severity"].t, err.fields["message"].t)
    line = err.fields["line"].t
    before = z3.If(z3.Select(accs[0](env["seen0"]), line), z3.Select(accs[1](env["seen0"]), line), z3.K(ks, z3.BoolVal(False)))
    was_seen = z3.Select(before, key)
    kept = len(env["kept"].items) == 1 and env["kept"].items[0] is err
    removed = any(x is err for x in env["removed"].items)
    seen1 = env["seen"].t
    after = z3.Select(accs[1](seen1), line)
    if env["has_parent"]:
        return z3.BoolVal(kept and not removed)
    if kept and not removed:
        return z3.And(z3.Not(was_seen), z3.Select(after, key))
    if removed and not env["kept"].items:
        return was_seen
    return z3.BoolVal(False)


def targets(tier):
    return [Target("errors.remove_duplicates.iteration", "mypy.errors:Errors.remove_duplicates", setup, loop_body=("for err in errors", None),
                   ensures=[("kept-iff-first-of-its-kind-on-its-line", ens)], raises=(), overrides={}, field_types={},
                   note="one generic error of the first scan; ErrorInfo identity is object identity")]
