"""C16 'the daemon survives client faults ... once the daemon has exited no status file naming it
remains': exceptional postcondition and status-file obligation on dmypy_server.Server.serve, and the
unknown-command clause on Server.run_command."""
from __future__ import annotations

import z3

from pyvc.interp import NONE, LoopSpec, PyExc
from pyvc.sym import *
from pyvc.target import Target
from pyvc.types import *
from .common import *
from . import spec_ipc as SP

import mypy.dmypy_server as DS
import mypy.ipc as IPC

JSONVAL = TUnion([TStr(), TInt(), TNone()])
REQUEST = TLDict(TStr(), JSONVAL)

FIELD_TYPES = {
    ("Server", "status_file"): TStr(),
    ("Server", "timeout"): TOpt(TInt()),
}


def origin(e: PyExc):
    return (e.obj.ghost.get("origin") if e.obj is not None else None) or "code"


def raising(I, cls, origin_tag, msg=""):
    o = I.new_object(cls)
    o.fields["args"] = STuple([SStr(msg)])
    o.ghost["origin"] = origin_tag
    raise PyExc(cls, o, msg, origin_tag)


def ipcserver_new(I, args, kwargs):
    return I.make(TObj(IPC.IPCServer), "server")


def server_enter(I, args, kwargs):
    """IPCServer.__enter__: accepts a connection, or raises IPCException when the idle timeout expires
    (the designed way for an idle daemon to exit)"""
    if I.ctx.choose(2, "accept") == 1:
        raising(I, IPC.IPCException, "accept-timeout", "The socket timed out")
    I.ctx.events.append(("accept",))
    return args[0]


def receive_contract(I, args, kwargs):
    """dmypy_util.receive: a request dict, or OSError when the peer closed early / sent something that
    is not a JSON object (its documented contract; proved for the JSON part by target util.receive)"""
    if I.ctx.choose(2, "receive") == 1:
        raising(I, OSError, "client-fault:receive", "No data received / not valid JSON")
    return I.make(REQUEST, "request")


def send_contract(I, args, kwargs):
    """dmypy_util.send: delivers, or OSError when the client has hung up"""
    I.ctx.events.append(("send",))
    if I.ctx.choose(2, "send") == 1:
        raising(I, OSError, "client-fault:send", "client hung up")
    return NONE


def run_command_contract(I, args, kwargs):
    """Server.run_command as seen by serve: returns a response dict; may fail with an exception (a
    daemon bug: reported as 'Daemon crashed' and re-raised by design); a command may also end the
    process through sys.exit (SystemExit).  cmd_stop removes the status file before returning."""
    self, command, data = args
    is_stop = I.ctx.branch(I.eq(command, SStr("stop")))
    if is_stop:
        # cmd_stop: `os.unlink(self.status_file)` is its first and only effect.  ASSUMPTION: removing
        # the daemon's own status file succeeds (or the file is already gone)
        I.ctx.events.append(("unlink", "cmd_stop"))
        if I.ctx.choose(2, "run_command") == 1:
            I.ctx.events.append(("daemon-bug",))
            raising(I, RuntimeError, "daemon-bug:run_command", "crash inside a command")
        return SDict([])
    k = I.ctx.choose(3, "run_command")
    if k == 1:
        I.ctx.events.append(("daemon-bug",))
        raising(I, RuntimeError, "daemon-bug:run_command", "crash inside a command")
    if k == 2:
        raising(I, SystemExit, "sys.exit-in-command", "sys.exit")
    return SDict([])


def unlink_contract(I, args, kwargs):
    I.ctx.events.append(("unlink", "serve-finally"))
    return NONE


def cleanup_contract(I, args, kwargs):
    if I.ctx.choose(2, "cleanup") == 1:
        raising(I, OSError, "cleanup", "rmtree failed")
    return NONE


def open_contract(I, args, kwargs):
    return I.instantiate(SP.FakeFile, [], {})


def fmt_exc(I, args, kwargs):
    return SList([SStr(I.ctx.fresh("traceback_text", StrS))])


OVERRIDES = {
    "mypy.ipc:IPCServer": ipcserver_new,
    "mypy.ipc:IPCServer.__enter__": server_enter,
    "mypy.ipc:IPCServer.__exit__": returns(TNone()),
    "mypy.ipc:IPCServer.connection_name": returns(TStr(), "connection_name"),
    "mypy.ipc:IPCServer.cleanup": cleanup_contract,
    "mypy.dmypy_util:receive": receive_contract,
    "mypy.dmypy_util:send": send_contract,
    "mypy.dmypy_server:Server.run_command": run_command_contract,
    "mypy.dmypy_server:Server._response_metadata": lambda I, a, k: SDict([]),
    "mypy.typestate:reset_global_state": noop,
    "_io:open": open_contract,
    "io:open": open_contract,
    "open": open_contract,
    "json:dump": noop,
    "posix:getpid": returns(TInt(), "pid"),
    "nt:getpid": returns(TInt(), "pid"),
    "getpid": returns(TInt(), "pid"),
    "posix:unlink": unlink_contract,
    "unlink": unlink_contract,
    "traceback:format_exception": fmt_exc,
    "traceback:print_exception": noop,
    "TextIOWrapper.isatty": returns(TBool(), "isatty", native_real=True),
    "isatty": returns(TBool(), "isatty", native_real=True),
}


def setup_serve(I):
    self = I.make(TObj(DS.Server), "self")
    return {"args": [self], "self": self}


def serve_inv(I, env):
    """while serving, the status file written at start-up is still there"""
    cmd = env.get("command")
    not_stop = z3.BoolVal(True)
    if isinstance(cmd, SStr):
        not_stop = cmd.t != z3.StringVal("stop")
    return z3.And(z3.BoolVal(not any(e[0] == "unlink" for e in I.ctx.events)), not_stop)


def exc_only_by_design(I, env, e):
    """an exception leaves serve() only (a) as SystemExit after a clean `stop`, or out of a command
    that called sys.exit, (b) as the idle timeout of accept, (c) as a daemon bug inside a command
    (reported to the client first).  A client fault (early close, malformed frame, hang-up before the
    reply) never ends the daemon."""
    org = origin(e)
    I.ctx.path_info = dict(I.ctx.path_info or {}, origin=org, exc=e.cls.__name__)
    crashing = any(ev[0] == "daemon-bug" for ev in I.ctx.events)
    return z3.BoolVal(crashing or not org.startswith("client-fault"))


def status_file_removed(I, env, e):
    """on every way out of serve() the status file has been removed (by cmd_stop or by the finally block)"""
    return z3.BoolVal(any(ev[0] == "unlink" for ev in I.ctx.events))


def classify_serve(ob):
    d = ob.get("detail") or {}
    return f"{d.get('origin')}"


def setup_run_command(I):
    self = I.make(TObj(DS.Server), "self")
    command = I.make(TStr(), "command")
    data = I.make(REQUEST, "data")
    # requires: not one of the daemon's commands
    for attr in dir(DS.Server):
        if attr.startswith("cmd_"):
            I.ctx.assume(command.t != z3.StringVal(attr[4:]))
    return {"args": [self, command, data], "command": command}


def ens_unknown_command(I, env, res):
    """an unknown command is answered with an error response, whatever else the request contains"""
    if not isinstance(res, SDict):
        return z3.BoolVal(False)
    return z3.BoolVal(any(concrete_str(k.t) == "error" for k, _ in res.entries if isinstance(k, SStr)))


def read_contract(I, args, kwargs):
    """IPCBase.read = read_bytes(...).decode('utf-8'): a str, OSError from the socket, or
    UnicodeDecodeError for a frame that is not valid UTF-8"""
    k = I.ctx.choose(3, "read")
    if k == 1:
        raising(I, ConnectionResetError, "socket", "recv failed")
    if k == 2:
        raising(I, UnicodeDecodeError, "decode", "invalid utf-8")
    return I.make(TStr(), "frame_text")


def json_loads_contract(I, args, kwargs):
    """json.loads: any JSON value, or ValueError (JSONDecodeError) / RecursionError for bad input"""
    k = I.ctx.choose(4, "json.loads")
    if k == 1:
        raising(I, ValueError, "json", "not JSON")
    if k == 2:
        raising(I, RecursionError, "json", "too deeply nested")
    if k == 3:
        return I.make(REQUEST, "parsed_request")
    return I.make(TUnion([TStr(), TInt(), TNone()]), "parsed_scalar")


def setup_receive(I):
    conn = I.make(TObj(IPC.IPCBase), "connection")
    return {"args": [conn]}


def ens_receive(I, env, res):
    return z3.BoolVal(isinstance(res, (LDict, SDict)))


def setup_run_known(I):
    self = I.make(TObj(DS.Server), "self")
    data = I.make(REQUEST, "data")
    return {"args": [self, SStr("status"), data]}


def classify_run_known(ob):
    return "request-shape:" + (ob.get("name") or "")


def targets(tier):
    loops = {"while True": LoopSpec(inv=serve_inv, havoc_types={"command": TUnion([TNone(), TStr(), TInt()]), "data": REQUEST, "resp": TConst(SDict([]))})}
    return [
        Target("serve.loop", "mypy.dmypy_server:Server.serve", setup_serve, ensures=[("never-returns-normally", lambda I, env, r: z3.BoolVal(False))],
               raises=(BaseException,), exc_ensures=[("client-faults-never-end-the-daemon", exc_only_by_design), ("status-file-removed-on-every-exit", status_file_removed)],
               overrides=OVERRIDES, field_types=FIELD_TYPES, loops=loops, classify=classify_serve,
               note="receive / send / run_command / IPCServer / os.unlink enter through contracts with ghost origins; one arbitrary iteration of the serve loop"),
        Target("util.receive", "mypy.dmypy_util:receive", setup_receive, ensures=[("returns-a-dict", ens_receive)], raises=(OSError,),
               overrides={"mypy.ipc:IPCBase.read": read_contract, "json:loads": json_loads_contract, "loads": json_loads_contract},
               field_types=FIELD_TYPES, note="IPCBase.read and json.loads enter through contracts"),
        Target("serve.run_command.request_shape", "mypy.dmypy_server:Server.run_command", setup_run_known,
               ensures=[], raises=(), field_types=FIELD_TYPES, cut_at="ret = method(self, **data)", classify=classify_run_known,
               note="a known command (status) with an arbitrary request dict, up to the call of the command method"),
        Target("serve.run_command.unknown", "mypy.dmypy_server:Server.run_command", setup_run_command,
               ensures=[("unknown-command-gets-an-error-response", ens_unknown_command)], raises=(), field_types=FIELD_TYPES),
    ]
