"""Executable lemmas and test doubles for mypy/ipc.py, run symbolically by pyvc on the REAL methods."""


class FakeConnection:
    """socket stand-in: sendall appends to `wire`; recv is replaced by a contract in the proofs"""

    def __init__(self):
        self.wire = bytearray()

    def sendall(self, data):
        self.wire.extend(data)

    def recv(self, size):
        raise NotImplementedError  # replaced by a contract in the proofs


def roundtrip(conn, data, rest):
    """what write_bytes puts on the wire, followed by arbitrary further bytes, is split by
    frame_from_buffer into exactly `data` and the remainder (conn is a real IPCBase)"""
    conn.connection = FakeConnection()
    conn.buffer = bytearray()
    conn.message_size = None
    conn.write_bytes(data)
    conn.buffer.extend(conn.connection.wire)
    conn.buffer.extend(rest)
    got = conn.frame_from_buffer()
    return got, bytes(conn.buffer), conn.message_size


class FakeFile:
    def __enter__(self):
        return self

    def __exit__(self, a, b, c):
        return None

    def write(self, s):
        return 0
