"""C15, build-flag frame: what is proved about the C sources holds for the shipped binary only if the C
compiler is asked for standard-conforming floating-point and integer semantics.  Every string constant
that mypyc/build.py can pass as a compiler flag is collected from the source; none of them may be a flag
that licenses value-changing transformations (non-IEEE arithmetic, wrapping signed overflow assumptions)."""
from __future__ import annotations

import ast
import os

from pyvc.runner import StaticCheck

REPO = os.environ.get("VERIF_REPO", "/repo")

FORBIDDEN = {
    "-ffast-math": "implies all of the flags below",
    "-Ofast": "implies -ffast-math",
    "-ffinite-math-only": "the compiler may assume no NaN / infinity: isnan / isinf checks and inf arithmetic in float_ops.c are folded away",
    "-funsafe-math-optimizations": "reassociation and reciprocal approximations change results",
    "-fassociative-math": "reassociation changes rounding",
    "-freciprocal-math": "x / y computed as x * (1 / y)",
    "-fno-signed-zeros": "the sign of zero is observable (copysign, atan2, repr)",
    "-fno-trapping-math": "with the others enables value-changing speculation",
    "-fno-rounding-math": "harmless default, listed for completeness only when combined",
    "/fp:fast": "MSVC equivalent of -ffast-math",
    "-fwrapv-pointer": "changes pointer overflow semantics",
    "-fstrict-overflow": "harmless default spelled explicitly",
}
REALLY_FORBIDDEN = {k for k in FORBIDDEN if k not in ("-fno-rounding-math", "-fstrict-overflow")}


def check_cflags():
    p = os.path.join(REPO, "mypyc/build.py")
    tree = ast.parse(open(p).read())
    fn = next((n for n in ast.walk(tree) if isinstance(n, ast.FunctionDef) and n.name == "get_cflags"), None)
    if fn is None:
        return [{"name": "cflags/located", "status": "unknown", "where": "mypyc/build.py get_cflags not found"}]
    flags = sorted({n.value for n in ast.walk(fn) if isinstance(n, ast.Constant) and isinstance(n.value, str) and (n.value.startswith("-") or n.value.startswith("/")) and " " not in n.value})
    if len(flags) < 3:
        return [{"name": "cflags/collected", "status": "unknown", "where": f"only {flags} found"}]
    obs = [{"name": "cflags/collected", "status": "discharged", "where": f"{len(flags)} flag constants in get_cflags", "detail": " ".join(flags)}]
    for f in flags:
        bad = f in REALLY_FORBIDDEN
        obs.append({"name": f"cflags/value-preserving/{f}", "status": "refuted" if bad else "discharged", "where": "mypyc/build.py get_cflags",
                    "detail": FORBIDDEN.get(f, ""), "key": f"cflag:{f}", "confirmed": True})
    return obs


def targets(tier):
    return [StaticCheck("build.cflags_value_preserving", check_cflags, note="string constants of mypyc.build.get_cflags against a list of value-changing compiler flags")]
