"""C18 (path -> module half): contracts on mypy/find_sources.py.

The relation 'directory `dir` is package `mod` below base directory `base`' is the least relation
closed under two rules (R0, R1 below).  It enters the proofs as an uninterpreted predicate PKG of
which only rule instances are ever assumed, so a proved `PKG(base, dir, mod)` has a derivation:
  R0  PKG(d, d, "")
  R1  PKG(b, parent, m), split(dir) = (parent, raw), n = raw without a '-stubs' suffix,
      n.isidentifier(), (dir has an __init__ file or namespace packages are on),
      dir is not an explicit package base (when explicit bases are in use)
      ==> PKG(b, dir, m + '.' + n   (or n when m is empty))
The file system (isfile / package roots) and os.path.split / abspath are arbitrary functions."""
from __future__ import annotations

import z3

from pyvc.interp import NONE, PyExc
from pyvc.sym import *
from pyvc.target import Target
from pyvc.types import *
from .common import *

import mypy.find_sources as FS

PKG = z3.Function("PKG", StrS, StrS, StrS, BoolS)
SPLIT_P = z3.Function("os_split_parent", StrS, StrS)
SPLIT_N = z3.Function("os_split_name", StrS, StrS)
ABS = z3.Function("os_abspath", StrS, StrS)
HAS_INIT = z3.Function("has_init_file", StrS, BoolS)
EXPLICIT = z3.Function("is_explicit_base", StrS, BoolS)
IDENT = z3.Function("py_str_isidentifier", StrS, BoolS)
STUBS = z3.StringVal("-stubs")


def strip_stubs(n):
    return z3.If(z3.And(z3.SuffixOf(STUBS, n), z3.Length(STUBS) > 0), z3.SubString(n, 0, z3.Length(n) - z3.Length(STUBS)), n)


def mjoin(m, n):
    return z3.If(z3.Length(m) > 0, z3.Concat(m, z3.StringVal("."), n), n)


def r1_instance(ns, b, m, d, no_bases=z3.BoolVal(False)):
    """rule R1 instantiated at directory d with parent derivation (b, m); a directory that is an
    explicit package base is never crawled through ('until the nearest explicit base directory')"""
    raw = SPLIT_N(d)
    n = strip_stubs(raw)
    pre = z3.And(PKG(b, SPLIT_P(d), m), IDENT(n), z3.Or(HAS_INIT(d), ns), z3.Or(no_bases, z3.Not(EXPLICIT(d))))
    return z3.Implies(pre, PKG(b, d, mjoin(m, n)))


def split_contract(I, args, kwargs):
    p = args[0].t
    return STuple([SStr(SPLIT_P(p)), SStr(SPLIT_N(p))])


def init_file_contract(I, args, kwargs):
    """get_init_file(dir): some file name, or None; None exactly when the directory has no __init__"""
    d = args[1].t
    if I.ctx.choose(2, "init-file") == 0:
        I.ctx.assume(z3.Not(HAS_INIT(d)))
        return NONE
    I.ctx.assume(HAS_INIT(d))
    return I.make(TStr(), "init_file")


def explicit_contract(I, args, kwargs):
    return SBool(EXPLICIT(args[1].t))


def helper_rec_contract(I, args, kwargs):
    """_crawl_up_helper(dir) at a recursive call: None, or (mod, base) with PKG(base, dir, mod)"""
    d = args[1].t
    if I.ctx.choose(2, "helper-rec") == 0:
        return NONE
    mod, base = I.make(TStr(), "mod_p"), I.make(TStr(), "base_p")
    I.ctx.assume(PKG(base.t, d, mod.t))
    I.ctx.ghost.setdefault("derived", []).append((base.t, d, mod.t))
    return STuple([mod, base])


def crawl_up_dir_contract(I, args, kwargs):
    """crawl_up_dir(dir): always a pair (mod, base) with PKG(base, dir, mod)"""
    d = args[1].t
    mod, base = I.make(TStr(), "mod_d"), I.make(TStr(), "base_d")
    I.ctx.assume(PKG(base.t, d, mod.t))
    I.ctx.ghost.setdefault("derived", []).append((base.t, d, mod.t))
    return STuple([mod, base])


FT = {
    ("SourceFinder", "explicit_package_bases"): TOpt(TSeq(TStr())), ("SourceFinder", "namespace_packages"): TBool(),
    ("SourceFinder", "fscache"): TAny(), ("SourceFinder", "verbosity"): TInt(),
}

OV = {
    "posixpath:split": split_contract, "posixpath:abspath": lambda I, a, k: SStr(ABS(a[0].t)),
    "posixpath:basename": lambda I, a, k: SStr(SPLIT_N(a[0].t)),
    "mypy.find_sources:SourceFinder.get_init_file": init_file_contract,
    "mypy.find_sources:SourceFinder.is_explicit_package_base": explicit_contract,
}


def setup_helper(I):
    self = I.make(TObj(FS.SourceFinder), "self")
    d = I.make(TStr(), "dir")
    return {"args": [self, d], "self": self, "dir": d}


def rules(I, env, d):
    """the rule instances available to the proof: R0 at every directory mentioned, R1 at `d` for every
    derivation obtained from a callee contract (and for the R0 derivation of the parent)"""
    ns = I.getattr(env["self"], "namespace_packages").t
    nb = isnone(I.getattr(env["self"], "explicit_package_bases"))
    par = SPLIT_P(d)
    insts = [PKG(d, d, z3.StringVal("")), PKG(par, par, z3.StringVal(""))]
    for (b, dd, m) in I.ctx.ghost.get("derived", []):
        insts.append(r1_instance(ns, b, m, d, nb))
    insts.append(r1_instance(ns, par, z3.StringVal(""), d, nb))
    return insts


def ens_helper(I, env, res):
    """a non-None result (mod, base) is derivable: `dir` is package `mod` below `base`"""
    if res is NONE:
        return z3.BoolVal(True)
    mod, base = res.items
    d = env["dir"].t
    return z3.Implies(z3.And(rules(I, env, d)), PKG(base.t, d, mod.t))


def ens_crawl_up_dir(I, env, res):
    mod, base = res.items
    d = env["dir"].t
    return z3.Implies(z3.And(rules(I, env, d)), PKG(base.t, d, mod.t))


def setup_crawl_up(I):
    self = I.make(TObj(FS.SourceFinder), "self")
    p = I.make(TStr(), "path")
    return {"args": [self, p], "self": self, "path": p}


def ens_crawl_up(I, env, res):
    """crawl_up(path) = (module, base): the file's directory is package P below base with
    module = P for an __init__ file and P.stem otherwise (stem = file name without .py / .pyi)"""
    mod, base = res.items
    ap = ABS(env["path"].t)
    parent, fname = SPLIT_P(ap), SPLIT_N(ap)
    stem = z3.If(z3.SuffixOf(z3.StringVal(".pyi"), fname), z3.SubString(fname, 0, z3.Length(fname) - 4),
                 z3.If(z3.SuffixOf(z3.StringVal(".py"), fname), z3.SubString(fname, 0, z3.Length(fname) - 3), fname))
    stem = z3.If(z3.Length(stem) > 0, stem, fname)
    der = I.ctx.ghost.get("derived", [])
    if len(der) != 1:
        return z3.BoolVal(False)
    b, dd, pm = der[0]
    return z3.And(dd == parent, base.t == b, mod.t == z3.If(stem == z3.StringVal("__init__"), pm, mjoin(pm, stem)))


def ens_module_join(I, env, res):
    p, c = env["args"]
    return res.t == mjoin(p.t, c.t)


def ens_strip_py(I, env, res):
    a = env["args"][0].t
    pyi, py = z3.StringVal(".pyi"), z3.StringVal(".py")
    r = I.unopt(res)
    if r is NONE:
        return z3.And(z3.Not(z3.SuffixOf(pyi, a)), z3.Not(z3.SuffixOf(py, a)))
    return z3.Or(z3.And(z3.SuffixOf(pyi, a), z3.Concat(r.t, pyi) == a), z3.And(z3.Not(z3.SuffixOf(pyi, a)), z3.SuffixOf(py, a), z3.Concat(r.t, py) == a))


def targets(tier):
    rec = {"mypy.find_sources:SourceFinder._crawl_up_helper@rec": helper_rec_contract, "mypy.find_sources:SourceFinder.crawl_up_dir": crawl_up_dir_contract}
    return [
        Target("paths.module_join", "mypy.find_sources:module_join", lambda I: {"args": [I.make(TStr(), "parent"), I.make(TStr(), "child")]},
               ensures=[("dotted-join", ens_module_join)], raises=()),
        Target("paths.strip_py", "mypy.find_sources:strip_py", lambda I: {"args": [I.make(TStr(), "arg")]}, ensures=[("suffix-stripped", ens_strip_py)], raises=()),
        Target("paths.crawl_up_helper", "mypy.find_sources:SourceFinder._crawl_up_helper", setup_helper, ensures=[("result-is-derivable-package", ens_helper)],
               raises=(FS.InvalidSourceList, AssertionError), overrides=dict(OV, **rec), field_types=FT,
               note="recursive calls and crawl_up_dir enter through their contracts (induction); InvalidSourceList is the specified answer for an __init__ file in a directory whose name is not an identifier"),
        Target("paths.crawl_up_dir", "mypy.find_sources:SourceFinder.crawl_up_dir", setup_helper, ensures=[("always-a-derivable-package", ens_crawl_up_dir)],
               raises=(FS.InvalidSourceList, AssertionError), overrides=dict(OV, **{"mypy.find_sources:SourceFinder._crawl_up_helper": helper_rec_contract}), field_types=FT),
        Target("paths.crawl_up", "mypy.find_sources:SourceFinder.crawl_up", setup_crawl_up, ensures=[("module-is-package-plus-stem", ens_crawl_up)],
               raises=(FS.InvalidSourceList, AssertionError), overrides=dict(OV, **{"mypy.find_sources:SourceFinder.crawl_up_dir": crawl_up_dir_contract}), field_types=FT),
    ]
