"""C18 (path -> module half): contracts on mypy/find_sources.py.

The relation 'directory `dir` is package `mod` below base directory `base`' is the least relation
closed under two rules (R0, R1 below).  It enters the proofs as an uninterpreted predicate PKG of
which only rule instances are ever assumed, so a proved `PKG(base, dir, mod)` has a derivation:
  R0  PKG(d, d, "")
  R1  PKG(b, parent, m), split(dir) = (parent, raw), n = raw without a '-stubs' suffix,
      n.isidentifier(), (dir has an __init__ file or namespace packages are on),
      dir is not an explicit package base (when explicit bases are in use)
      ==> PKG(b, dir, m + '.' + n   (or n when m is empty))
The file system (isfile / package roots) and os.path.split / abspath are arbitrary functions."""
from __future__ import annotations

import z3

from pyvc.interp import NONE, PyExc
from pyvc.sym import *
from pyvc.target import Target
from pyvc.types import *
from .common import *

import mypy.find_sources as FS
from .spec_paths import FakeFsCache

PKG = z3.Function("PKG", StrS, StrS, StrS, BoolS)
SPLIT_P = z3.Function("os_split_parent", StrS, StrS)
SPLIT_N = z3.Function("os_split_name", StrS, StrS)
ABS = z3.Function("os_abspath", StrS, StrS)
HAS_INIT = z3.Function("has_init_file", StrS, BoolS)
EXPLICIT = z3.Function("is_explicit_base", StrS, BoolS)
IDENT = z3.Function("py_str_isidentifier", StrS, BoolS)
STUBS = z3.StringVal("-stubs")


def strip_stubs(n):
    return z3.If(z3.And(z3.SuffixOf(STUBS, n), z3.Length(STUBS) > 0), z3.SubString(n, 0, z3.Length(n) - z3.Length(STUBS)), n)


def mjoin(m, n):
    return z3.If(z3.Length(m) > 0, z3.Concat(m, z3.StringVal("."), n), n)


def r1_instance(ns, b, m, d, no_bases=z3.BoolVal(False)):
    """rule R1 instantiated at directory d with parent derivation (b, m); a directory that is an
    explicit package base is never crawled through ('until the nearest explicit base directory')"""
    raw = SPLIT_N(d)
    n = strip_stubs(raw)
    pre = z3.And(PKG(b, SPLIT_P(d), m), IDENT(n), z3.Or(HAS_INIT(d), ns), z3.Or(no_bases, z3.Not(EXPLICIT(d))))
    return z3.Implies(pre, PKG(b, d, mjoin(m, n)))


def split_contract(I, args, kwargs):
    p = args[0].t
    return STuple([SStr(SPLIT_P(p)), SStr(SPLIT_N(p))])


def init_file_contract(I, args, kwargs):
    """get_init_file(dir): some file name, or None; None exactly when the directory has no __init__"""
    d = args[1].t
    if I.ctx.choose(2, "init-file") == 0:
        I.ctx.assume(z3.Not(HAS_INIT(d)))
        return NONE
    I.ctx.assume(HAS_INIT(d))
    return I.make(TStr(), "init_file")


def explicit_contract(I, args, kwargs):
    return SBool(EXPLICIT(args[1].t))


def helper_rec_contract(I, args, kwargs):
    """_crawl_up_helper(dir) at a recursive call: None, or (mod, base) with PKG(base, dir, mod)"""
    d = args[1].t
    if I.ctx.choose(2, "helper-rec") == 0:
        return NONE
    mod, base = I.make(TStr(), "mod_p"), I.make(TStr(), "base_p")
    I.ctx.assume(PKG(base.t, d, mod.t))
    I.ctx.ghost.setdefault("derived", []).append((base.t, d, mod.t))
    return STuple([mod, base])


def crawl_up_dir_contract(I, args, kwargs):
    """crawl_up_dir(dir): always a pair (mod, base) with PKG(base, dir, mod)"""
    d = args[1].t
    mod, base = I.make(TStr(), "mod_d"), I.make(TStr(), "base_d")
    I.ctx.assume(PKG(base.t, d, mod.t))
    I.ctx.ghost.setdefault("derived", []).append((base.t, d, mod.t))
    return STuple([mod, base])


FT = {
    ("SourceFinder", "explicit_package_bases"): TOpt(TSeq(TStr())), ("SourceFinder", "namespace_packages"): TBool(),
    ("SourceFinder", "fscache"): TAny(), ("SourceFinder", "verbosity"): TInt(),
}

OV = {
    "posixpath:split": split_contract, "posixpath:abspath": lambda I, a, k: SStr(ABS(a[0].t)),
    "posixpath:basename": lambda I, a, k: SStr(SPLIT_N(a[0].t)),
    "mypy.find_sources:SourceFinder.get_init_file": init_file_contract,
    "mypy.find_sources:SourceFinder.is_explicit_package_base": explicit_contract,
}


def setup_helper(I):
    self = I.make(TObj(FS.SourceFinder), "self")
    d = I.make(TStr(), "dir")
    return {"args": [self, d], "self": self, "dir": d}


def rules(I, env, d):
    """the rule instances available to the proof: R0 at every directory mentioned, R1 at `d` for every
    derivation obtained from a callee contract (and for the R0 derivation of the parent)"""
    ns = I.getattr(env["self"], "namespace_packages").t
    nb = isnone(I.getattr(env["self"], "explicit_package_bases"))
    par = SPLIT_P(d)
    insts = [PKG(d, d, z3.StringVal("")), PKG(par, par, z3.StringVal(""))]
    for (b, dd, m) in I.ctx.ghost.get("derived", []):
        insts.append(r1_instance(ns, b, m, d, nb))
    insts.append(r1_instance(ns, par, z3.StringVal(""), d, nb))
    return insts


def ens_helper(I, env, res):
    """a non-None result (mod, base) is derivable: `dir` is package `mod` below `base`"""
    if res is NONE:
        return z3.BoolVal(True)
    mod, base = res.items
    d = env["dir"].t
    return z3.Implies(z3.And(rules(I, env, d)), PKG(base.t, d, mod.t))


def ens_crawl_up_dir(I, env, res):
    mod, base = res.items
    d = env["dir"].t
    return z3.Implies(z3.And(rules(I, env, d)), PKG(base.t, d, mod.t))


def setup_crawl_up(I):
    self = I.make(TObj(FS.SourceFinder), "self")
    p = I.make(TStr(), "path")
    return {"args": [self, p], "self": self, "path": p}


def ens_crawl_up(I, env, res):
    """crawl_up(path) = (module, base): the file's directory is package P below base with
    module = P for an __init__ file and P.stem otherwise (stem = file name without .py / .pyi)"""
    mod, base = res.items
    ap = ABS(env["path"].t)
    parent, fname = SPLIT_P(ap), SPLIT_N(ap)
    stem = z3.If(z3.SuffixOf(z3.StringVal(".pyi"), fname), z3.SubString(fname, 0, z3.Length(fname) - 4),
                 z3.If(z3.SuffixOf(z3.StringVal(".py"), fname), z3.SubString(fname, 0, z3.Length(fname) - 3), fname))
    stem = z3.If(z3.Length(stem) > 0, stem, fname)
    der = I.ctx.ghost.get("derived", [])
    if len(der) != 1:
        return z3.BoolVal(False)
    b, dd, pm = der[0]
    return z3.And(dd == parent, base.t == b, mod.t == z3.If(stem == z3.StringVal("__init__"), pm, mjoin(pm, stem)))


def ens_module_join(I, env, res):
    p, c = env["args"]
    return res.t == mjoin(p.t, c.t)


def ens_strip_py(I, env, res):
    a = env["args"][0].t
    pyi, py = z3.StringVal(".pyi"), z3.StringVal(".py")
    r = I.unopt(res)
    if r is NONE:
        return z3.And(z3.Not(z3.SuffixOf(pyi, a)), z3.Not(z3.SuffixOf(py, a)))
    return z3.Or(z3.And(z3.SuffixOf(pyi, a), z3.Concat(r.t, pyi) == a), z3.And(z3.Not(z3.SuffixOf(pyi, a)), z3.SuffixOf(py, a), z3.Concat(r.t, py) == a))


# ------------------------------------------------------------------ find_sources_in_dir: one directory entry

JOINP = z3.Function("os_path_join", StrS, StrS, StrS)
STEM = z3.Function("os_splitext_stem", StrS, StrS)
SUFFIX = z3.Function("os_splitext_suffix", StrS, StrS)
ISDIR = z3.Function("fs_isdir", StrS, BoolS)


def sub_sources_contract(I, args, kwargs):
    """find_sources_in_dir(subdir) at the recursive call: some list of sources, possibly empty"""
    from mypy.modulefinder import BuildSource

    if I.ctx.choose(2, "sub-sources") == 0:
        I.ctx.ghost["sub"] = "empty"
        return SList([])
    I.ctx.ghost["sub"] = "nonempty"
    return SList([I.make(TObj(BuildSource), "sub_source")])


def crawl_up_contract(I, args, kwargs):
    mod, base = I.make(TStr(), "module"), I.make(TStr(), "base_dir")
    I.ctx.ghost["crawled"] = (args[1], mod, base)
    return STuple([mod, base])


def setup_dir_entry(I):
    self = I.make(TObj(FS.SourceFinder), "self")
    name, path = I.make(TStr(), "name"), I.make(TStr(), "path")
    seen = I.make(TSet(TStr()), "seen")
    sources = SList([])
    return {"args": [], "locals": {"self": self, "name": name, "path": path, "seen": seen, "sources": sources, "names": I.make(TSeq(TStr()), "names")},
            "self": self, "name": name, "path": path, "seen": seen, "seen0": seen.t, "sources": sources}


def ens_dir_entry(I, env, res):
    """one directory entry: a sub-directory contributes its sources and claims its name only if it HAS
    sources; a .py/.pyi file is added (under the module crawl_up assigns) unless an earlier
    source-bearing entry claimed its stem, and then claims the stem; anything else changes nothing"""
    name = env["name"].t
    sub = JOINP(env["path"].t, name)
    seen1, seen0 = env["seen"].t, env["seen0"]
    srcs = env["sources"].items
    x = z3.Const("other_name", StrS)

    def seen_is(extra):
        return z3.ForAll([x], z3.Select(seen1, x) == z3.Or(z3.Select(seen0, x), x == extra)) if extra is not None else seen1 == seen0

    g = I.ctx.ghost
    if "sub" in g:  # the entry was treated as a directory
        if g["sub"] == "empty":
            return z3.And(z3.BoolVal(len(srcs) == 0), seen_is(None))
        return z3.And(z3.BoolVal(len(srcs) == 1), seen_is(name))
    if "crawled" in g:  # a source file was added
        stem = STEM(name)
        ok = len(srcs) == 1 and isinstance(srcs[0], SObj)
        if not ok:
            return z3.BoolVal(False)
        b = srcs[0]
        return z3.And(z3.Not(z3.Select(seen0, stem)), seen_is(stem), I.getattr(b, "path").t == sub, term(I.getattr(b, "module")) == z3.If(z3.Length(g["crawled"][1].t) > 0, g["crawled"][1].t, z3.StringVal("__main__")),
                      term(I.getattr(b, "base_dir")) == g["crawled"][2].t, g["crawled"][0].t == sub)
    return z3.And(z3.BoolVal(len(srcs) == 0), seen_is(None))


DIR_OV = {
    "posixpath:join": lambda I, a, k: SStr(JOINP(a[0].t, a[1].t)),
    "posixpath:splitext": lambda I, a, k: STuple([SStr(STEM(a[0].t)), SStr(SUFFIX(a[0].t))]),
    "mypy.find_sources:matches_exclude": returns(TBool(), "excluded"), "mypy.modulefinder:matches_exclude": returns(TBool(), "excluded"),
    "mypy.find_sources:matches_gitignore": returns(TBool(), "gitignored"), "mypy.modulefinder:matches_gitignore": returns(TBool(), "gitignored"),
    "mypy.find_sources:SourceFinder.find_sources_in_dir@rec": sub_sources_contract,
    "mypy.find_sources:SourceFinder.crawl_up": crawl_up_contract,
    "contracts.spec_paths:FakeFsCache.isdir": lambda I, a, k: SBool(ISDIR(a[1].t)),
}


# ------------------------------------------------------------------ modulefinder.find_modules_recursive: one entry

import mypy.modulefinder as MF  # noqa: E402
from mypy.options import Options  # noqa: E402

ISFILE = z3.Function("fs_isfile", StrS, BoolS)


def fmr_rec_contract(I, args, kwargs):
    I.ctx.events.append(("recurse", args[1]))
    return SList([])


def setup_fmr_entry(I):
    self = I.make(TObj(MF.FindModuleCache), "self")
    opts = I.make(TObj(Options), "options")
    self.fields["options"] = opts
    name, pkg, module = I.make(TStr(), "name"), I.make(TStr(), "package_path"), I.make(TStr(), "module")
    seen = I.make(TSet(TStr()), "seen")
    return {"args": [], "locals": {"self": self, "name": name, "package_path": pkg, "module": module, "seen": seen, "sources": SList([]), "names": I.make(TSeq(TStr()), "names")},
            "self": self, "name": name, "pkg": pkg, "module": module, "seen0": seen.t, "opts": opts}


def ens_fmr_entry(I, env, res):
    """a sub-DIRECTORY is searched exactly when it is a package: namespace packages are on, or it holds an
    __init__.py or an __init__.pyi (the same notion of package as find_sources.get_init_file); it is then
    searched under module + '.' + name"""
    g = I.ctx.ghost
    name = env["name"].t
    sub = JOINP(env["pkg"].t, name)
    rec = [e for e in I.ctx.events if e[0] == "recurse"]
    excluded = g.get("excluded_flag")
    skipped_name = z3.Or([name == z3.StringVal(x) for x in ("__pycache__", "site-packages", "node_modules")] + [z3.PrefixOf(z3.StringVal("."), name)])
    ns = I.getattr(env["opts"], "namespace_packages").t
    is_pkg = z3.Or(ns, ISFILE(JOINP(sub, z3.StringVal("__init__.py"))), ISFILE(JOINP(sub, z3.StringVal("__init__.pyi"))))
    if len(rec) > 1:
        return z3.BoolVal(False)
    isdir = ISDIR(sub)
    seen1 = env["__locals"].get("seen")
    seen1 = seen1.t if isinstance(seen1, ZVal) else None
    if seen1 is None:
        return z3.BoolVal(False)
    if not rec:
        # a name is claimed (so that a later module of the same stem is skipped) only by an entry that is
        # searched: a directory that is not a package, or any skipped entry, leaves `seen` as it was
        unchanged = seen1 == env["seen0"]
    if rec:
        target_ok = z3.Implies(isdir, z3.And(is_pkg, rec[0][1].t == z3.Concat(env["module"].t, z3.StringVal("."), name)))
        return z3.And(z3.Not(skipped_name), target_ok)
    # nothing searched: for a directory that is only allowed when it is skipped, excluded or not a package
    filt = z3.BoolVal(False)
    for k in ("excluded", "gitignored"):
        v = g.get("flag_" + k)
        if v is not None:
            filt = z3.Or(filt, v)
    return z3.And(unchanged, z3.Implies(z3.And(isdir, z3.Not(skipped_name), z3.Not(filt)), z3.Not(is_pkg)))


def flag_contract(key):
    def h(I, args, kwargs):
        v = I.make(TBool(), key)
        I.ctx.ghost["flag_" + key] = v.t
        return v
    return h


FMR_OV = {
    "mypy.util:os_path_join": lambda I, a, k: SStr(JOINP(a[0].t, a[1].t)), "mypy.modulefinder:os_path_join": lambda I, a, k: SStr(JOINP(a[0].t, a[1].t)),
    "posixpath:splitext": lambda I, a, k: STuple([SStr(STEM(a[0].t)), SStr(SUFFIX(a[0].t))]),
    "mypy.modulefinder:matches_exclude": flag_contract("excluded"), "mypy.modulefinder:matches_gitignore": flag_contract("gitignored"),
    "mypy.modulefinder:FindModuleCache.find_modules_recursive@rec": fmr_rec_contract,
    "contracts.spec_paths:FakeFsCache.isdir": lambda I, a, k: SBool(ISDIR(a[1].t)), "contracts.spec_paths:FakeFsCache.isfile": lambda I, a, k: SBool(ISFILE(a[1].t)),
}


def targets(tier):
    rec = {"mypy.find_sources:SourceFinder._crawl_up_helper@rec": helper_rec_contract, "mypy.find_sources:SourceFinder.crawl_up_dir": crawl_up_dir_contract}
    return [
        Target("paths.module_join", "mypy.find_sources:module_join", lambda I: {"args": [I.make(TStr(), "parent"), I.make(TStr(), "child")]},
               ensures=[("dotted-join", ens_module_join)], raises=()),
        Target("paths.strip_py", "mypy.find_sources:strip_py", lambda I: {"args": [I.make(TStr(), "arg")]}, ensures=[("suffix-stripped", ens_strip_py)], raises=()),
        Target("paths.crawl_up_helper", "mypy.find_sources:SourceFinder._crawl_up_helper", setup_helper, ensures=[("result-is-derivable-package", ens_helper)],
               raises=(FS.InvalidSourceList, AssertionError), overrides=dict(OV, **rec), field_types=FT,
               note="recursive calls and crawl_up_dir enter through their contracts (induction); InvalidSourceList is the specified answer for an __init__ file in a directory whose name is not an identifier"),
        Target("paths.crawl_up_dir", "mypy.find_sources:SourceFinder.crawl_up_dir", setup_helper, ensures=[("always-a-derivable-package", ens_crawl_up_dir)],
               raises=(FS.InvalidSourceList, AssertionError), overrides=dict(OV, **{"mypy.find_sources:SourceFinder._crawl_up_helper": helper_rec_contract}), field_types=FT),
        Target("paths.find_sources_in_dir.entry", "mypy.find_sources:SourceFinder.find_sources_in_dir", setup_dir_entry, loop_body=("for name in names", None),
               ensures=[("entry-adds-exactly-its-sources-and-claims", ens_dir_entry)], raises=(FS.InvalidSourceList,), overrides=DIR_OV,
               field_types={**FT, ("SourceFinder", "fscache"): TObj(FakeFsCache), ("SourceFinder", "exclude"): TSeq(TStr()), ("SourceFinder", "exclude_gitignore"): TBool()},
               note="one generic directory entry; the recursive call, crawl_up, the exclusion filters and the file system enter through contracts"),
        Target("paths.find_modules_recursive.entry", "mypy.modulefinder:FindModuleCache.find_modules_recursive", setup_fmr_entry, loop_body=("for name in names", None),
               ensures=[("package-directories-are-searched", ens_fmr_entry)], raises=(), overrides=FMR_OV,
               field_types={("FindModuleCache", "fscache"): TObj(FakeFsCache), ("FindModuleCache", "options"): TOpt(TObj(Options)), ("Options", "exclude"): TSeq(TStr()),
                            ("Options", "exclude_gitignore"): TBool(), ("Options", "namespace_packages"): TBool(), ("Options", "verbosity"): TInt()},
               note="one generic directory entry of `-p PKG` discovery; the recursive call and the file system enter through contracts"),
        Target("paths.crawl_up", "mypy.find_sources:SourceFinder.crawl_up", setup_crawl_up, ensures=[("module-is-package-plus-stem", ens_crawl_up)],
               raises=(FS.InvalidSourceList, AssertionError), overrides=dict(OV, **{"mypy.find_sources:SourceFinder.crawl_up_dir": crawl_up_dir_contract}), field_types=FT),
    ]
