"""C14/C12 facet: reachability marking (semantic-analysis pass 1) sees every block of the program.
SemanticAnalyzerPreAnalysis overrides some visit_* methods of the default traverser; an override that
neither delegates to super() nor mentions every BLOCK-valued child of its statement class (attributes
annotated with Block in mypy/nodes.py) leaves the blocks it skips without reachability information --
`if sys.version_info ...` / platform checks inside them are then not evaluated.  Decided on the source."""
from __future__ import annotations

import ast
import os

from pyvc.runner import StaticCheck

REPO = os.environ.get("VERIF_REPO", "/repo")


def block_children():
    """{visit method name: set of attributes annotated with Block} from mypy/nodes.py"""
    tree = ast.parse(open(os.path.join(REPO, "mypy/nodes.py")).read())
    out = {}
    for c in [n for n in tree.body if isinstance(n, ast.ClassDef)]:
        acc = next((m for m in c.body if isinstance(m, ast.FunctionDef) and m.name == "accept"), None)
        if acc is None:
            continue
        vm = next((n.func.attr for n in ast.walk(acc) if isinstance(n, ast.Call) and isinstance(n.func, ast.Attribute) and n.func.attr.startswith("visit_")), None)
        if vm is None:
            continue
        attrs = {st.target.id for st in c.body if isinstance(st, ast.AnnAssign) and isinstance(st.target, ast.Name) and "Block" in ast.unparse(st.annotation)}
        if attrs:
            out[vm] = attrs
    return out


def check_pass1():
    tree = ast.parse(open(os.path.join(REPO, "mypy/semanal_pass1.py")).read())
    cls = next((n for n in tree.body if isinstance(n, ast.ClassDef) and n.name == "SemanticAnalyzerPreAnalysis"), None)
    blocks = block_children()
    if cls is None or len(blocks) < 5:
        return [{"name": "pass1-cover/located", "status": "unknown", "where": "SemanticAnalyzerPreAnalysis or the Block annotations of nodes.py not found"}]
    obs = []
    for m in [m for m in cls.body if isinstance(m, ast.FunctionDef) and m.name.startswith("visit_") and len(m.args.args) >= 2]:
        need = blocks.get(m.name)
        if not need:
            continue
        p = m.args.args[1].arg
        mentioned = {n.attr for n in ast.walk(m) if isinstance(n, ast.Attribute) and isinstance(n.value, ast.Name) and n.value.id == p}
        sup = any(isinstance(n, ast.Call) and isinstance(n.func, ast.Attribute) and isinstance(n.func.value, ast.Call) and getattr(n.func.value.func, "id", "") == "super" for n in ast.walk(m))
        missing = sorted(need - mentioned)
        ok = sup or not missing
        obs.append({"name": f"pass1-cover/all-blocks-visited/{m.name}", "status": "discharged" if ok else "refuted", "where": f"mypy/semanal_pass1.py {m.name}",
                    "detail": "" if ok else f"blocks never visited: {missing}", "key": f"pass1-cover:{m.name}:{','.join(missing)}", "confirmed": True})
    if not obs:
        obs.append({"name": "pass1-cover/overrides-found", "status": "unknown", "where": "no override of a block-carrying statement"})
    return obs


def targets(tier):
    return [StaticCheck("pass1.blocks_visited", check_pass1, note="overrides of the reachability pre-pass vs the Block-valued children of their statement classes")]
