"""C13 'an unused-ignore report appears exactly for comments that suppressed nothing': one generic
iteration of Errors.generate_unused_ignore_errors and generate_ignore_without_code_errors."""
from __future__ import annotations

import z3

from pyvc.interp import NONE, LoopSpec
from pyvc.sym import *
from pyvc.target import Target
from pyvc.types import *
from .common import *
from . import errs as ERRS

import mypy.errorcodes as EC
from mypy.errors import Errors

CODES = TSeq(TStr())
FT = dict(ERRS.FIELD_TYPES)
FT.update({("Errors", "skipped_lines"): TMap(TStr(), TSet(TInt()), default=True), ("Errors", "ignored_files"): TSet(TStr())})


def report_contract(I, args, kwargs):
    I.ctx.events.append(("report_simple_error", args[1], args[2], args[3], kwargs.get("code")))
    return NONE


OV = {"mypy.errors:Errors.report_simple_error": report_contract}


def setup_unused_iter(I):
    self = I.make(TObj(Errors), "self")
    file, line = I.make(TStr(), "file"), I.make(TInt(), "line")
    ignored_codes = I.make(CODES, "ignored_codes")
    used_for_file = I.make(TMap(TInt(), CODES, default=True), "used_ignored_lines_of_file")
    return {"args": [], "locals": {"self": self, "file": file, "line": line, "ignored_codes": ignored_codes, "used_ignored_lines": used_for_file,
                                   "ignored_lines": I.make(TMap(TInt(), CODES), "ignored_lines_of_file"), "is_typeshed": SBool(False)},
            "self": self, "file": file, "line": line, "codes": ignored_codes, "used": used_for_file}


def used_codes(env):
    """the codes recorded as used on this line (empty for a line never recorded: defaultdict)"""
    ty = env["used"].ty
    s, mk, accs = ty.parts()
    u = env["used"].t
    return z3.If(z3.Select(accs[0](u), env["line"].t), z3.Select(accs[1](u), env["line"].t), z3.Empty(z3.SeqSort(StrS)))


def ens_unused_iter(I, env, res):
    """the comment on `line` is reported as unused  <=>  the line is not skipped, the comment does not
    itself list unused-ignore, and either it is a bare ignore that suppressed nothing or one of the codes
    it lists suppressed nothing.  At most one report, on that line, with code unused-ignore."""
    self = env["self"]
    ty = FT[("Errors", "skipped_lines")]
    s, mk, accs = ty.parts()
    sk = I.getattr(self, "skipped_lines").t
    f = env["file"].t
    skipped = z3.And(z3.Select(accs[0](sk), f), z3.Select(z3.Select(accs[1](sk), f), env["line"].t))
    codes = env["codes"].t
    used = used_codes(env)
    c = z3.Const("ui_c", StrS)
    lists_unused_ignore = z3.Contains(codes, z3.Unit(z3.StringVal(EC.UNUSED_IGNORE.code)))
    some_unused = z3.Exists([c], z3.And(z3.Contains(codes, z3.Unit(c)), z3.Not(z3.Contains(used, z3.Unit(c)))))
    should = z3.And(z3.Not(skipped), z3.Not(lists_unused_ignore),
                    z3.Or(z3.And(z3.Length(codes) == 0, z3.Length(used) == 0), z3.And(z3.Length(codes) > 0, some_unused)))
    reps = [e for e in I.ctx.events if e[0] == "report_simple_error"]
    if len(reps) > 1:
        return z3.BoolVal(False)
    if reps:
        r = reps[0]
        code_ok = z3.BoolVal(isinstance(r[4], SObj) and r[4].live is EC.UNUSED_IGNORE)
        return z3.And(should, r[1].t == f, r[2].t == env["line"].t, code_ok)
    return z3.Not(should)


def targets(tier):
    loops = {"for unused in unused_ignored_codes": LoopSpec(inv=lambda I, env: z3.BoolVal(True), name="narrower-hint", havoc_types={"message": TStr()})}
    return [
        Target("errors.generate_unused_ignore_errors.iteration", "mypy.errors:Errors.generate_unused_ignore_errors", setup_unused_iter,
               loop_body=("for line, ignored_codes in ignored_lines.items()", None), ensures=[("reported-iff-comment-suppressed-nothing", ens_unused_iter)],
               raises=(), overrides=OV, field_types=FT, loops=loops, feas_timeout_ms=700, timeout=900,
               note="one generic ignore comment; the message text (hint loop) is not part of the contract"),
    ]
