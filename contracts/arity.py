"""C12, arity clause (one rule of CPython's argument binding): a value passed POSITIONALLY -- a plain
positional argument or an item of a *args tuple -- can never bind a keyword-only parameter.  One generic
formal of ExpressionChecker.check_argument_count (the loop over the callee's formals): when the first
actual mapped to a keyword-only formal is positional or *args, the call is rejected (ok becomes False and
too_many_positional_arguments is reported)."""
from __future__ import annotations

import z3

from pyvc.interp import NONE
from pyvc.sym import *
from pyvc.target import Target
from pyvc.types import *
from .common import *

import mypy.checkexpr as CE
import mypy.nodes as N
import mypy.types as T


class FakeMsg:
    def too_few_arguments(self, *a):
        raise NotImplementedError

    def missing_named_argument(self, *a):
        raise NotImplementedError

    def duplicate_argument_value(self, *a):
        raise NotImplementedError

    def too_many_positional_arguments(self, *a):
        raise NotImplementedError

    def fail(self, *a):
        raise NotImplementedError


class FakeChk:
    def in_checked_function(self):
        raise NotImplementedError


def rec(tag):
    def h(I, args, kwargs):
        I.ctx.events.append((tag,) + tuple(args[1:]))
        return NONE
    return h


def dup_contract(I, args, kwargs):
    """is_duplicate_mapping(mapping, ...): some boolean, true only for a mapping of more than one actual"""
    v = I.make(TBool(), "is_duplicate_mapping")
    I.ctx.assume(z3.Implies(v.t, z3.Length(args[0].t) > 1))
    I.ctx.ghost["dup"] = v.t
    return v


OV = {f"contracts.arity:FakeMsg.{m}": rec(m) for m in ("too_few_arguments", "missing_named_argument", "duplicate_argument_value", "too_many_positional_arguments", "fail")}
OV.update({
    "contracts.arity:FakeChk.in_checked_function": returns(TBool(), "in_checked_function"),
    "mypy.checkexpr:is_duplicate_mapping": dup_contract,
    "mypy.types:get_proper_type": lambda I, a, k: a[0], "mypy.checkexpr:get_proper_type": lambda I, a, k: a[0],
    "mypy.types:CallableType.param_spec": lambda I, a, k: NONE,  # precondition: the callee has no ParamSpec
    "mypy.checkexpr:ExpressionChecker.missing_classvar_callable_note": noop,
})

FT = {
    ("ExpressionChecker", "msg"): TObj(FakeMsg), ("ExpressionChecker", "chk"): TObj(FakeChk),
    ("CallableType", "arg_kinds"): TLList(TObj(N.ArgKind)), ("CallableType", "arg_names"): TLList(TOpt(TStr())), ("CallableType", "special_sig"): TOpt(TStr()),
}


def setup_formal(I):
    self = I.make(TObj(CE.ExpressionChecker), "self")
    callee = I.make(TObj(T.CallableType), "callee")
    callee.cands = [T.CallableType]
    kind = I.make(TObj(N.ArgKind), "kind")
    i = I.make(TInt(), "i")
    I.ctx.assume(z3.And(i.t >= 0, i.t < I.llist_len(I.getattr(callee, "arg_names")), I.llist_len(I.getattr(callee, "arg_names")) == I.llist_len(I.getattr(callee, "arg_kinds"))))
    mapped_first = I.make(TInt(), "first_actual")
    rest = I.make(TSeq(TInt()), "other_actuals")
    n_mapped = I.ctx.choose(2, "mapped-empty?")
    mapped = ZVal(TSeq(TInt()), Cell(z3.Empty(z3.SeqSort(IntS)) if n_mapped == 0 else z3.Concat(z3.Unit(mapped_first.t), rest.t)))
    fta = SDictLike = None
    formal_to_actual = SDict([(i, mapped)])  # formal_to_actual[i]
    actual_kinds = I.make(TLList(TObj(N.ArgKind)), "actual_kinds")
    I.ctx.assume(z3.And(mapped_first.t >= 0, mapped_first.t < I.llist_len(actual_kinds)))
    j = z3.Int("ar_j")
    I.ctx.assume(z3.ForAll([j], z3.Implies(z3.And(j >= 0, j < z3.Length(rest.t)), z3.And(rest.t[j] >= 0, rest.t[j] < I.llist_len(actual_kinds)))))
    # read through the same expression the code uses (actual_kinds[mapped_args[0]]) so that it is the same element
    first_kind = I.subscript(actual_kinds, I.subscript(mapped, SInt(0))) if n_mapped else None
    ok = I.make(TBool(), "ok")
    actual_types = I.make(TLList(TObj(T.Type)), "actual_types")
    I.ctx.assume(I.llist_len(actual_types) == I.llist_len(actual_kinds))  # parallel lists (caller invariant)
    env = {"args": [], "locals": {"self": self, "callee": callee, "i": i, "kind": kind, "formal_to_actual": formal_to_actual, "actual_kinds": actual_kinds,
                                   "actual_types": actual_types, "actual_names": I.make(TOpt(TLList(TOpt(TStr()))), "actual_names"),
                                   "context": I.make(TAny(), "context"), "ok": ok, "is_unexpected_arg_error": I.make(TBool(), "is_unexpected_arg_error"),
                                   "object_type": NONE, "callable_name": NONE},
           "kind": kind, "first_kind": first_kind, "ok0": ok.t, "n_mapped": n_mapped}
    return env


def live_of(v):
    return v.live if isinstance(v, SObj) else None


def ens_formal(I, env, res):
    """a keyword-only formal whose first mapped actual is positional (ARG_POS) or *args (ARG_STAR), and
    which is not reported for another reason, is rejected: ok is False afterwards and the error
    'too many positional arguments' is reported; ok never goes from False to True"""
    ok1 = env["__locals"]["ok"]
    ok1t = ok1.t if isinstance(ok1, SBool) else z3.BoolVal(bool(ok1)) if isinstance(ok1, bool) else None
    if ok1t is None:
        return z3.BoolVal(False)
    monotone = z3.Implies(z3.Not(env["ok0"]), z3.Not(ok1t))
    kind, fk = live_of(env["kind"]), live_of(env["first_kind"]) if env["first_kind"] is not None else None
    if kind is None:
        return z3.BoolVal(False)
    evs = [e[0] for e in I.ctx.events]
    positional_into_kwonly = kind.is_named() and env["n_mapped"] == 1 and fk in (N.ARG_POS, N.ARG_STAR)
    if positional_into_kwonly:
        reported = any(e in ("too_many_positional_arguments", "duplicate_argument_value", "too_few_arguments", "missing_named_argument") for e in evs)
        dup = I.ctx.ghost.get("dup")
        # the duplicate-mapping branch takes precedence and may stay silent in unchecked functions: then
        # nothing is required here (the call is an error for another reason or is not analysed strictly)
        dup_case = dup if dup is not None else z3.BoolVal(False)
        return z3.And(monotone, z3.Or(dup_case, z3.And(z3.Not(ok1t), z3.BoolVal(reported))))
    return monotone


def targets(tier):
    return [Target("arity.check_argument_count.formal", "mypy.checkexpr:ExpressionChecker.check_argument_count", setup_formal,
                   loop_body=("for i, kind in enumerate(callee.arg_kinds)", None), ensures=[("positional-value-never-binds-keyword-only-parameter", ens_formal)],
                   raises=(), overrides=OV, field_types=FT,
                   note="one generic formal of a callee without ParamSpec; the kinds of the formal and of its first mapped actual range over all ArgKind members; is_duplicate_mapping is an arbitrary boolean")]
