"""C11 static obligations over the real source (computed, engine E4): tag constants are pairwise
distinct, the dispatchers send tag(C) to C.read, and the binary and JSON formats of every class mention
the same fields ('the two formats agree')."""
from __future__ import annotations

import ast
import inspect

from pyvc.codec import class_tag
from pyvc.interp import func_node
from pyvc.runner import StaticCheck

import mypy.cache as C
import mypy.nodes as N
import mypy.types as T


def tag_constants():
    out = {}
    for mod in (C, N, T):
        src = ast.parse(open(mod.__file__).read())
        for st in src.body:
            if isinstance(st, ast.AnnAssign) and isinstance(st.target, ast.Name) and st.value is not None and "Tag" in ast.unparse(st.annotation):
                v = getattr(mod, st.target.id, None)
                if isinstance(v, int):
                    out[(mod.__name__, st.target.id)] = v
    return out


def check_tags():
    obs = []
    tags = tag_constants()
    by_val = {}
    for (m, n), v in tags.items():
        by_val.setdefault(v, []).append(f"{m}.{n}")
    if len(tags) < 40:
        return [{"name": "tags/found", "status": "unknown", "where": f"only {len(tags)} tag constants found"}]
    for v, names in sorted(by_val.items()):
        obs.append({"name": f"tags/distinct/{v}", "status": "discharged" if len(names) == 1 else "refuted", "where": ", ".join(names), "key": f"tag:{v}", "confirmed": True})
    return obs


def dispatcher_cases(fn):
    """(tag constant name, class name) pairs of `if tag == NAME: return Cls.read(data)` chains"""
    node, mod = func_node(fn)
    out = []
    for n in ast.walk(node):
        if isinstance(n, ast.If) and isinstance(n.test, ast.Compare) and isinstance(n.test.left, ast.Name) and n.test.left.id == "tag" \
                and len(n.test.comparators) == 1 and isinstance(n.test.comparators[0], (ast.Name, ast.Attribute)):
            tagname = ast.unparse(n.test.comparators[0])
            for s in n.body:
                for c in ast.walk(s):
                    if isinstance(c, ast.Call) and isinstance(c.func, ast.Attribute) and c.func.attr == "read" and isinstance(c.func.value, (ast.Name, ast.Attribute)):
                        out.append((tagname, ast.unparse(c.func.value), mod))
    return out


def check_dispatch():
    obs = []
    for fn in (T.read_type, N.read_symbol, T.read_function_like, N.read_overload_part):
        cases = dispatcher_cases(fn)
        if not cases:
            obs.append({"name": f"dispatch/{fn.__name__}/cases-found", "status": "unknown", "where": "no `if tag == X: return C.read(data)` case found"})
            continue
        for tagname, clsname, mod in cases:
            try:
                tagval = eval(tagname, mod.__dict__)
                cls = eval(clsname, mod.__dict__)
            except Exception as e:
                obs.append({"name": f"dispatch/{fn.__name__}/{tagname}", "status": "unknown", "where": repr(e)})
                continue
            want = class_tag(cls)
            ok = want is not None and int(want) == int(tagval)
            obs.append({"name": f"dispatch/{fn.__name__}/{tagname}->{clsname}", "status": "discharged" if ok else "refuted",
                        "where": f"{clsname}.write starts with tag {want}, dispatcher sends {tagname}={tagval} to {clsname}.read", "key": f"{fn.__name__}:{tagname}", "confirmed": True})
    # every class with a tag that read_type can receive is dispatched
    handled = {c for _, c, _ in dispatcher_cases(T.read_type)}
    for name, cls in vars(T).items():
        if inspect.isclass(cls) and name == cls.__name__ and issubclass(cls, T.Type) and "write" in cls.__dict__ and "read" in cls.__dict__ and cls is not T.Type:
            obs.append({"name": f"dispatch/read_type/covers/{name}", "status": "discharged" if name in handled else "refuted", "where": "mypy/types.py read_type", "key": f"covers:{name}", "confirmed": True})
    return obs


def check_formats_agree():
    from .views_nodes import fields_read_by

    obs = []
    for mod in (T, N, C):
        for name, cls in sorted(vars(mod).items()):
            if not (inspect.isclass(cls) and cls.__module__ == mod.__name__ and "write" in cls.__dict__ and "serialize" in cls.__dict__):
                continue
            w, s = fields_read_by(cls, "write"), fields_read_by(cls, "serialize")
            ignore = {"write", "serialize", "accept", "__class__"}
            only_w, only_s = sorted(w - s - ignore), sorted(s - w - ignore)
            methods = {m for m in (w | s) if callable(getattr(cls, m, None)) and not isinstance(inspect.getattr_static(cls, m, None), property)}
            only_w = [f for f in only_w if f not in methods]
            only_s = [f for f in only_s if f not in methods]
            ok = not only_w and not only_s
            obs.append({"name": f"formats-agree/{mod.__name__.split('.')[-1]}.{name}", "status": "discharged" if ok else "refuted",
                        "where": f"only binary: {only_w}; only JSON: {only_s}", "key": f"{name}:{only_w}:{only_s}", "confirmed": True})
    return obs


# nested written attributes the fixup visitor of the class does not mention, each with the reason
FIXUP_EXEMPT = {
    ("MypyFile", "names"): "fixup of a module starts at its symbol table: State.fix_cross_refs calls NodeFixer.visit_symbol_table(tree.names) directly",
    ("FuncDef", "dataclass_transform_spec"): "plain data (booleans and names), no cross reference inside",
    ("TypeInfo", "dataclass_transform_spec"): "plain data (booleans and names), no cross reference inside",
    ("SymbolTableNode", "node"): "visited by NodeFixer.visit_symbol_table for every entry (through SymbolTableNode.node / accept)",
    ("AnyType", "source_any"): "an AnyType holds no cross reference",
    ("ExtraAttrs", "attrs"): "visited by TypeFixer.visit_instance through inst.extra_attrs.attrs",
}


def check_fixup_cover():
    from frames import fixupcover

    rows = fixupcover.scan()
    if len(rows) < 40:
        return [{"name": "fixup-cover/scan", "status": "unknown", "where": f"only {len(rows)} nested written attributes found: layout changed?"}]
    obs = []
    for cls, vm, attr, reached in rows:
        if reached:
            obs.append({"name": f"fixup-cover/{cls}.{attr}", "status": "discharged", "where": f"mypy/fixup.py {vm}"})
        elif (cls, attr) in FIXUP_EXEMPT:
            obs.append({"name": f"fixup-cover/exempt/{cls}.{attr}", "status": "discharged", "where": f"{vm}", "detail": FIXUP_EXEMPT[(cls, attr)]})
        else:
            obs.append({"name": f"fixup-cover/{cls}.{attr}", "status": "refuted", "where": f"mypy/fixup.py {vm or '(no visitor method found)'}",
                        "detail": f"{cls}.write serializes the nested {attr} but the fixup visitor never touches it: cross references inside stay unresolved after loading",
                        "key": f"fixup-cover:{cls}.{attr}", "confirmed": True})
    return obs


def targets(tier):
    return [StaticCheck("codec.static.tags", check_tags), StaticCheck("codec.static.dispatch", check_dispatch), StaticCheck("codec.static.formats_agree", check_formats_agree),
            StaticCheck("codec.static.fixup_cover", check_fixup_cover, note="every nested type / node a writer serializes is mentioned by the fixup visitor method of its class (syntactic)")]
