"""C07 / C02: round-trip contracts for the coordinator <-> worker messages and State transfer in
mypy/build.py, and ErrorInfo in mypy/errors.py (both travel over the IPC channel / through the cache)."""
from __future__ import annotations

import z3

from pyvc.codec_target import CodecTarget
from pyvc.sym import *
from pyvc.types import *
from pyvc.interp import NONE
from .common import *
from .views_cache import JSON_OV

import mypy.build as B
import mypy.errors as E
import mypy.errorcodes as EC

FT = {
    ("ErrorInfo", "import_ctx"): TLList(TTuple([TStr(), TInt()])), ("ErrorInfo", "local_ctx"): TTuple([TOpt(TStr()), TOpt(TStr())]),
    ("ErrorInfo", "origin_span"): TSeq(TInt()), ("ErrorInfo", "code"): TOpt(TObj(EC.ErrorCode)), ("ErrorInfo", "parent_error"): TOpt(TObj(E.ErrorInfo)),
    ("ErrorInfo", "module"): TOpt(TStr()), ("ErrorInfo", "target"): TOpt(TStr()), ("ErrorInfo", "priority"): TInt(),
    ("ErrorCode", "code"): TStr(), ("ErrorCode", "sub_code_of"): TOpt(TObj(EC.ErrorCode)), ("ErrorCode", "default_enabled"): TBool(),
    ("ErrorCode", "description"): TStr(), ("ErrorCode", "category"): TStr(),
}


def req_errorinfo(I, env):
    """requires: write() asserts there is no parent_error; the code is a registered error code (the
    reader looks it up by name in mypy_error_codes)"""
    from pyvc.ctx import Infeasible

    o = env["self"]
    if I.getattr(o, "parent_error") is not NONE:
        raise Infeasible()


def setup_codes(I, env):
    """requires: the error's code is a registered error code -- the reader looks the name up in
    errors.mypy_error_codes (modelled as a lazily initialised dict whose entry for this name is the
    very ErrorCode object)"""
    req_errorinfo(I, env)
    o = env["self"]
    # class invariant established by ErrorInfo.__init__ (`origin_span or [line]`): never empty
    I.ctx.assume(z3.Length(I.getattr(o, "origin_span").t) > 0)
    codes = LDict(TStr(), TObj(EC.ErrorCode), "mypy_error_codes")
    c = I.getattr(o, "code")
    if c is not NONE:
        nm = I.getattr(c, "code")
        I.ctx.assume(z3.Length(nm.t) > 0)
        codes.entries.append([nm, z3.BoolVal(True), c, z3.BoolVal(True), c])
    I.ctx.ghost[("modattr", "mypy.errors", "mypy_error_codes")] = codes


INIT = {
    ("SccsDataMessage", "sccs"): TLList(TObj(B.SCC)),
    ("SourcesDataMessage", "sources"): TLList(TObj(__import__("mypy.modulefinder", fromlist=["x"]).BuildSource)),
}
FT.update({
    ("SCC", "id"): TInt(), ("SCC", "mod_ids"): TSet(TStr()), ("SCC", "deps"): TSet(TInt()),
    ("BuildSource", "path"): TOpt(TStr()), ("BuildSource", "module"): TStr(), ("BuildSource", "text"): TOpt(TStr()),
    ("BuildSource", "base_dir"): TOpt(TStr()), ("BuildSource", "followed"): TBool(),
    ("CompileError", "messages"): TSeq(TStr()), ("CompileError", "use_stdout"): TBool(), ("CompileError", "module_with_blocker"): TOpt(TStr()),
})

def inv_module_nonempty(I, o, val):
    """class invariant of BuildSource (`module or '__main__'` in its constructor)"""
    I.ctx.assume(z3.Length(val.t) > 0)


FIELD_INVS = {("BuildSource", "module"): inv_module_nonempty}


def req_response(I, env):
    """requires (documented: 'Only one of result or blocker can be non-None'; write() asserts it)"""
    from pyvc.ctx import Infeasible

    o = env["self"]
    if I.getattr(o, "result") is NONE and I.getattr(o, "blocker") is NONE:
        raise Infeasible()


MESSAGES = ["AckMessage", "SccRequestMessage", "ModuleResult", "SccResponseMessage", "SourcesDataMessage", "SccsDataMessage"]


def targets(tier):
    ts = [
        CodecTarget("codec.ErrorInfo", E.ErrorInfo, read_skips_tag=False, field_types=FT, requires=setup_codes,
                    transient={"hidden": "set after construction by add_error_info, not transferred", "parent_error": "asserted None by write()"},
                    note="the error code travels by name and is looked up in mypy_error_codes"),
    ]
    # State transfer to workers: write() documents what it erases (meta, options, error_lines); everything
    # it does write must arrive unchanged
    from .views_nodes import fields_read_by
    from pyvc.interp import instance_fields

    written = fields_read_by(B.State, "write")
    st_transient = {f: "not transferred (documented in State.write: erased or re-created by the worker)" for f in instance_fields(B.State) if f not in written}
    st_ft = dict(FT)
    st_ft.update({
        ("State", "order"): TInt(), ("State", "id"): TStr(), ("State", "path"): TOpt(TStr()), ("State", "source"): TOpt(TStr()),
        ("State", "ignore_all"): TBool(), ("State", "caller_line"): TInt(), ("State", "import_context"): TLList(TTuple([TStr(), TInt()])),
        ("State", "interface_hash"): TBytes(), ("State", "meta_source_hash"): TOpt(TStr()), ("State", "dependencies"): TSeq(TStr()),
        ("State", "suppressed"): TSeq(TStr()), ("State", "priorities"): TMap(TStr(), TInt()), ("State", "dep_line_map"): TMap(TStr(), TInt()),
        ("State", "dep_hashes"): TMap(TStr(), TBytes()), ("State", "size_hint"): TInt(),
        ("BuildManager", "cwd"): TStr(),
    })
    ts.append(CodecTarget("codec.build.State", B.State, read_skips_tag=False, field_types=st_ft, transient=st_transient,
                          read_args=lambda I, env: [I.make(TObj(B.BuildManager), "manager")],
                          extra_overrides={"mypy.build:State.add_ancestors": noop, "posixpath:isabs": returns(TBool(), "isabs"),
                                           "posixpath:normpath": returns(TStr(), "normpath"), "mypy.util:os_path_join": returns(TStr(), "joined")},
                          note="manager-dependent derived fields (abspath, ancestors) are re-created, not transferred"))
    for name in MESSAGES:
        cls = getattr(B, name)
        ts.append(CodecTarget(f"codec.build.{name}", cls, read_skips_tag=(name != "ModuleResult"), field_types=FT, extra_overrides=JSON_OV,
                              construct=True, init_types=INIT, field_invs=FIELD_INVS, requires=req_response if name == "SccResponseMessage" else None))
    return ts
