"""helpers shared by the sidecar contracts"""
from __future__ import annotations

import z3

from pyvc.interp import NONE
from pyvc.sym import *
from pyvc.types import *


def returns(ty, name="ret", native_real=False):
    """callee contract: no effect, returns an arbitrary value of type ty.  native_real: in a native
    replay the real callee is simply left in place (harmless, e.g. sys.stdout.isatty)"""

    def h(I, args, kwargs):
        return I.make(ty, name)

    h.native_real = native_real
    return h


def noop(I, args, kwargs):
    return NONE


def record(tag, ret=None):
    """callee contract: no effect on modelled state; the call is appended to the ghost event log"""

    def h(I, args, kwargs):
        I.ctx.events.append((tag, list(args), dict(kwargs)))
        return ret if ret is not None else NONE

    return h


def field(o, name):
    return o.fields[name]


def keyed_set(elem=None, keyfield="code"):
    t = TSet(elem or TStr())
    t.keyfield = keyfield
    return t


def ival(v):
    if isinstance(v, SInt):
        return v.t
    return z3.If(v.t, z3.IntVal(1), z3.IntVal(0))


def live(spec):
    from pyvc.target import resolve

    return resolve(spec)


def isnone(v):
    """z3 Bool: v is None"""
    if isinstance(v, SOpt):
        return v.isnone
    return z3.BoolVal(isinstance(v, SNoneT))


def term(v):
    """z3 term of a scalar (for SOpt: its value, meaningful only when not None)"""
    if isinstance(v, SOpt):
        return term(v.val)
    if isinstance(v, SBool):
        return v.t
    return v.t
