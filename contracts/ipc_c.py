"""C16 'messages arrive complete and in order however the byte stream is fragmented': contracts on
IPCBase.frame_from_buffer / read_bytes / write_bytes (posix branches) and dmypy_util.receive."""
from __future__ import annotations

import struct

import z3

from pyvc.interp import NONE, LoopSpec
from pyvc.sym import *
from pyvc.target import Target
from pyvc.types import *
from .common import *
from . import spec_ipc as SP

import mypy.ipc as IPC

FIELD_TYPES = {
    ("IPCBase", "buffer"): TBytes(mutable=True),
    ("IPCBase", "message_size"): TOpt(TInt()),
    ("IPCBase", "timeout"): TOpt(TFloat()),
    ("IPCBase", "name"): TStr(),
    ("IPCBase", "connection"): TAny(),
}


def be32(t):
    """big-endian value of the first four bytes of a byte sequence"""
    return t[0] * (256 ** 3) + t[1] * (256 ** 2) + t[2] * 256 + t[3]


def all_bytes(I, t, tag):
    """requires: every element of the sequence is a byte"""
    j = z3.Int("byte_j_" + tag)
    I.ctx.assume(z3.ForAll([j], z3.Implies(z3.And(j >= 0, j < z3.Length(t)), z3.And(t[j] >= 0, t[j] < 256))))


def rep_inv(buf_t, ms):
    """representation invariant of the reassembly state"""
    return z3.Or(isnone(ms), z3.And(z3.Length(buf_t) >= 4, term(ms) == be32(buf_t)))


def sub(t, lo, n):
    return z3.Extract(t, lo, n)


# ---- frame_from_buffer


def setup_frame(I):
    self = I.make(TObj(IPC.IPCBase), "self")
    buf = I.getattr(self, "buffer")
    ms = I.getattr(self, "message_size")
    all_bytes(I, buf.t, "buf")
    I.ctx.assume(rep_inv(buf.t, ms))
    return {"args": [self], "self": self, "buf0": buf.t, "ms0": ms}


def frame_post(I, self, B0, res):
    """complete first frame present => it is returned and removed; otherwise nothing changes
    (except that the size of the pending frame may now be remembered)"""
    buf1 = I.getattr(self, "buffer").t
    ms1 = I.getattr(self, "message_size")
    n = be32(B0)
    complete = z3.And(z3.Length(B0) >= 4, z3.Length(B0) >= 4 + n)
    res = I.unopt(res)
    if res is NONE:
        return z3.And(z3.Not(complete), buf1 == B0, rep_inv(buf1, ms1))
    return z3.And(complete, res.t == sub(B0, 4, n), buf1 == sub(B0, 4 + n, z3.Length(B0) - 4 - n), isnone(ms1))


def ens_frame(I, env, res):
    return frame_post(I, env["self"], env["buf0"], res)


# ---- read_bytes (posix): for every segmentation of the incoming stream into recv() chunks


def recv_contract(I, args, kwargs):
    """socket.recv: an arbitrary non-empty chunk of at most `size` bytes that continues the ghost
    stream, or b'' when the peer has closed; may raise OSError"""
    c = I.ctx
    g = c.ghost
    k = len([e for e in c.events if e[0] == "recv"])
    which = c.choose(3, "recv")
    if which == 2:
        c.events.append(("recv", "raise"))
        I.raise_exc(ConnectionResetError, "recv")
    chunk = c.fresh(f"chunk{k}", BytesS)
    if which == 1:
        c.events.append(("recv", "closed"))
        return SBytes(z3.Empty(BytesS))
    c.assume(z3.Length(chunk) > 0)
    all_bytes(I, chunk, f"c{k}")
    g["received"] = z3.Concat(g["received"], chunk)
    c.events.append(("recv", "data"))
    return SBytes(chunk)


def setup_read(I):
    self = I.make(TObj(IPC.IPCBase), "self")
    buf = I.getattr(self, "buffer")
    ms = I.getattr(self, "message_size")
    all_bytes(I, buf.t, "buf")
    I.ctx.assume(rep_inv(buf.t, ms))
    I.ctx.ghost["received"] = z3.Empty(BytesS)
    I.ctx.ghost["B0"] = buf.t
    I.ctx.ghost["self"] = self
    conn = I.make(TObj(SP.FakeConnection), "connection")
    self.fields["connection"] = conn
    return {"args": [self], "self": self, "buf0": buf.t}


def read_loop_inv(I, env):
    """no frame extracted yet: buffer = initial buffer ++ everything received so far; RI holds"""
    g = I.ctx.ghost
    self = g["self"]
    buf = I.getattr(self, "buffer").t
    ms = I.getattr(self, "message_size")
    return z3.And(buf == z3.Concat(g["B0"], g["received"]), rep_inv(buf, ms))


def ens_read(I, env, res):
    """a non-empty result is exactly the first complete frame of (initial buffer ++ bytes received),
    the remainder stays buffered -- whatever the chunking; an empty result means the peer closed
    before a complete non-empty frame was available"""
    g = I.ctx.ghost
    self = env["self"]
    T = z3.Concat(g["B0"], g["received"])
    buf1 = I.getattr(self, "buffer").t
    ms1 = I.getattr(self, "message_size")
    n = be32(T)
    complete = z3.And(z3.Length(T) >= 4, z3.Length(T) >= 4 + n)
    closed = any(e == ("recv", "closed") for e in I.ctx.events)
    got = z3.And(complete, res.t == sub(T, 4, n), buf1 == sub(T, 4 + n, z3.Length(T) - 4 - n), isnone(ms1))
    nothing = z3.And(z3.Length(res.t) == 0, z3.Or(z3.BoolVal(closed), z3.And(complete, n == 0)))
    return z3.If(z3.Length(res.t) > 0, got, nothing)


class RecvHavoc:
    pass


def read_targets():
    loops = {"while True": LoopSpec(inv=read_loop_inv, modifies=[("self", "buffer"), ("self", "message_size")], havoc_types={"bdata": TOpt(TBytes()), "more": TBytes()})}
    return [
        Target("ipc.frame_from_buffer", "mypy.ipc:IPCBase.frame_from_buffer", setup_frame, ensures=[("first-complete-frame-or-nothing", ens_frame)],
               raises=(), field_types=FIELD_TYPES),
        Target("ipc.read_bytes", "mypy.ipc:IPCBase.read_bytes", setup_read, ensures=[("frame-independent-of-chunking", ens_read)],
               raises=(OSError,), field_types=FIELD_TYPES, loops=loops,
               overrides={"contracts.spec_ipc:FakeConnection.recv": recv_contract, "FakeConnection.recv": recv_contract},
               note="posix branch (sys.platform of the check host); recv is an arbitrary chunking of an arbitrary stream"),
    ]


# ---- write_bytes and the round trip


def setup_write(I):
    self = I.make(TObj(IPC.IPCBase), "self")
    conn = I.make(TObj(SP.FakeConnection), "connection")
    self.fields["connection"] = conn
    data = I.make(TBytes(), "data")
    all_bytes(I, data.t, "data")
    wire0 = I.getattr(conn, "wire")
    return {"args": [self, data], "self": self, "data": data, "conn": conn, "wire0": wire0.t}


def ens_write(I, env, res):
    """one call puts exactly be32(len(data)) ++ data on the wire"""
    d = env["data"].t
    n = z3.Length(d)
    wire1 = I.getattr(env["conn"], "wire").t
    added = sub(wire1, z3.Length(env["wire0"]), z3.Length(wire1) - z3.Length(env["wire0"]))
    return z3.And(z3.Length(added) == 4 + n, be32(added) == n, sub(added, 4, n) == d, sub(wire1, 0, z3.Length(env["wire0"])) == env["wire0"])


def setup_roundtrip(I):
    conn = I.make(TObj(IPC.IPCBase), "conn")
    data = I.make(TBytes(), "data")
    rest = I.make(TBytes(), "rest")
    all_bytes(I, data.t, "data")
    all_bytes(I, rest.t, "rest")
    I.ctx.assume(z3.Length(data.t) < 2 ** 32)
    return {"args": [conn, data, rest], "data": data, "rest": rest}


def ens_roundtrip(I, env, res):
    got, buf, ms = res.items
    got = I.unopt(got)
    if got is NONE:
        return z3.BoolVal(False)
    return z3.And(got.t == env["data"].t, buf.t == env["rest"].t, isnone(ms))


def write_targets():
    ft = dict(FIELD_TYPES)
    ft[("FakeConnection", "wire")] = TBytes(mutable=True)
    return [
        Target("ipc.write_bytes", "mypy.ipc:IPCBase.write_bytes", setup_write, ensures=[("frame-on-the-wire", ens_write)],
               raises=(struct.error,), field_types=ft,
               exc_ensures=[("struct.error-only-for-oversize", lambda I, env, e: z3.Length(env["data"].t) >= 2 ** 32)],
               note="struct.error escapes for payloads of 2**32 bytes or more (caller obligation)"),
        Target("ipc.roundtrip", "contracts.spec_ipc:roundtrip", setup_roundtrip, ensures=[("decode-of-encode-is-identity", ens_roundtrip)],
               raises=(), field_types=ft, note="executable lemma over the real write_bytes and frame_from_buffer"),
    ]


# ---- a new connection starts with a clean reassembly state ('whatever a client does on a connection ...
# the results of later requests are unaffected'): the server object outlives its connections, so what an
# earlier client left half-sent must not be prepended to the next client's bytes


class FakeSock:
    def accept(self):
        raise NotImplementedError


class FakeConn:
    def setsockopt(self, *a):
        raise NotImplementedError


def setup_enter(I):
    self = I.make(TObj(IPC.IPCServer), "self")
    self.cands = [IPC.IPCServer]
    buf = I.getattr(self, "buffer")
    all_bytes(I, buf.t, "buf")
    return {"args": [self], "self": self}


def ens_enter(I, env, res):
    self = env["self"]
    return z3.And(z3.Length(I.getattr(self, "buffer").t) == 0, isnone(I.getattr(self, "message_size")))


def enter_targets():
    ft = dict(FIELD_TYPES)
    ft[("IPCServer", "sock")] = TObj(FakeSock)
    conn = lambda I, a, k: STuple([I.new_object(FakeConn), SOpaque("peer")])
    ov = {"contracts.ipc_c:FakeSock.accept": conn, "contracts.ipc_c:FakeConn.setsockopt": noop}
    return [Target("ipc.server_enter.clean_receive_state", "mypy.ipc:IPCServer.__enter__", setup_enter, ensures=[("new-connection-starts-with-an-empty-reassembly-buffer", ens_enter)],
                   raises=(IPC.IPCException,), overrides=ov, field_types=ft, note="posix branch; socket.accept is an arbitrary new connection")]


def targets(tier):
    return read_targets() + write_targets() + enter_targets()
