"""Contracts for mypy/reachability.py (C12: sys.version_info / sys.platform tests get the value they
have at run time for the configured target; C20: never raises)."""
from __future__ import annotations

import z3

from pyvc.interp import NONE, LoopSpec
from pyvc.sym import *
from pyvc.target import Target
from pyvc.types import *
from .common import *
from . import spec_reach as SP

import mypy.nodes as N
import mypy.reachability as R
from mypy.options import Options

AT, MT, AF, MF, UNK = R.ALWAYS_TRUE, R.MYPY_TRUE, R.ALWAYS_FALSE, R.MYPY_FALSE, R.TRUTH_VALUE_UNKNOWN

FIELD_TYPES = {
    ("Options", "python_version"): TTuple([TInt(), TInt()]),
    ("Options", "platform"): TStr(),
    ("Options", "always_true"): TSeq(TStr()),
    ("Options", "always_false"): TSeq(TStr()),
    ("IntExpr", "value"): TInt(),
    ("StrExpr", "value"): TStr(),
    ("NameExpr", "name"): TStr(),
    ("MemberExpr", "name"): TStr(),
    ("MemberExpr", "expr"): TObj(N.Expression),
    ("UnaryExpr", "op"): TStr(),
    ("UnaryExpr", "expr"): TObj(N.Expression),
    ("OpExpr", "op"): TStr(),
    ("OpExpr", "left"): TObj(N.Expression),
    ("OpExpr", "right"): TObj(N.Expression),
    ("ComparisonExpr", "operators"): TSeq(TStr()),
    ("ComparisonExpr", "operands"): TLList(TObj(N.Expression)),
    ("TupleExpr", "items"): TLList(TObj(N.Expression)),
    ("CallExpr", "args"): TLList(TObj(N.Expression)),
    ("CallExpr", "callee"): TObj(N.Expression),
    ("IndexExpr", "base"): TObj(N.Expression),
    ("IndexExpr", "index"): TObj(N.Expression),
    ("SliceExpr", "begin_index"): TOpt(TObj(N.Expression)),
    ("SliceExpr", "end_index"): TOpt(TObj(N.Expression)),
    ("SliceExpr", "stride"): TOpt(TObj(N.Expression)),
}


def inv_operands(I, o, val):
    """type invariant of ComparisonExpr: len(operands) == len(operators) + 1 >= 2 (fastparse builds it so)"""
    ops = I.getattr(o, "operators")
    I.ctx.assume(z3.And(val.length == z3.Length(ops.t) + 1, z3.Length(ops.t) >= 1))


def inv_operators(I, o, val):
    if "operands" in o.fields:
        I.ctx.assume(z3.And(o.fields["operands"].length == z3.Length(val.t) + 1, z3.Length(val.t) >= 1))
    else:
        I.ctx.assume(z3.Length(val.t) >= 1)


FIELD_INVS = {("ComparisonExpr", "operands"): inv_operands, ("ComparisonExpr", "operators"): inv_operators}


def literal_contract(I, args, kwargs):
    """shared contract of reachability.contains_int_or_tuple_of_ints / spec_reach.literal_operand:
    a function of the expression: None, an int, or a tuple of ints of arbitrary length"""
    e = args[0]
    key = ("lit", id(e))
    g = I.ctx.ghost
    if key not in g and g.get(("vform", id(e)), NONE) is not NONE:
        g[key] = NONE  # an expression is not both a literal and a sys.version_info form
    if key not in g:
        g[key] = I.make(TUnion([TNone(), TInt(), TSeq(TInt(), mutable=False)]), f"lit({e.name})")
    return g[key]


def vform_contract(I, args, kwargs):
    """contract of reachability.contains_sys_version_info: a function of the expression giving
    None, an index, or a (begin, end) pair of optional ints"""
    e = args[0]
    key = ("vform", id(e))
    g = I.ctx.ghost
    if key not in g and g.get(("lit", id(e)), NONE) is not NONE:
        g[key] = NONE  # an expression is not both a literal and a sys.version_info form
    if key not in g:
        g[key] = I.make(TUnion([TNone(), TInt(), TTuple([TOpt(TInt()), TOpt(TInt())])]), f"vform({e.name})")
    return g[key]


def spec_operand_from_vform(I, args, kwargs):
    """spec_reach.version_info_operand(e, vi) expressed through the ghost of contains_sys_version_info
    (relation proved by target reach.contains_sys_version_info): None -> NOTHING, index i -> vi[i]
    (NOTHING when out of range), (b, e) -> vi[b:e]."""
    e, vi = args
    f = vform_contract(I, [e], {})
    c = I.ctx
    nothing = I.reflect(SP.NOTHING)
    if f is NONE:
        return nothing
    if isinstance(f, SInt):
        if c.branch(z3.And(f.t >= -5, f.t < 5)):
            return I.subscript(vi, f)
        return nothing
    from pyvc.interp import SSlice

    return I.subscript(vi, SSlice(f.items[0], f.items[1], NONE))


def setup_vform(I):
    expr = I.make(TObj(N.Expression), "expr")
    pyv = I.make(TTuple([TInt(), TInt()]), "pyversion")
    return {"args": [expr], "expr": expr, "pyversion": pyv}


def ens_vform(I, env, res):
    """what contains_sys_version_info returns denotes the run-time value the specification assigns"""
    vi = fresh_vi(I, env["pyversion"])
    sp = I.call_function(SP.version_info_operand, [env["expr"], vi], {})
    res = I.unopt(res)
    if res is NONE:
        return z3.BoolVal(is_nothing(sp))  # the code and the specification recognise the same forms
    from pyvc.interp import SSlice

    if isinstance(res, (SInt, SBool)):
        i = ival(res)
        if I.ctx.branch(z3.And(i >= -5, i < 5)):
            return z3.BoolVal(False) if is_nothing(sp) else I.eq(sp, I.subscript(vi, SInt(i)))
        return z3.BoolVal(is_nothing(sp))
    if isinstance(res, STuple) and len(res.items) == 2:
        if is_nothing(sp):
            return z3.BoolVal(False)
        return I.eq(sp, I.subscript(vi, SSlice(res.items[0], res.items[1], NONE)))
    return z3.BoolVal(False)


def fresh_vi(I, pyversion):
    c = I.ctx
    micro, lvl, serial = c.fresh("micro", IntS), c.fresh("releaselevel", IntS), c.fresh("serial", IntS)
    c.assume(z3.And(micro >= 0, serial >= 0))
    return STuple([pyversion.items[0], pyversion.items[1], SInt(micro), SInt(lvl), SInt(serial)])


def is_nothing(v):
    return isinstance(v, SObj) and v.live is SP.NOTHING


def truth3(I, res_t, rt):
    """result vs run-time value `rt` (SBool) or NOTHING"""
    if is_nothing(rt):
        return res_t == UNK
    b = I.truth(rt)
    return z3.And(z3.Implies(res_t == AT, b), z3.Implies(res_t == AF, z3.Not(b)), z3.Or(res_t == AT, res_t == AF, res_t == UNK))


def operand_form(e):
    if not isinstance(e, SObj):
        return "?"
    names = {k.__name__ for k in e.cands}
    if names == {"MemberExpr"}:
        return "unsliced"
    if names == {"IndexExpr"}:
        idx = e.fields.get("index")
        if isinstance(idx, SObj):
            n2 = {k.__name__ for k in idx.cands}
            if n2 == {"IntExpr"}:
                return "indexed"
            if n2 == {"SliceExpr"}:
                return "sliced"
        return "index?"
    return "other"


# ---- consider_sys_version_info


def setup_version(I):
    expr = I.make(TObj(N.Expression), "expr")
    pyv = I.make(TTuple([TInt(), TInt()]), "pyversion")
    return {"args": [expr, pyv], "expr": expr, "pyversion": pyv}


def ens_version(I, env, res):
    if concrete_int(ival(res)) == UNK:
        return z3.BoolVal(True)  # no claim made: nothing to check (and nothing to evaluate)
    vi = fresh_vi(I, env["pyversion"])
    rt = I.call_function(SP.rt_version_check, [env["expr"], vi], {})
    e = env["expr"]
    forms = []
    ops = e.fields.get("operands")
    if ops is not None:
        forms = [operand_form(ops.cells.get(0)), operand_form(ops.cells.get(1))]
    I.ctx.path_info = dict(I.ctx.path_info or {}, forms=forms, rt=("NOTHING" if is_nothing(rt) else "bool"))
    return truth3(I, as_int_term(res), rt)


def as_int_term(v):
    return ival(v)


def classify_version(ob):
    """signature of a counterexample: which kind of sys.version_info operand it uses"""
    m = ob.get("model") or {}
    kinds = set()
    for k, v in m.items():
        if k.startswith("vform(") and k.endswith(".1?none"):
            kinds.add("end-bound-absent" if v is True else "end-bound-given")
    idx = any(k.startswith("vform(") and k.endswith(")") for k in m)
    if not kinds and idx:
        kinds.add("indexed")
    return "version_info:" + "+".join(sorted(kinds) or ["?"])


def setup_platform(I):
    expr = I.make(TObj(N.Expression), "expr")
    plat = I.make(TStr(), "platform")
    return {"args": [expr, plat], "expr": expr, "platform": plat}


def ens_platform(I, env, res):
    rt = I.call_function(SP.rt_platform_check, [env["expr"], env["platform"]], {})
    return truth3(I, ival(res), rt)


# ---- fixed_comparison


def setup_fixed(I):
    kind = I.ctx.choose(3, "kind")
    ty = [TInt(), TStr(), TTuple([TInt(), TInt()])][kind]
    l, r = I.make(ty, "left"), I.make(ty, "right")
    op = I.make(TStr(), "op")
    return {"args": [l, op, r], "left": l, "right": r, "op": op}


def ens_fixed(I, env, res):
    rt = I.call_function(SP.py_compare, [env["left"], env["op"], env["right"]], {})
    return truth3(I, ival(res), rt)


# ---- contains_int_or_tuple_of_ints against the shared literal contract (bounded: tuple length)


def setup_lit(I):
    expr = I.make(TObj(N.Expression), "expr")
    return {"args": [expr], "expr": expr}


def ens_lit(I, env, res):
    sp = I.call_function(SP.literal_operand, [env["expr"]], {})
    if sp is NONE or res is NONE:
        return z3.BoolVal(sp is NONE and res is NONE)
    return I.eq(sp, res)


def literal_kind_contract(I, args, kwargs):
    """ASSUMED contract of mypy.literals.literal (not verified: visitor dispatch through
    Expression.accept): LITERAL_YES for an IntExpr and for a TupleExpr all of whose items are
    IntExpr; any literal kind otherwise."""
    import mypy.literals as L
    from pyvc.builtins_model import isinstance_model

    e = args[0]
    if isinstance_model(I, e, I.reflect(N.IntExpr)):
        return SInt(L.LITERAL_YES)
    if isinstance_model(I, e, I.reflect(N.TupleExpr)):
        items = I.getattr(e, "items")
        if I.unroll is not None:
            k = 0
            all_int = True
            while k <= I.unroll and I.ctx.branch(I.llist_len(items) > k):
                if k == I.unroll:
                    all_int = False
                    break
                if not isinstance_model(I, I.llist_get(items, k), I.reflect(N.IntExpr)):
                    all_int = False
                    break
                k += 1
            if all_int:
                return SInt(L.LITERAL_YES)
    r = I.ctx.fresh("literal_kind", IntS)
    I.ctx.assume(z3.Or(r == L.LITERAL_YES, r == L.LITERAL_TYPE, r == L.LITERAL_NO))
    return SInt(r)


# ---- infer_condition_value: the not / and / or algebra and the name rules


def child_contract(I, args, kwargs):
    """contract assumed for the recursive calls: an arbitrary truth value whose meaning is given by two
    ghost booleans (value under mypy, value at run time) per sub-expression"""
    e = args[0]
    g = I.ctx.ghost
    key = ("icv", id(e))
    if key not in g:
        c = I.ctx
        r = c.fresh(f"icv({e.name})", IntS)
        m, rt = c.fresh(f"mypy_value({e.name})", BoolS), c.fresh(f"runtime_value({e.name})", BoolS)
        c.assume(z3.And(r >= 1, r <= 5))
        c.assume(meaning(r, m, rt))
        g[key] = (SInt(r), m, rt)
    return g[key][0]


def meaning(r, m, rt):
    """what a truth value claims: ALWAYS_* speak about both times, MYPY_* about mypy's view"""
    return z3.And(z3.Implies(r == AT, z3.And(m, rt)), z3.Implies(r == AF, z3.And(z3.Not(m), z3.Not(rt))),
                  z3.Implies(r == MT, m), z3.Implies(r == MF, z3.Not(m)))


def leaf_contract(which):
    """contract of consider_sys_version_info / consider_sys_platform as used by infer_condition_value:
    the result is ALWAYS_TRUE / ALWAYS_FALSE / UNKNOWN and, when not UNKNOWN, it is the run-time value
    of the test (ghost boolean per expression) -- proved by the targets of those two functions."""

    def h(I, args, kwargs):
        e = args[0]
        g = I.ctx.ghost
        key = (which, id(e))
        if key not in g:
            c = I.ctx
            r = c.fresh(f"{which}({e.name})", IntS)
            rt = c.fresh(f"runtime_{which}({e.name})", BoolS)
            c.assume(z3.Or(r == AT, r == AF, r == UNK))
            c.assume(z3.And(z3.Implies(r == AT, rt), z3.Implies(r == AF, z3.Not(rt))))
            g[key] = (SInt(r), rt)
        return g[key][0]

    return h


def setup_icv(I):
    expr = I.make(TObj(N.Expression), "expr")
    options = I.make(TObj(Options), "options")
    # requires: configured always-true / always-false names are non-empty identifiers
    for fld in ("always_true", "always_false"):
        s_ = I.getattr(options, fld).t
        I.ctx.assume(z3.Not(z3.Contains(s_, z3.Unit(z3.StringVal("")))))
    return {"args": [expr, options], "expr": expr, "options": options}


def ens_icv_algebra(I, env, res):
    """for not / and / or: the result's claim follows from the operands' claims"""
    e = env["expr"]
    g = I.ctx.ghost
    names = {k.__name__ for k in e.cands}
    r = ival(res)

    def sub(field):
        o = e.fields.get(field)
        return g.get(("icv", id(o))) if o is not None else None

    def meaning2(r, m, rt, no_mypy_operand):
        # mypy's own view always; the run-time claim of ALWAYS_* only when no MYPY_* operand is
        # involved (MYPY_* values are deliberately different at run time: TYPE_CHECKING)
        return z3.And(z3.Implies(z3.Or(r == AT, r == MT), m), z3.Implies(z3.Or(r == AF, r == MF), z3.Not(m)),
                      z3.Implies(no_mypy_operand, z3.And(z3.Implies(r == AT, rt), z3.Implies(r == AF, z3.Not(rt)))))

    if names == {"UnaryExpr"} and sub("expr") is not None:
        cr, m, rt = sub("expr")
        return z3.And(meaning2(r, z3.Not(m), z3.Not(rt), z3.And(cr.t != MT, cr.t != MF)),
                      z3.Implies(cr.t == UNK, r == UNK))
    if names == {"OpExpr"} and sub("left") is not None and sub("right") is not None:
        lc, lm, lr = sub("left")
        rc, rm, rr = sub("right")
        op = e.fields["op"].t
        plain = z3.And(lc.t != MT, lc.t != MF, rc.t != MT, rc.t != MF)
        return z3.And(z3.Implies(op == "or", meaning2(r, z3.Or(lm, rm), z3.Or(lr, rr), plain)),
                      z3.Implies(op == "and", meaning2(r, z3.And(lm, rm), z3.And(lr, rr), plain)),
                      z3.Implies(z3.And(op != "or", op != "and"), r == UNK))
    return None  # leaves are covered by ens_icv_leaf


def ens_icv_leaf(I, env, res):
    """leaves: a version test decides first, then a platform test, then the recognised names; the
    answer of a version / platform test is passed through unchanged (its run-time meaning is the
    callee's contract)"""
    e = env["expr"]
    g = I.ctx.ghost
    names = {k.__name__ for k in e.cands}
    r = ival(res)
    if names == {"UnaryExpr"} and "expr" in e.fields and ("icv", id(e.fields["expr"])) in g:
        return None
    if names == {"OpExpr"}:
        return None
    opts = env["options"]
    rv = g.get(("version", id(e)))
    rp = g.get(("platform", id(e)))
    name_rule = z3.IntVal(UNK)
    if names <= {"NameExpr", "MemberExpr"} and "name" in e.fields:
        n = e.fields["name"].t
        at = I.getattr(opts, "always_true").t
        af = I.getattr(opts, "always_false").t
        in_at = z3.Contains(at, z3.Unit(n))
        in_af = z3.Contains(af, z3.Unit(n))
        name_rule = z3.If(n == "PY2", AF, z3.If(n == "PY3", AT, z3.If(z3.Or(n == "MYPY", n == "TYPE_CHECKING"), MT, z3.If(in_at, AT, z3.If(in_af, AF, UNK)))))
    exp = name_rule
    if rp is not None:
        exp = z3.If(rp[0].t != UNK, rp[0].t, exp)
    if rv is not None:
        exp = z3.If(rv[0].t != UNK, rv[0].t, exp)
    elif names & {"NameExpr", "MemberExpr"} == set() and rp is None:
        pass
    return r == exp


def targets(tier):
    lit_ov = {"mypy.reachability:contains_int_or_tuple_of_ints": literal_contract, "contracts.spec_reach:literal_operand": literal_contract,
              "mypy.reachability:contains_sys_version_info": vform_contract, "contracts.spec_reach:version_info_operand": spec_operand_from_vform}
    rec_ov = dict(lit_ov)
    rec_ov["mypy.reachability:infer_condition_value"] = None  # placeholder, replaced below
    ts = [
        Target("reach.fixed_comparison", "mypy.reachability:fixed_comparison", setup_fixed,
               ensures=[("result-is-python-comparison", ens_fixed)], raises=(), field_types=FIELD_TYPES),
        Target("reach.consider_sys_version_info", "mypy.reachability:consider_sys_version_info", setup_version,
               ensures=[("static-value-equals-runtime-value-for-every-micro-release", ens_version)], raises=(),
               overrides=lit_ov, field_types=FIELD_TYPES, field_invs=FIELD_INVS, classify=classify_version,
               note="contains_int_or_tuple_of_ints and contains_sys_version_info enter through their contracts, proved separately"),
        Target("reach.contains_sys_version_info", "mypy.reachability:contains_sys_version_info", setup_vform,
               ensures=[("denotes-the-runtime-operand", ens_vform)], raises=(), field_types=FIELD_TYPES, field_invs=FIELD_INVS),
        Target("reach.consider_sys_platform", "mypy.reachability:consider_sys_platform", setup_platform,
               ensures=[("static-value-equals-runtime-value", ens_platform)], raises=(), field_types=FIELD_TYPES, field_invs=FIELD_INVS),
        Target("reach.contains_int_or_tuple_of_ints", "mypy.reachability:contains_int_or_tuple_of_ints", setup_lit,
               ensures=[("value-of-literal", ens_lit)], raises=(), field_types=FIELD_TYPES, unroll=4,
               overrides={"mypy.literals:literal": literal_kind_contract},
               bounded="tuple displays of at most 3 items (loops over TupleExpr.items unrolled 4x)"),
    ]
    icv_ov = {"mypy.reachability:consider_sys_version_info": leaf_contract("version"),
              "mypy.reachability:consider_sys_platform": leaf_contract("platform")}

    def rec(I, args, kwargs):
        # only the *recursive* calls (depth > 0) use the contract
        return child_contract(I, args, kwargs)

    class RecOverride:
        def __call__(self, I, args, kwargs):
            return child_contract(I, args, kwargs)

    ts.append(Target("reach.infer_condition_value", "mypy.reachability:infer_condition_value", setup_icv,
                     ensures=[("not-and-or-algebra", ens_icv_algebra), ("leaf-values", ens_icv_leaf)], raises=(),
                     overrides=dict(icv_ov, **{"mypy.reachability:infer_condition_value@rec": RecOverride()}),
                     field_types=FIELD_TYPES, field_invs=FIELD_INVS, classify=classify_version,
                     note="recursive calls use the contract (partial correctness)"))
    return ts
