"""C13 'the exit status tells the truth': util.count_stats and the exit-code statements of main.main."""
from __future__ import annotations

import z3

from pyvc.interp import NONE
from pyvc.sym import *
from pyvc.target import Target
from pyvc.types import *
from .common import *

NOTE, ERROR = z3.StringVal(": note:"), z3.StringVal(": error:")
MSGS = TSeq(TStr())


def is_note(m):
    """a rendered message `<location>: <severity>: <text>` is a note iff its SEVERITY FIELD is `note`:
    the first severity marker in the line is ': note:' (the text itself may quote either marker)"""
    i, j = z3.IndexOf(m, ERROR, 0), z3.IndexOf(m, NOTE, 0)
    return z3.And(j >= 0, z3.Or(i < 0, j < i))


def is_error(m):
    i, j = z3.IndexOf(m, ERROR, 0), z3.IndexOf(m, NOTE, 0)
    return z3.And(i >= 0, z3.Or(j < 0, i < j))


# ---- count_stats (contract used by the region proof; verified below on bounded lists)


def count_stats_contract(I, args, kwargs):
    msgs = args[0].t
    c = I.ctx
    ne, nn, nf = c.fresh("n_errors", IntS), c.fresh("n_notes", IntS), c.fresh("n_files", IntS)
    n = z3.Length(msgs)
    j = z3.Int("cs_j")
    rng = z3.And(j >= 0, j < n)
    c.assume(z3.And(ne >= 0, ne <= n, nn >= 0, nn <= n, nf >= 0, nf <= ne))
    c.assume((nn == n) == z3.ForAll([j], z3.Implies(rng, is_note(msgs[j]))))
    c.assume((nn == 0) == z3.ForAll([j], z3.Implies(rng, z3.Not(is_note(msgs[j])))))
    c.assume((ne == n) == z3.ForAll([j], z3.Implies(rng, is_error(msgs[j]))))
    c.assume((ne == 0) == z3.ForAll([j], z3.Implies(rng, z3.Not(is_error(msgs[j])))))
    c.assume((nf == 0) == (ne == 0))
    return STuple([SInt(ne), SInt(nn), SInt(nf)])


def setup_count(I):
    msgs = I.make(MSGS, "messages")
    return {"args": [msgs], "messages": msgs}


def ens_count(I, env, res):
    """errors / notes are the messages whose severity field is error / note (bounded lists)"""
    msgs = env["messages"].t
    a, b, c = [ival(I.unopt(x)) for x in res.items]
    # the unrolled path fixes the list length; the statement is written for every length the bound admits
    # (no solver probing here: the goal must not depend on solver budgets)
    cases = []
    for n in range(0, 5):
        ne = z3.Sum([z3.If(is_error(msgs[i]), 1, 0) for i in range(n)] + [z3.IntVal(0)])
        nn = z3.Sum([z3.If(is_note(msgs[i]), 1, 0) for i in range(n)] + [z3.IntVal(0)])
        cases.append(z3.Implies(z3.Length(msgs) == n, z3.And(a == ne, b == nn, (c == 0) == (ne == 0), c >= 0, c <= ne)))
    return z3.And(z3.Length(msgs) <= 4, *cases)


# ---- the exit-code statements of main.main


def setup_region(I):
    import mypy.util as U

    msgs = I.make(MSGS, "messages")
    blockers = I.make(TBool(), "blockers")
    # requires (from run_build): a blocking error always comes with at least one message
    I.ctx.assume(z3.Implies(blockers.t, z3.Length(msgs.t) > 0))
    return {"locals": {"messages": msgs, "blockers": blockers, "util": SModule(U)}, "messages": msgs, "blockers": blockers}


def ens_exit_code(I, env, res):
    """exit status 0 iff every reported message is a note (in particular: no message at all);
    otherwise 2 iff a blocking error stopped analysis, else 1"""
    code = env["__locals"].get("code")
    if code is None:
        return z3.BoolVal(False)
    code = ival(I.unopt(code))
    msgs = env["messages"].t
    j = z3.Int("ec_j")
    all_notes = z3.ForAll([j], z3.Implies(z3.And(j >= 0, j < z3.Length(msgs)), is_note(msgs[j])))
    b = env["blockers"].t
    return z3.And((code == 0) == all_notes, (code == 2) == z3.And(z3.Not(all_notes), b), z3.Or(code == 0, code == 1, code == 2))


def severity_spec(m, marker, other):
    i, j = z3.IndexOf(m, marker, 0), z3.IndexOf(m, other, 0)
    return z3.And(i >= 0, z3.Or(j < 0, i < j))


def has_severity_contract(I, args, kwargs):
    """util._has_severity(message, marker, other_marker): marker occurs and no other_marker precedes it
    (verified for all strings by target exit.has_severity)"""
    return SBool(severity_spec(args[0].t, args[1].t, args[2].t))


def ens_has_severity(I, env, res):
    m, a, b = env["args"]
    return res.t == severity_spec(m.t, a.t, b.t)


def targets(tier):
    return [
        Target("exit.has_severity", "mypy.util:_has_severity", lambda I: {"args": [I.make(TStr(), "message"), SStr(ERROR), SStr(NOTE)]},
               ensures=[("first-marker-decides", ens_has_severity)], raises=(), note="severity field of a rendered message, error marker"),
        Target("exit.has_severity.note", "mypy.util:_has_severity", lambda I: {"args": [I.make(TStr(), "message"), SStr(NOTE), SStr(ERROR)]},
               ensures=[("first-marker-decides", ens_has_severity)], raises=(), note="severity field of a rendered message, note marker"),
        Target("exit.count_stats", "mypy.util:count_stats", setup_count, ensures=[("counts-marked-messages", ens_count)], raises=(),
               overrides={"mypy.util:_has_severity": has_severity_contract},
               unroll=3, bounded="message lists of at most 2 entries (comprehensions unrolled 3x)", feas_timeout_ms=700),
        Target("exit.main.exit_code", "mypy.main:main", setup_region, ensures=[("exit-status-from-messages", ens_exit_code)], raises=(),
               start_at="code = 0", cut_at="if options.error_summary:",
               overrides={"mypy.util:count_stats": count_stats_contract},
               note="region of main.main between `code = 0` and the summary output; count_stats through its contract"),
    ]
