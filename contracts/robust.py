"""C20 'any input produces diagnostics, never an internal failure': exceptional postconditions
(raises = ()) on input-reachable kernels that are not already under a functional contract."""
from __future__ import annotations

import z3

from pyvc.interp import NONE, LoopSpec, PyExc
from pyvc.sym import *
from pyvc.target import Target
from pyvc.types import *
from .common import *

import mypy.types as MT


def parse_type_comment_contract(I, args, kwargs):
    """fastparse.parse_type_comment with errors=None: returns (ignores, type) or raises SyntaxError for
    text that does not parse, or ValueError for text the tokenizer rejects (NUL bytes, lone surrogates:
    UnicodeEncodeError is a ValueError)"""
    k = I.ctx.choose(4, "parse_type_comment")
    if k == 1:
        I.raise_exc(SyntaxError, "invalid syntax")
    if k == 2:
        I.raise_exc(ValueError, "source code string cannot contain null bytes")
    if k == 3:
        I.raise_exc(UnicodeEncodeError, "surrogates not allowed")
    node = I.make(TOpt(TObj(MT.ProperType)), "parsed_type")
    return STuple([NONE, node])


def setup_pts(I):
    s = I.make(TStr(), "expr_string")
    fb = I.make(TStr(), "expr_fallback_name")
    line, col = I.make(TInt(), "line"), I.make(TInt(), "column")
    return {"args": [s, fb, line, col], "s": s}


def ens_pts(I, env, res):
    return z3.BoolVal(isinstance(res, SObj))


FIELD_TYPES = {
    ("UnboundType", "original_str_expr"): TOpt(TStr()),
    ("UnionType", "original_str_expr"): TOpt(TStr()),
    ("UnboundType", "original_str_fallback"): TOpt(TStr()),
    ("UnionType", "original_str_fallback"): TOpt(TStr()),
}


def setup_split(I):
    s = I.make(TStr(), "s")
    return {"args": [s], "s": s}


def split_outer_inv(I, env):
    i = env["i"].t
    return z3.And(i >= 0)


def split_inner_inv(I, env):
    i = env["i"].t
    return z3.And(i >= 1)


def ens_split(I, env, res):
    return z3.BoolVal(isinstance(res, STuple) and len(res.items) == 2)


def ens_split_commas(I, env, res):
    """the pieces of value.split(','), without one trailing empty piece"""
    return z3.BoolVal(isinstance(res, (ZVal, SList)))


def ens_split_words(I, env, res):
    return z3.BoolVal(isinstance(res, (ZVal, SList)))


def more_targets():
    seqstr = TSeq(TStr(), mutable=True)
    return [
        Target("robust.split_commas", "mypy.config_parser:split_commas", lambda I: {"args": [I.make(TStr(), "value")]}, ensures=[("returns-a-list", ens_split_commas)], raises=(),
               note="config values are input text; items[-1] / pop(-1) are guarded by `if items`"),
        Target("robust.split_words", "mypy.util:split_words", lambda I: {"args": [I.make(TStr(), "msg")]}, ensures=[("returns-a-list", ens_split_words)], raises=(),
               loops={"for c in msg": LoopSpec(inv=lambda I, env: z3.BoolVal(True), havoc_types={"next_word": TStr(), "res": seqstr, "allow_break": TBool()})},
               note="message wrapping for --pretty: any text"),
    ]


def targets(tier):
    seqstr = TSeq(TStr())
    loops = {
        "while i < len(s)": LoopSpec(inv=split_outer_inv, havoc_types={"cur": seqstr, "parts": seqstr, "errors": seqstr}),
        "while i < len(s) and s[i] != '\"'": LoopSpec(inv=split_inner_inv, havoc_types={"cur": seqstr}),
    }
    return [
        Target("robust.parse_type_string", "mypy.fastparse:parse_type_string", setup_pts, ensures=[("returns-a-type", ens_pts)], raises=(),
               overrides={"mypy.fastparse:parse_type_comment": parse_type_comment_contract}, field_types=FIELD_TYPES,
               note="parse_type_comment enters through its exception contract (SyntaxError | ValueError incl. UnicodeEncodeError)"),
        Target("robust.split_directive", "mypy.config_parser:split_directive", setup_split, ensures=[("returns-parts-and-errors", ens_split)], raises=(),
               loops=loops, note="inline `# mypy:` comments are input text; index safety of both scanning loops"),
    ] + more_targets()


# ---- no visitor entry point lets the 'this expression is not a type' signal escape


def check_type_translation_escapes():
    from frames import escapes

    seen, F = escapes.scan()
    if seen < 500 or "expr_to_analyzed_type" not in F:
        return [{"name": "escapes/scan", "status": "unknown", "where": f"{seen} functions scanned, propagating set {sorted(F)}: layout changed?"}]
    obs = [{"name": "escapes/propagating-functions-computed", "status": "discharged", "where": f"{seen} functions; TypeTranslationError may propagate out of: {', '.join(sorted(F))}"}]
    entry = sorted(n for n in F if n.startswith("visit_"))
    for n in entry:
        rel, ln, callee = F[n][0]
        obs.append({"name": f"escapes/visitor-entry-point-contains-the-signal/{n}", "status": "refuted", "where": f"{rel}:{ln} unprotected call of {callee}",
                    "detail": f"{n} is called by the tree traversal with no handler above it: an expression that is not a type (a call, a lambda, `int + str`) ends in INTERNAL ERROR instead of a diagnostic",
                    "key": f"escapes:{n}", "confirmed": True})
    if not entry:
        obs.append({"name": "escapes/no-visitor-entry-point-lets-TypeTranslationError-escape", "status": "discharged", "where": "visit_* methods of the semantic analyzer / expression checker"})
    return obs


def targets_escapes(tier):
    from pyvc.runner import StaticCheck

    return [StaticCheck("robust.type_translation_error_contained", check_type_translation_escapes,
                        note="fixpoint over call sites by simple name; handlers recognised: TypeTranslationError, Exception, BaseException, bare except")]


# ---- daemon update path, the 'unreached modules are deleted' scan of
# Server.fine_grained_increment_follow_imports: one generic original module.  `orig_modules` was taken before the
# update ran, so a module may have left the graph since (a module with a remembered blocker that was deleted):
# no exception escapes for any module id, and a module is scheduled for deletion exactly when it is still in
# the graph and was not reached.


class FakeStateR:
    path: str


def setup_unreached(I):
    mid = I.make(TStr(), "module_id")
    in_graph = I.ctx.choose(2, "module-still-in-the-graph?")
    st = I.new_object(FakeStateR)
    st.fields["path"] = I.make(TStr(), "path")
    graph = SDict([(mid, st)]) if in_graph else SDict([])
    seen = I.make(TSet(TStr()), "seen")
    to_delete = SList([])
    return {"args": [], "locals": {"module_id": mid, "graph": graph, "seen": seen, "to_delete": to_delete, "orig_modules": SList([mid])},
            "mid": mid, "in_graph": in_graph, "seen": seen, "to_delete": to_delete, "st": st}


def ens_unreached(I, env, res):
    reached = z3.Select(env["seen"].t, env["mid"].t)
    n = len(env["to_delete"].items)
    if not env["in_graph"]:
        return z3.BoolVal(n == 0)
    if n == 0:
        return reached
    if n != 1:
        return z3.BoolVal(False)
    it = env["to_delete"].items[0]
    return z3.And(z3.Not(reached), z3.BoolVal(isinstance(it, STuple) and it.items[0] is env["mid"] and it.items[1] is env["st"].fields["path"]))


def targets_daemon(tier):
    return [Target("robust.daemon.unreached_modules_scan", "mypy.dmypy_server:Server.fine_grained_increment_follow_imports", setup_unreached,
                   loop_body=("for module_id in orig_modules", None), ensures=[("deleted-iff-still-in-graph-and-not-reached", ens_unreached)], raises=(),
                   overrides={}, field_types={}, note="one generic module of the pre-update module list; it may have left the graph in the meantime")]


# ---- daemon update path, update.update_module_isolated when loading the changed module hits a blocker:
# 'the daemon keeps serving and later results are unaffected' -- the build state is put back: every module
# that load_graph had brought in is removed from the graph and from manager.modules again, and the changed
# module gets its previous State / tree back (or is absent again if it was new).


class FakeManagerU:
    modules: dict


class FakeErr(Exception):
    pass


def setup_blocked(I):
    import mypy.build as B

    module = I.make(TStr(), "module")
    new_id = I.make(TStr(), "new_module_id")
    I.ctx.assume(new_id.t != module.t)
    had_state = I.ctx.choose(2, "module-was-in-the-graph?")
    orig_state = I.new_object(B.State) if had_state else NONE
    orig_tree = I.new_object(__import__("mypy.nodes", fromlist=["x"]).MypyFile) if had_state else NONE
    graph = SDict([])  # the region starts after `del graph[module]` has not yet run: put the module back first
    if had_state:
        graph.entries.append((module, orig_state))
    mgr = I.new_object(FakeManagerU)
    mgr.fields["modules"] = SDict([(module, orig_tree)] if had_state else [])
    I.ctx.ghost["blocked"] = {"new_id": new_id, "graph": graph, "mgr": mgr}
    return {"args": [], "locals": {"module": module, "path": I.make(TStr(), "path"), "manager": mgr, "graph": graph, "sources": SOpaque("sources"),
                                   "previous_modules": SOpaque("previous_modules"), "followed": I.make(TBool(), "followed")},
            "module": module, "new_id": new_id, "graph": graph, "mgr": mgr, "orig_state": orig_state, "orig_tree": orig_tree, "had_state": had_state}


def load_graph_blocks(I, args, kwargs):
    """contract of build.load_graph on the failing path: it has entered some new modules (one generic one
    here) into the graph, manager.modules and new_modules, then raised a CompileError naming the blocker"""
    import mypy.build as B
    from mypy.errors import CompileError
    from pyvc.interp import PyExc

    g = I.ctx.ghost["blocked"]
    ns = I.new_object(B.State)
    ns.fields["id"] = g["new_id"]
    graph, new_modules = args[2], args[3]
    graph.entries.append((g["new_id"], ns))
    g["mgr"].fields["modules"].entries.append((g["new_id"], SOpaque("new_tree")))
    new_modules.items.append(ns)
    err = I.new_object(CompileError)
    err.fields["module_with_blocker"] = I.make(TStr(), "module_with_blocker")
    I.ctx.assume(z3.Length(err.fields["module_with_blocker"].t) > 0)
    err.fields["messages"] = SList([])
    raise PyExc(CompileError, err, "blocker", "load_graph")


def ens_blocked(I, env, res):
    graph, modules = env["graph"], env["mgr"].fields["modules"]
    nid, mod = env["new_id"], env["module"]

    def has(d, key):
        return [v for k, v in d.entries if k is key]

    gone = not has(graph, nid) and not has(modules, nid)
    if env["had_state"]:
        back = has(graph, mod) == [env["orig_state"]] and has(modules, mod) == [env["orig_tree"]]
    else:
        back = not has(graph, mod) and not has(modules, mod)
    return z3.BoolVal(bool(gone and back))


def targets_blocked(tier):
    ov = {"mypy.build:load_graph": load_graph_blocks, "mypy.server.update:load_graph": load_graph_blocks,
          "mypy.server.update:BlockedUpdate": lambda I, a, k: SOpaque("BlockedUpdate")}
    return [Target("robust.daemon.blocked_update_restores_state", "mypy.server.update:update_module_isolated", setup_blocked, start_at="orig_module = module",
                   ensures=[("graph-and-modules-restored-after-a-blocked-update", ens_blocked)], raises=(), overrides=ov, field_types={},
                   note="region from the snapshot of the old state to the BlockedUpdate return; load_graph by contract (one generic module brought in, then a blocker)")]


# ---- 'the semantic-analysis fix-point ends': a deferral may claim progress only when something changed.
# NamedTupleAnalyzer.build_namedtuple_typeinfo re-creates the tuple type on every iteration; with a
# placeholder still inside it defers, and force_progress must be `the new tuple type differs (by value) from
# the one recorded last time` -- an identity test is always true for the fresh object and keeps the fix-point
# running until the iteration cap (INTERNAL ERROR).

import mypy.types as T_
import mypy.semanal_namedtuple as SNT

TEQ = z3.Function("tuple_types_equal", IntS, IntS, BoolS)


class FakeApiN:
    def process_placeholder(self, *a, **k):
        raise NotImplementedError


def setup_progress(I):
    import mypy.nodes as N_

    self = I.make(TObj(SNT.NamedTupleAnalyzer), "self")
    self.cands = [SNT.NamedTupleAnalyzer]
    api = I.new_object(FakeApiN)
    self.fields["api"] = api
    info = I.new_object(N_.TypeInfo)
    old = I.make(TOpt(TObj(T_.TupleType)), "recorded_tuple_type")
    if isinstance(old, SObj):
        old.cands = [T_.TupleType]
    info.fields["tuple_type"] = old
    return {"args": [], "locals": {"self": self, "info": info, "types": SOpaque("types"), "fallback": SOpaque("fallback"), "line": I.make(TInt(), "line"),
                                   "items": SList([]), "name": I.make(TStr(), "name")}, "old": old}


def tuple_eq(I, args, kwargs):
    a, b = args[0], args[1]
    if isinstance(a, SObj) and isinstance(b, SObj):
        I.ctx.assume(TEQ(a.addr, a.addr))
        return SBool(TEQ(a.addr, b.addr))
    return SBool(z3.BoolVal(False))


def ens_progress(I, env, res):
    ev = [e for e in I.ctx.events if e[0] == "process_placeholder"]
    if not ev:
        return z3.BoolVal(True)
    fp = ev[0][1].get("force_progress")
    new = I.ctx.ghost.get("new_tuple")
    if fp is None or new is None:
        return z3.BoolVal(False)
    old = env["old"]
    differs = z3.Not(TEQ(new.addr, old.addr)) if isinstance(old, SObj) else z3.BoolVal(True)
    return I.truth(fp) == differs


def targets_progress(tier):
    def mk_tuple(I, a, k):
        o = I.new_object(T_.TupleType)
        I.ctx.ghost["new_tuple"] = o
        return o

    ov = {"mypy.types:TupleType": mk_tuple, "mypy.semanal_namedtuple:has_placeholder": returns(TBool(), "has_placeholder"), "mypy.semanal_shared:has_placeholder": returns(TBool(), "has_placeholder"),
          "contracts.robust:FakeApiN.process_placeholder": lambda I, a, k: (I.ctx.events.append(("process_placeholder", dict(k))), NONE)[1],
          "mypy.types:TupleType.__eq__": tuple_eq}
    return [Target("robust.namedtuple.progress_only_when_changed", "mypy.semanal_namedtuple:NamedTupleAnalyzer.build_namedtuple_typeinfo", setup_progress,
                   start_at="tuple_base = TupleType(types, fallback)", cut_at="info.update_tuple_type(tuple_base)",
                   ensures=[("deferral-claims-progress-iff-the-tuple-type-changed", ens_progress)], raises=(), overrides=ov, field_types={},
                   note="region around the deferral; TupleType equality is an uninterpreted reflexive relation")]


# ---- termination of the checker's deferral loop: a node is deferred only while passes are left.  The driver
# (State.type_check_second_pass / process_stale_scc) runs another pass whenever deferred nodes exist and the
# pass counter is bounded by last_pass only through this rule: every call of defer_node is governed by a test
# `pass_num < last_pass`.  A deferral outside such a test re-queues the node on the last pass too and the loop
# never ends.


def check_deferral_budget():
    import ast
    import os

    repo = os.environ.get("VERIF_REPO", "/repo")
    obs, sites = [], 0
    for rel in ("mypy/checker.py", "mypy/checkexpr.py", "mypy/checkmember.py", "mypy/checkpattern.py"):
        p = os.path.join(repo, rel)
        if not os.path.exists(p):
            continue
        tree = ast.parse(open(p).read())
        parents = {}
        for n in ast.walk(tree):
            for c in ast.iter_child_nodes(n):
                parents[c] = n
        for n in ast.walk(tree):
            if isinstance(n, ast.Call) and isinstance(n.func, ast.Attribute) and n.func.attr == "defer_node":
                sites += 1
                cur, governed, fn = n, False, "?"
                while cur in parents:
                    par = parents[cur]
                    if isinstance(par, ast.If) and any(cur is b or any(x is cur for x in ast.walk(b)) for b in par.body):
                        t = ast.unparse(par.test).replace(" ", "")
                        if "pass_num<self.last_pass" in t or "pass_num<self.chk.last_pass" in t or "pass_num<chk.last_pass" in t:
                            governed = True
                    if isinstance(par, (ast.FunctionDef, ast.AsyncFunctionDef)):
                        fn = par.name
                        break
                    cur = par
                obs.append({"name": f"deferral/only-while-passes-are-left/{fn}:{n.lineno}", "status": "discharged" if governed else "refuted", "where": f"{rel}:{n.lineno} in {fn}",
                            "detail": "" if governed else "defer_node is called outside any `pass_num < last_pass` test: the node is re-queued on the last pass as well and the deferral loop does not terminate",
                            "key": f"deferral:{fn}", "confirmed": True})
    if sites < 2:
        return [{"name": "deferral/call-sites-located", "status": "unknown", "where": f"{sites} defer_node call sites found"}]
    return obs


def targets_deferral(tier):
    from pyvc.runner import StaticCheck

    return [StaticCheck("robust.deferral_only_while_passes_are_left", check_deferral_budget, note="every defer_node call site is governed by a `pass_num < last_pass` test (source-level frame)")]


# ---- data-structure invariant of OverloadedFuncDef established by
# SemanticAnalyzer.analyze_property_with_multi_part_definition: `setter_index` is None or the position, in the
# FINAL items list, of the item that carried the `@x.setter` decorator.  (OverloadedFuncDef.setter indexes
# items[setter_index]; a stale index is an IndexError -- INTERNAL ERROR -- or the wrong item.)  BOUNDED: item
# lists of up to four entries after the property itself, each either a decorated or a stray plain definition.

import mypy.nodes as N_
import mypy.semanal as SA


def setup_property(I):
    self = I.make(TObj(SA.SemanticAnalyzer), "self")
    self.cands = [SA.SemanticAnalyzer]
    defn = I.new_object(N_.OverloadedFuncDef)
    n_extra = I.ctx.choose(4, "extra-items") + 1
    first = I.new_object(N_.Decorator)
    ffunc = I.new_object(N_.FuncDef)
    ffunc.fields["_name"] = I.make(TStr(), "prop_name")
    ffunc.fields["abstract_status"] = I.make(TInt(), "abstract_status")
    first.fields["func"] = ffunc
    fvar = I.new_object(N_.Var)
    first.fields["var"] = fvar
    items = [first]
    kinds = []
    for k in range(n_extra):
        if I.ctx.choose(2, f"item{k}-decorated?"):
            it = I.new_object(N_.Decorator)
            f = I.new_object(N_.FuncDef)
            it.fields["func"] = f
            deco = I.new_object(N_.MemberExpr)
            deco.fields["name"] = SStr(z3.StringVal("setter")) if I.ctx.choose(2, f"item{k}-setter?") else SStr(z3.StringVal("deleter"))
            it.fields["decorators"] = SList([deco])
            kinds.append("setter" if z3.is_string_value(simp(deco.fields["name"].t)) and simp(deco.fields["name"].t).as_string() == "setter" else "deleter")
        else:
            it = I.new_object(N_.FuncDef)
            kinds.append("stray")
        items.append(it)
    lst = SList(items)
    defn.fields["items"] = lst
    defn.fields["setter_index"] = NONE
    return {"args": [self, defn], "defn": defn, "orig": list(items), "kinds": kinds, "lst": lst}


def ens_property(I, env, res):
    defn = env["defn"]
    final = env["lst"].items
    si = defn.fields.get("setter_index")
    setters = [it for it, k in zip(env["orig"][1:], env["kinds"]) if k == "setter"]
    strays = [it for it, k in zip(env["orig"][1:], env["kinds"]) if k == "stray"]
    if any(any(x is s for x in final) for s in strays):
        return z3.BoolVal(False)  # stray definitions are removed
    if not setters:
        return z3.BoolVal(si is NONE or si is None)
    if not isinstance(si, SInt):
        return z3.BoolVal(False)
    idx = concrete_int(simp(si.t))
    return z3.BoolVal(idx is not None and 0 < idx < len(final) and final[idx] is setters[-1])


def targets_property(tier):
    ov = {"mypy.nodes:FuncDef.accept": noop, "mypy.nodes:Node.accept": noop, "mypy.nodes:MemberExpr.accept": noop,
          "mypy.semanal:SemanticAnalyzer._is_valid_property_decorator": lambda I, a, k: SBool(z3.BoolVal(True)),
          "mypy.semanal:function_type": lambda I, a, k: I.new_object(T_.CallableType), "mypy.typeops:function_type": lambda I, a, k: I.new_object(T_.CallableType), "mypy.semanal:SemanticAnalyzer.function_type": lambda I, a, k: SOpaque("fallback"),
          "mypy.semanal:SemanticAnalyzer.fail": noop, "mypy.semanal:SemanticAnalyzer.get_deprecated": lambda I, a, k: NONE}
    return [Target("robust.property.setter_index_points_at_the_setter", "mypy.semanal:SemanticAnalyzer.analyze_property_with_multi_part_definition", setup_property,
                   ensures=[("setter-index-valid-in-the-final-item-list", ens_property)], raises=(), overrides=ov, field_types={},
                   bounded="a property followed by 1 to 4 further items, each a decorated (setter / deleter) or a stray plain definition",
                   note="BOUNDED shape; every decorated item has a valid property decorator")]
