"""C20 'any input produces diagnostics, never an internal failure': exceptional postconditions
(raises = ()) on input-reachable kernels that are not already under a functional contract."""
from __future__ import annotations

import z3

from pyvc.interp import NONE, LoopSpec, PyExc
from pyvc.sym import *
from pyvc.target import Target
from pyvc.types import *
from .common import *

import mypy.types as MT


def parse_type_comment_contract(I, args, kwargs):
    """fastparse.parse_type_comment with errors=None: returns (ignores, type) or raises SyntaxError for
    text that does not parse, or ValueError for text the tokenizer rejects (NUL bytes, lone surrogates:
    UnicodeEncodeError is a ValueError)"""
    k = I.ctx.choose(4, "parse_type_comment")
    if k == 1:
        I.raise_exc(SyntaxError, "invalid syntax")
    if k == 2:
        I.raise_exc(ValueError, "source code string cannot contain null bytes")
    if k == 3:
        I.raise_exc(UnicodeEncodeError, "surrogates not allowed")
    node = I.make(TOpt(TObj(MT.ProperType)), "parsed_type")
    return STuple([NONE, node])


def setup_pts(I):
    s = I.make(TStr(), "expr_string")
    fb = I.make(TStr(), "expr_fallback_name")
    line, col = I.make(TInt(), "line"), I.make(TInt(), "column")
    return {"args": [s, fb, line, col], "s": s}


def ens_pts(I, env, res):
    return z3.BoolVal(isinstance(res, SObj))


FIELD_TYPES = {
    ("UnboundType", "original_str_expr"): TOpt(TStr()),
    ("UnionType", "original_str_expr"): TOpt(TStr()),
    ("UnboundType", "original_str_fallback"): TOpt(TStr()),
    ("UnionType", "original_str_fallback"): TOpt(TStr()),
}


def setup_split(I):
    s = I.make(TStr(), "s")
    return {"args": [s], "s": s}


def split_outer_inv(I, env):
    i = env["i"].t
    return z3.And(i >= 0)


def split_inner_inv(I, env):
    i = env["i"].t
    return z3.And(i >= 1)


def ens_split(I, env, res):
    return z3.BoolVal(isinstance(res, STuple) and len(res.items) == 2)


def ens_split_commas(I, env, res):
    """the pieces of value.split(','), without one trailing empty piece"""
    return z3.BoolVal(isinstance(res, (ZVal, SList)))


def ens_split_words(I, env, res):
    return z3.BoolVal(isinstance(res, (ZVal, SList)))


def more_targets():
    seqstr = TSeq(TStr(), mutable=True)
    return [
        Target("robust.split_commas", "mypy.config_parser:split_commas", lambda I: {"args": [I.make(TStr(), "value")]}, ensures=[("returns-a-list", ens_split_commas)], raises=(),
               note="config values are input text; items[-1] / pop(-1) are guarded by `if items`"),
        Target("robust.split_words", "mypy.util:split_words", lambda I: {"args": [I.make(TStr(), "msg")]}, ensures=[("returns-a-list", ens_split_words)], raises=(),
               loops={"for c in msg": LoopSpec(inv=lambda I, env: z3.BoolVal(True), havoc_types={"next_word": TStr(), "res": seqstr, "allow_break": TBool()})},
               note="message wrapping for --pretty: any text"),
    ]


def targets(tier):
    seqstr = TSeq(TStr())
    loops = {
        "while i < len(s)": LoopSpec(inv=split_outer_inv, havoc_types={"cur": seqstr, "parts": seqstr, "errors": seqstr}),
        "while i < len(s) and s[i] != '\"'": LoopSpec(inv=split_inner_inv, havoc_types={"cur": seqstr}),
    }
    return [
        Target("robust.parse_type_string", "mypy.fastparse:parse_type_string", setup_pts, ensures=[("returns-a-type", ens_pts)], raises=(),
               overrides={"mypy.fastparse:parse_type_comment": parse_type_comment_contract}, field_types=FIELD_TYPES,
               note="parse_type_comment enters through its exception contract (SyntaxError | ValueError incl. UnicodeEncodeError)"),
        Target("robust.split_directive", "mypy.config_parser:split_directive", setup_split, ensures=[("returns-parts-and-errors", ens_split)], raises=(),
               loops=loops, note="inline `# mypy:` comments are input text; index safety of both scanning loops"),
    ] + more_targets()


# ---- no visitor entry point lets the 'this expression is not a type' signal escape


def check_type_translation_escapes():
    from frames import escapes

    seen, F = escapes.scan()
    if seen < 500 or "expr_to_analyzed_type" not in F:
        return [{"name": "escapes/scan", "status": "unknown", "where": f"{seen} functions scanned, propagating set {sorted(F)}: layout changed?"}]
    obs = [{"name": "escapes/propagating-functions-computed", "status": "discharged", "where": f"{seen} functions; TypeTranslationError may propagate out of: {', '.join(sorted(F))}"}]
    entry = sorted(n for n in F if n.startswith("visit_"))
    for n in entry:
        rel, ln, callee = F[n][0]
        obs.append({"name": f"escapes/visitor-entry-point-contains-the-signal/{n}", "status": "refuted", "where": f"{rel}:{ln} unprotected call of {callee}",
                    "detail": f"{n} is called by the tree traversal with no handler above it: an expression that is not a type (a call, a lambda, `int + str`) ends in INTERNAL ERROR instead of a diagnostic",
                    "key": f"escapes:{n}", "confirmed": True})
    if not entry:
        obs.append({"name": "escapes/no-visitor-entry-point-lets-TypeTranslationError-escape", "status": "discharged", "where": "visit_* methods of the semantic analyzer / expression checker"})
    return obs


def targets_escapes(tier):
    from pyvc.runner import StaticCheck

    return [StaticCheck("robust.type_translation_error_contained", check_type_translation_escapes,
                        note="fixpoint over call sites by simple name; handlers recognised: TypeTranslationError, Exception, BaseException, bare except")]
