"""C04 (sqlite store): the three records of a module live in one shard, hence in one transaction.

mypy.util.hash_path_stem is verified in three regions (its two loops have the same header, so each
region carries its own invariant):
  scan   : `end` is the index of the first '.' after the last path separator, or len(s)-1;
  fold   : the accumulator after the second loop is HS(s[:end+1]) -- a function of that prefix only;
  final  : the statements after the loops read nothing but the accumulator; the result is in [0, 2^32).
and the lemma `names`: for P + suffix with a dot-free last component of P, `end` is len(P), so every
suffix gives the same prefix P + '.' and therefore the same hash (and the same shard)."""
from __future__ import annotations

import z3

from pyvc.interp import NONE, LoopSpec
from pyvc.sym import *
from pyvc.target import Target
from pyvc.types import *
from .common import *

DOT, SL, BSL = z3.StringVal("."), z3.StringVal("/"), z3.StringVal("\\")
HS = z3.Function("stem_hash_state", StrS, IntS, IntS, IntS)  # HS(prefix, i, hv): accumulator after folding prefix[i], ..., prefix[0] into hv

OV = {"mypy_extensions:i64": lambda I, a, k: a[0], "i64": lambda I, a, k: a[0]}


def tail(s, i):
    """s[i+1:]"""
    return z3.SubString(s, i + 1, z3.Length(s) - i - 1)


def scan_inv(I, env):
    s, i, end = env["s"].t, env["i"].t, env["end"].t
    L = z3.Length(s)
    no_sep = z3.And(z3.Not(z3.Contains(tail(s, i), SL)), z3.Not(z3.Contains(tail(s, i), BSL)))
    first_dot = z3.Or(z3.And(end == L - 1, z3.Not(z3.Contains(tail(s, i), DOT))),
                      z3.And(i < end, end <= L - 1, z3.SubString(s, end, 1) == DOT, z3.Not(z3.Contains(z3.SubString(s, i + 1, end - i - 1), DOT))))
    return z3.And(i >= -1, i <= L - 1, no_sep, first_dot)


def scan_post(s, i, end):
    """at the end of the scan: i is -1 or the position of the last separator; end as in scan_inv"""
    L = z3.Length(s)
    at_sep = z3.Or(i == -1, z3.SubString(s, i, 1) == SL, z3.SubString(s, i, 1) == BSL)
    no_sep = z3.And(z3.Not(z3.Contains(tail(s, i), SL)), z3.Not(z3.Contains(tail(s, i), BSL)))
    first_dot = z3.Or(z3.And(end == L - 1, z3.Not(z3.Contains(tail(s, i), DOT))),
                      z3.And(i < end, end <= L - 1, z3.SubString(s, end, 1) == DOT, z3.Not(z3.Contains(z3.SubString(s, i + 1, end - i - 1), DOT))))
    return z3.And(i >= -1, i <= L - 1, at_sep, no_sep, first_dot)


def setup_scan(I):
    s = I.make(TStr(), "s")
    return {"args": [s], "s": s}


def ens_scan(I, env, res):
    loc = env.get("__locals")
    if not env.get("__cut") or loc is None:
        return z3.BoolVal(False)
    return scan_post(env["s"].t, loc["i"].t, loc["end"].t)


def names_lemma(suffix):
    """lemma over the CONTRACT of the scan (target stem.scan), no code involved: for s = d + q + suffix
    (d empty or ending in a separator; q without separator and dot; the suffix starts with '.' and holds
    no separator) the scan's postcondition forces end == len(d + q)"""
    def run():
        from pyvc.solve import cvc5_check

        d, q = z3.String("dir_part"), z3.String("last_component")
        suf = z3.StringVal(suffix)
        s = z3.Concat(d, q, suf)
        i, end = z3.Ints("i end")
        pre = z3.And(z3.Or(z3.Length(d) == 0, z3.SuffixOf(SL, d), z3.SuffixOf(BSL, d)), z3.Not(z3.Contains(q, SL)), z3.Not(z3.Contains(q, BSL)), z3.Not(z3.Contains(q, DOT)))
        obs = []
        cover = z3.Solver()
        cover.set("timeout", 20000)
        cover.add(pre, scan_post(s, i, end))
        rc = cover.check()
        if rc == z3.unsat:
            return [{"name": f"stem-lemma/non-vacuous{suffix}", "status": "unknown", "where": "hypotheses of the lemma are contradictory"}]
        sv = z3.Solver()
        sv.set("timeout", 60000)
        sv.add(pre, scan_post(s, i, end), end != z3.Length(d) + z3.Length(q))
        # cvc5 decides this string lemma (20 s unloaded), z3 does not: cvc5 goes first, with a budget that a
        # fully loaded machine does not exhaust
        r2, secs = cvc5_check(sv.to_smt2(), timeout_s=480, want_model=False)
        solver = "cvc5"
        r = z3.unsat if r2 == "unsat" else z3.sat if r2 == "sat" else z3.unknown
        if r == z3.unknown:
            r = sv.check()
            solver = "z3"
        st = "discharged" if r == z3.unsat else "refuted" if r == z3.sat else "unknown"
        obs.append({"name": f"stem-lemma/end-is-len-of-prefix{suffix}", "status": st, "solver": solver, "where": "scan postcondition => end == len(P)", "key": f"stem-lemma:{suffix}"})
        return obs
    return run


def setup_names(suffix):
    def setup(I):
        d, q = I.make(TStr(), "dir_part"), I.make(TStr(), "last_component")
        c = I.ctx
        # P = d + q: d is empty or ends with a separator; q (the last component) has no separator and no dot
        c.assume(z3.Or(z3.Length(d.t) == 0, z3.SuffixOf(SL, d.t), z3.SuffixOf(BSL, d.t)))
        c.assume(z3.And(z3.Not(z3.Contains(q.t, SL)), z3.Not(z3.Contains(q.t, BSL)), z3.Not(z3.Contains(q.t, DOT))))
        s = SStr(z3.Concat(d.t, q.t, z3.StringVal(suffix)))
        return {"args": [s], "s": s, "P": z3.Concat(d.t, q.t)}
    return setup


def ens_names(I, env, res):
    loc = env.get("__locals")
    if not env.get("__cut") or loc is None:
        return z3.BoolVal(False)
    return loc["end"].t == z3.Length(env["P"])


def fold_inv(I, env):
    s, i, end, hv = env["s"].t, env["i"].t, env["__end0"].t if "__end0" in env else env["end"].t, env["hv"].t
    g = I.ctx.ghost
    p = z3.SubString(s, 0, end + 1)
    base = z3.And(i >= -1, i <= end, HS(p, i, hv) == HS(p, end, z3.IntVal(123)))
    phase = g.get("fold_phase", 0)
    g["fold_phase"] = phase + 1
    if phase == 1:
        g["fold_head"] = (i, hv)  # loop head of the arbitrary iteration
        return base
    if phase == 2:
        i0, hv0 = g["fold_head"]
        # definition of HS, unfolded once at the head state: folding prefix[i0] is the loop body's own step
        step = UF_BITXOR(hv0 * 33, z3.StrToCode(z3.SubString(p, i0, 1)))
        unfold = z3.Implies(i0 >= 0, HS(p, i0, hv0) == HS(p, i0 - 1, step))
        return z3.Implies(unfold, base)
    return base


def setup_fold(I):
    s = I.make(TStr(), "s")
    end = I.make(TInt(), "end")
    I.ctx.assume(z3.And(end.t >= -1, end.t < z3.Length(s.t)))
    return {"args": [], "locals": {"s": s, "end": end, "i": I.make(TInt(), "i_scan")}, "s": s, "end": end}


def ens_fold(I, env, res):
    """after the second loop the accumulator is HS(prefix, -1-th state) = the fold of the prefix s[:end+1]"""
    loc = env.get("__locals")
    if not env.get("__cut") or loc is None:
        return z3.BoolVal(False)
    s, end = env["s"].t, env["end"].t
    p = z3.SubString(s, 0, end + 1)
    i, hv = loc["i"].t, loc["hv"].t
    exit_def = z3.Implies(i < 0, HS(p, i, hv) == hv)  # definition of HS below index 0
    return z3.Implies(exit_def, hv == HS(p, end, z3.IntVal(123)))


def setup_final(I):
    return {"args": [], "locals": {"hv": I.make(TInt(), "hv")}}


def ens_final(I, env, res):
    """reaching the return with only `hv` in scope shows the finalizer reads nothing else; the value
    itself is a composition of uninterpreted bit operations on hv"""
    return z3.BoolVal(isinstance(res, SInt))


def setup_meta_ex(ext):
    def setup(I):
        P = I.make(TStr(), "P")
        return {"args": [SStr(z3.Concat(P.t, z3.StringVal(".meta" + ext)))], "P": P}
    return setup


def ens_meta_ex(ext):
    def ens(I, env, res):
        """get_meta_ex_name(P + '.meta' + ext) == P + '.meta_ex' + ext, whatever dots P contains"""
        return res.t == z3.Concat(env["P"].t, z3.StringVal(".meta_ex" + ext))
    return ens


SUFFIXES = [".meta.ff", ".data.ff", ".meta_ex.ff", ".meta.json", ".data.json", ".meta_ex.json", ".deps.json"]


def targets(tier):
    scan_loops = {"while i >= 0": LoopSpec(inv=scan_inv, name="scan", havoc_types={"c": TInt()})}
    fold_loops = {"while i >= 0": LoopSpec(inv=fold_inv, name="fold", havoc_types={"c": TInt()})}
    ts = [
        Target("stem.scan", "mypy.util:hash_path_stem", setup_scan, ensures=[("end-is-first-dot-after-last-separator", ens_scan)], raises=(), overrides=OV,
               loops=scan_loops, cut_at="hv: i64 = 123", note="first loop of hash_path_stem (i64 annotations ignored: interpreted semantics)"),
        Target("stem.fold", "mypy.util:hash_path_stem", setup_fold, ensures=[("accumulator-is-a-function-of-the-stem-prefix", ens_fold)], raises=(), overrides=OV,
               loops=fold_loops, start_at="hv: i64 = 123", cut_at="hv = (hv ^ hv >> 32) & 4294967295",
               note="second loop: HS is the function the loop body itself defines over the prefix s[:end+1] (one unfolding per iteration)"),
        Target("stem.final", "mypy.util:hash_path_stem", setup_final, ensures=[("result-computed-from-the-accumulator-only", ens_final)], raises=(), overrides=OV,
               start_at="hv = (hv ^ hv >> 32) & 4294967295", note="the finalizer reads only the accumulator (no other local is provided)"),
    ]
    for ext in (".ff", ".json"):
        ts.append(Target(f"stem.get_meta_ex_name{ext}", "mypy.build:get_meta_ex_name", setup_meta_ex(ext), ensures=[("same-prefix-meta_ex-suffix", ens_meta_ex(ext))],
                         raises=(), oblig_timeout_ms=30000, note="the meta_ex record's name differs from the meta record's only after the stem"))
    from pyvc.runner import StaticCheck

    for suf in SUFFIXES:
        ts.append(StaticCheck(f"stem.names{suf}", names_lemma(suf), note=f"lemma over the scan contract: P + '{suf}' has its stem end at len(P) (cvc5 decides it, z3 does not)"))
    return ts
