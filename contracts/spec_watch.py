"""stand-ins used by contracts/watch.py"""
from __future__ import annotations


class FakeStat:
    st_mtime: float
    st_size: int
    st_mode: int


class FakeFs:
    def stat_or_none(self, path):
        raise NotImplementedError

    def hash_digest(self, path):
        raise NotImplementedError
